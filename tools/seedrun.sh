#!/bin/bash
# seedrun.sh <patch.diff> <tier> <ID>... : apply a seeded change to /repo, run the given checks, ALWAYS revert.
P=$1; TIER=$2; shift 2
cd /verif
if ! git -C /repo diff --quiet; then echo "/repo not clean"; exit 3; fi
trap 'git -C /repo checkout -- . ; git -C /repo clean -fdq' EXIT
git -C /repo apply "$P" || { echo "apply failed"; exit 3; }
for id in "$@"; do
  out=$(VERIF_SEED=${VERIF_SEED:-1} ./vcheck run $id --tier $TIER 2>/tmp/seedrun.$$.err); rc=$?
  echo "== $id rc=$rc $(echo "$out" | grep -c VIOLATION) violation line(s)"
  echo "$out" | grep 'VIOLATION\|KNOWN' | head -3
  if [ $rc = 2 ]; then tail -5 /tmp/seedrun.$$.err; fi
  grep -m2 '^   ' /tmp/seedrun.$$.err | cut -c1-400
done
rm -f /tmp/seedrun.$$.err
