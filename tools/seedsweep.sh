#!/bin/bash
# seedsweep.sh [tier] : for every seeded change, apply it to /repo, run the property's own check, revert; writes seeded/RESULTS.txt
TIER=${1:-quick}
cd /verif
: > seeded/RESULTS.txt
for d in seeded/C*/; do
  id=$(basename $d); prop=${id:0:3}
  patch=/verif/$d/patch.diff
  [ -f /verif/$d/patch.rebased.diff ] && patch=/verif/$d/patch.rebased.diff
  out=$(timeout 3000 bash tools/seedrun.sh $patch $TIER $prop 2>&1 | grep "^== ")
  echo "$id $out" | tee -a seeded/RESULTS.txt
done
