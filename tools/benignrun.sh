#!/bin/bash
# benignrun.sh <patch.diff> <tier> <ID>... : apply a behaviour-preserving change to /repo, run the given checks, ALWAYS revert.
# Unlike seedrun.sh the expectation is rc=0 everywhere: any VIOLATION here is a false alarm of the machinery.
P=$1; TIER=$2; shift 2
cd /verif; mkdir -p out/benign
if ! git -C /repo diff --quiet; then echo "/repo not clean"; exit 3; fi
trap 'git -C /repo checkout -- . ; git -C /repo clean -fdq' EXIT
git -C /repo apply "$P" || { echo "apply failed"; exit 3; }
b=$(basename $P .diff)
for id in "$@"; do
  VERIF_SEED=${VERIF_SEED:-1} ./vcheck run $id --tier $TIER > out/benign/$b-$id.log 2>&1; rc=$?
  echo "$b $id rc=$rc $(grep -c VIOLATION out/benign/$b-$id.log) viol"
  if [ $rc != 0 ]; then grep -m3 'VIOLATION\|INCONCLUSIVE' out/benign/$b-$id.log; grep -m3 '^   ' out/benign/$b-$id.log | cut -c1-500; mkdir -p out/benign/replay-$b-$id; cp out/replay/$id-$TIER-*.json out/benign/replay-$b-$id/ 2>/dev/null; else rm -f out/benign/$b-$id.log; fi
done
