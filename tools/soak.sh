#!/bin/bash
# soak.sh <tier> <seed-from> <seed-to> <ID>... : run the given checks for a range of seeds, keep the logs of any run that is not exit 0
TIER=$1; A=$2; B=$3; shift 3
cd /verif; mkdir -p out/soak
for sd in $(seq $A $B); do
  for id in "$@"; do
    s=$(date +%s)
    rm -f out/replay/$id-$TIER-*.json   # replay files are numbered per run: none of an earlier run may be kept as this run's
    VERIF_SEED=$sd ./vcheck run $id --tier $TIER > out/soak/$id-$TIER-$sd.log 2>&1; rc=$?
    echo "$(date +%H:%M:%S) seed=$sd $id rc=$rc $(( $(date +%s) - s ))s $(grep -c VIOLATION out/soak/$id-$TIER-$sd.log) viol"
    if [ $rc = 0 ]; then rm -f out/soak/$id-$TIER-$sd.log; else mkdir -p out/soak/replay-$id-$sd; cp out/replay/$id-$TIER-*.json out/soak/replay-$id-$sd/ 2>/dev/null; fi
  done
done
