#!/bin/bash
# confirm_seed.sh <ID> <variant>: independently confirm a sub-agent's seeded change in its scratch worktree:
# applies, builds, full suite passes with it, demo fails with it and passes without. On success copies it to /verif/seeded/<ID><variant>/.
set -u
ID=$1; V=$2
WT=/tmp/seed/$ID; SRC=/tmp/seed/out/$ID/$V; DST=/verif/seeded/$ID$V
export GOFLAGS=-mod=mod GOPROXY=off GOSUMDB=off GOTOOLCHAIN=local
LOG=/tmp/seed/out/$ID/$V/confirm.log; : > $LOG
fail() { echo "CONFIRM-FAIL $ID$V: $*" | tee -a $LOG; git -C $WT checkout -- . ; git -C $WT clean -fdq; exit 1; }
[ -f $SRC/patch.diff ] || fail "no patch"
git -C $WT checkout -- . ; git -C $WT clean -fdq
DEMO_PATH=$(python3 -c "import json;print(json.load(open('$SRC/meta.json'))['demo_path'])")
DEMO_CMD=$(python3 -c "import json;print(json.load(open('$SRC/meta.json'))['demo_cmd'])")
DEMO_FILE=$(ls $SRC | grep -v 'patch.diff\|meta.json\|confirm.log' | head -1)
git -C $WT apply --check $SRC/patch.diff || fail "patch does not apply"
# 1. demo passes WITHOUT the change
mkdir -p $WT/$(dirname $DEMO_PATH); cp $SRC/$DEMO_FILE $WT/$DEMO_PATH
DEMO_CMD=${DEMO_CMD//go test/go1.26 test}; DEMO_CMD=${DEMO_CMD//go1.26 1.26/go1.26}
( cd $WT && eval "$DEMO_CMD" ) >> $LOG 2>&1 || fail "demo fails on unmodified tree"
# 2. with the change: builds, demo FAILS
git -C $WT apply $SRC/patch.diff || fail "apply"
( cd $WT && go1.26 build ./... ) >> $LOG 2>&1 || fail "does not build"
if ( cd $WT && eval "$DEMO_CMD" ) >> $LOG 2>&1; then fail "demo passes with the change"; fi
# 3. full suite passes with the change (demo removed)
rm -f $WT/$DEMO_PATH
ok=0
for try in 1 2; do
  if ( cd $WT && go1.26 test -vet=off -count=1 -timeout 25m ./... ) > /tmp/seed/out/$ID/$V/suite.log 2>&1; then ok=1; break; fi
done
[ $ok = 1 ] || { grep -E '^(--- FAIL|FAIL)' /tmp/seed/out/$ID/$V/suite.log | head >> $LOG; fail "suite fails with the change"; }
git -C $WT checkout -- . ; git -C $WT clean -fdq
mkdir -p $DST; cp $SRC/patch.diff $SRC/$DEMO_FILE $DST/
python3 - <<PY
import json
m=json.load(open('$SRC/meta.json'))
m['confirmed_by_main']=['git apply --check ok','demo passes on unmodified tree','build ok with change','demo fails with change','full suite (go1.26 test -vet=off -count=1 ./...) passes with change']
json.dump(m,open('$DST/meta.json','w'),indent=1)
PY
echo "CONFIRM-OK $ID$V" | tee -a $LOG
