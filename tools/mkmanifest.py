#!/usr/bin/env python3
"""Regenerates /verif/MANIFEST.json from the table below (kept valid at all times)."""
import json, os, sys
HERE = os.path.dirname(os.path.dirname(os.path.abspath(__file__)))
BASE = "cd /repo && GOFLAGS=-mod=mod GOPROXY=off go test -json -vet=off -count=1 -timeout 25m ./..."

CHECKS = {
 "C01": dict(cat="model_checking", engine="e5-oracle", design="§4 C01",
   technique="TLA+ reference codec (E5Codec) enumerated by TLC + spec-as-oracle trace validation of recorded real encode/decode I/O",
   text="TLC enumerates a boundary-rich item space from spec/fn/E5Gen.tla (every format code x 0/1/2 elements x landmark values, nesting to depth 64, wide lists across slab/length boundaries, run-length leaves at 255/256/65535/65536/2^24-1) and model-checks the E5 transcription against itself; the Go harness realises every case through every public constructor shape on the real secs2 package plus seeded random trees, and TLC (OracleE5) judges every recorded (item, bytes, length, append, decode-back, Equal) line against the reference encoder/decoder.",
   note="Trusted: the E5 transcription in spec/fn/E5Codec.tla (self-checked Decode(Encode(i))=i over the enumerated space), TLC, the projection of real items through public accessors (harness/e5). Bounded enumeration + sampling, not a proof over all trees."),
 "C02": dict(cat="model_checking", engine="e5-oracle", design="§4 C02",
   technique="TLA+ reference decoder (E5Codec!Dec) as oracle over recorded real Decode/DecodeOwned outcomes; exhaustive short-string alphabet + grammar-directed mutations",
   text="The real Decode and DecodeOwned are run on every byte string of length <=4 (quick) / <=5 (thorough) over a 14-symbol grammar alphabet (format bytes with 0..3 length bytes, small lengths), on truncations / single and double substitutions / length-field rewrites / non-canonical 2- and 3-length-byte re-encodings of valid items, on nesting chains 62..66 and 200, and on random strings; TLC judges each recorded line against the transcribed E5 grammar: accept/reject, decoded value, re-encoding equals the consumed prefix, both entry points agree, allocation <= 64*len+256KiB.",
   note="Trusted: spec/fn/E5Codec.tla!Dec, TLC, runtime heap-allocation counters for the memory clause (a measurement, not a model fact). Exhaustive only over the stated alphabet and lengths."),
 "C03": dict(cat="model_checking", engine="hsms-oracle", design="§4 C03",
   technique="TLA+ E37 frame reference (HsmsFrame + E5Codec) as oracle over recorded real construct/serialize/decode/re-stamp observations",
   text="The real hsms constructors (NewDataMessage, NewDataMessageFromHeader, Derive..Build, all nine control factories), ToBytes/HeaderBytes, DecodeHSMSMessage/DecodeHSMSPayload and WithSessionID/WithSystemBytes/WithID/Derive chains are driven over the landmark product stream{0,1,63,64,127,128,255} x function{0,1,2,127,128,254,255} x W x session id x system bytes x bodies, all control kinds x status/reason bytes, errored bodies and random messages; TLC (OracleHsms) checks each line against HsmsFrame: construction accepts exactly ValidData and error-free bodies, frame = len4 || header || E5 body, decode/re-serialize identity, re-stamps change only their bytes.",
   note="Trusted: spec/fn/HsmsFrame.tla (E37 layout), E5Codec for bodies, TLC. The 'what a connection writes to the socket' clause is bound by the end-to-end recordings of C06/C07 (raw peer compares socket bytes with ToBytes)."),
 "C05": dict(cat="model_checking", engine="supervisor-mc", design="§3.1, §4 C05",
   technique="TLC exhaustive model check of an implementation-shaped TLA+ spec of the supervisor; TLC behaviours and counterexamples replayed on the real supervisor through gated verif hooks; recorded steps judged by a TLA+ property acceptor (trace validation)",
   text="impl/Supervisor.tla models hsms/supervisor.go at the grain of its critical sections (commit CAS / echo enqueue / dequeue+load / apply / notifier, closed latch and sentinel, drop-oldest buffer). TLC explores every interleaving within the constants and checks the observable-level C05 formulas (E37 edges, no echo replay, T7 safety, closed stays closed, notification chain, final agreement). Thousands of TLC-generated behaviours (random walks of a larger model + every counterexample) are replayed step by step on the REAL supervisor with real CAS commits and the real step(), gated at the commit and state-load seams; every recorded step is judged by the property-level acceptor TraceE37; model-vs-code drift is measured (0 on the unchanged tree).",
   note="Trusted: the environment assumptions of impl/Supervisor.tla (stated in the module), the verif driver hsms/export_verif.go (calls only real code), TLC. Known findings F1 and F5 (known_findings.json) are reproduced on every run and reported as KNOWN-FINDING. End-to-end C05 clauses over real transports are covered by the C07/C08/C10 recordings."),
 "C08": dict(cat="model_checking", engine="hsmsss-e2e", design="§3.2, §4 C08",
   technique="TLA+ transducer of the HSMS-SS responder (impl/HsmsSS) folded by TLC over recorded frame exchanges between a scripted raw peer and live hsmsss connections (trace validation)",
   text="A raw scripted peer that shares no code with go-secs plays every sequence of an 19-symbol frame alphabet (every control SType incl. orphan responses and Reject.req, data primary/secondary, foreign session id, control frame with body, non-zero PType, undefined STypes, foreign-sid S9F1, second TCP connection) up to length 2 (quick) / 3 (thorough) plus longer random sequences, one frame per Linktest barrier and as single-/split-write bursts (data pipelined behind Select.req / Select.rsp), against live passive and active hsmsss connections over loopback TCP with session-id validation on and off. TLC (OracleHsmsSS) folds impl/HsmsSS!Respond over the frames the peer wrote and must reproduce every frame read back (status, reason, echoed type byte, session id, system bytes), handler deliveries, link liveness and State().",
   note="Trusted: the E37 answer tables as transcribed in spec/impl/HsmsSS.tla and fn/HsmsFrame.tla, the raw peer (harness/peerkit), loopback TCP, Linktest barriers as FIFO fence. Sequences are bounded; bursts with Select followed by Deselect are excluded because known finding F1 makes them racy (decided by C05)."),
 "C07": dict(cat="model_checking", engine="hsmsss-e2e", design="§4 C07",
   technique="TLA+ gate property (prop/Gate) and HSMS-SS transducer (impl/HsmsSS) as trace acceptors over recorded probes of live connections; exhaustive condition x entry-point x role grid and every byte cut of pipelined bursts",
   text="Send half: all 8 data-sending entry points x all not-selected conditions (never opened, connecting, connected-not-selected, deselected, between reconnect generations, closed, deselected while the writer is parked under the write lock through the verif gate write.locked) x both roles are probed on live hsmsss connections against a raw peer; TLC judges each probe with prop/Gate (error class, zero data frames at the peer, exactly one drop, Linktest round trip still works; positive control while Selected). Receive half: Select.req (passive) / Select.rsp (active) followed by 1..3 data frames written as one burst cut at every byte offset, and data while not Selected, are judged by the impl/HsmsSS transducer (delivered, never rejected / Reject reason 4 with echoed ids, link stays up).",
   note="Trusted: prop/Gate.tla condition table, the raw peer, loopback TCP. The interleaving 'supervisor between its load and store while the receive path commits' is decided at supervisor level by C05, not end to end."),
 "C06": dict(cat="model_checking", engine="txn-e2e", design="§3.3, §4 C06",
   technique="TLC exhaustive check of impl/SendReply (send path + reply registry + routing); recorded concurrent send/reply histories of live connections against a scripted raw peer judged by the TLA+ property module prop/Txn (trace validation)",
   text="Design level: impl/SendReply.tla (Begin/Write/Recv/Take/Timeout/Released/Cancel critical sections, registry keyed by system bytes, two epochs) is model-checked exhaustively for NeverNilNil, OwnReply, UniqueSb, RegistryClean (and the C09/C20 invariants). Code level: 1..8 concurrent SendDataMessage(W) calls (+ a handler-nested send) run against a raw peer scripted per call -- reply, late reply past T3, no reply, duplicate, Reject.req with each reason, a peer PRIMARY with colliding system bytes, a control response with colliding system bytes, unsolicited secondary, reversed reply order, caller cancel, peer drop/reset, Close, a writer stalled under the write lock (verif gate), auto-linktest sharing the system-bytes space -- and TLC judges every recorded history with prop/Txn: exactly one of the five outcomes, own reply (system bytes, secondary, own token), never (nil,nil), reject reason, T3 no earlier than T3 after the peer saw the primary, each inbound data message to exactly one recipient in arrival order (duplicates may vanish), system bytes unique among all open transactions.",
   note="Trusted: prop/Txn.tla, the scripted peer, loopback TCP; peer receive time stands in for write time; timing clauses use 8 ms + measured jitter slack. impl/SendReply is bound to the code through these recorded histories (property level), not by per-step hooks. Finding F7 (control response completing a data send with nil,nil) was found here and fixed (4ba5833)."),
 "C09": dict(cat="model_checking", engine="txn-e2e", design="§4 C09",
   technique="TLC check of generation isolation on impl/SendReply; generation-ending histories of live connections (peer close/reset, Close, stalled writer with queued async sends, second generation with stale replies) judged by prop/Txn Gen clauses",
   text="impl/SendReply is model-checked for NoStaleFrame / OwnReply across two epochs. On the code, scenarios end generation 1 at chosen points -- sends awaiting replies, a handler-nested send, a writer parked under the write lock with four fire-and-forget messages queued behind it -- by peer close, peer RST or Close(), then bring up generation 2, replay stale replies carrying generation-1 system bytes on it and make fresh calls. prop/Txn judges: frames of generation-1 calls and queued async messages never appear on the generation-2 socket; a stale reply never completes anything; every waiting send returns closed/T3/ctx promptly (measured from the library's own NotConnected notification); generation 2 is fully working.",
   note="HSMS-SS transport only (the SECS-I transport's generation handling is exercised by C17/C18 scenarios, not judged here). Promptness bound 150 ms + jitter; T3 = 250 ms."),
 "C20": dict(cat="model_checking", engine="txn-e2e", design="§4 C20",
   technique="TLC check of counter/gauge conservation on impl/SendReply; metric getters read at quiescent points of recorded histories compared with the raw peer's independent counts by prop/Txn Met clauses",
   text="impl/SendReply carries the in-flight gauge and the sent/err/drop counters as ordinary variables; TLC checks InflightConserves and SendMatchesWire in every interleaving. On the code, every scenario of the C06/C09 families reads all metric getters before and after (all calls returned, barrier done) and samples the gauges throughout; prop/Txn judges: in-flight gauge 0 at quiescence and never negative, reconnecting gauge never negative and 0 at quiescent Selected/closed, DataMsgSendCount delta = data frames the peer received, DataMsgRecvCount delta = well-formed data frames the peer sent while Selected, error delta = number of T3 outcomes (reject: none), drop delta = number of refused sends (incl. refusals at the write boundary with the writer parked).",
   note="Wire-equality clauses are judged in scenario kinds without an abrupt generation end (plain, cancel, stall, b2); the reconnecting gauge's 'positive while a loop runs' clause is judged by C11."),
 "C11": dict(cat="fault_enumeration", engine="recovery-e2e", design="§4 C11",
   technique="TLA+ backoff schedule (fn/Backoff) and recovery property (prop/Recovery) as trace acceptors over an enumeration of link faults at byte offsets on live connections; pure backoff step checked against the spec operator over a grid",
   text="Every exchange of a session (TCP connect, Select.req, Select.rsp, inbound data primary, reply to an outbound primary, Linktest.req, Linktest.rsp, idle) is cut at byte offsets of its frame (every 3rd offset plus 0, 4 and the last in quick; every offset in thorough) by peer close, peer RST or a silent stall that only T6 / T7 / T8 / the write timeout / the linktest can detect, plus select rejection and 0..4 consecutive refused dials under three backoff configurations, on active and passive live hsmsss connections. TLC judges each recorded scenario with prop/Recovery: the broken session is left within the covering timer, an idle gap does not time out, dial gaps follow Backoff!Sleep(k) (floor -2 ms, ceiling +200 ms), exactly refused+1 dials, passive re-listens, a Selected session with a W round trip in both directions is reached, Reconnects() moves by exactly the successful re-dials, the reconnecting gauge is never negative / positive while dials are refused / zero after recovery, and nothing dials or listens after Close. The exported real nextBackoffDelay agrees with Backoff!Next on a 798-point grid.",
   note="Timers are scaled down (T5 60..200 ms); bounds are one-sided plus generous ceilings with measured-jitter slack. HSMS-SS transport only."),
 "C10": dict(cat="model_checking", engine="lifecycle", design="§3.4, §4 C10",
   technique="TLC exhaustive safety + liveness check of impl/Connection (Open/Close/reconnect/epoch/seal model); random and gate-forced concurrent API histories on live connections audited and judged by the TLA+ property module prop/Lifecycle (trace validation)",
   text="impl/Connection.tla models hsms/connection_lifecycle.go + epoch.go + the transport seal with one action per critical section (lifeMu, double-open guard, reconnectGen fence, shutdown flag, supervisor react, reconnect loop labels, teardown/join). TLC checks for two concurrent callers and up to four operations: Close leaves no loop / live epoch / socket, nothing reconnects after Close, one live generation, Open-while-open changes nothing, a recovery path always exists, Close never waits on the environment, and under weak fairness every Close terminates. On the code, seeded random histories of 2..3 API goroutines (Open background/wait-selected with ctx, Close, W-bit and async sends, UpdateConfigOptions) run with real concurrency against a peer that connects, selects, stalls, drops, resets and refuses at random (active and passive, linktest on/off), plus gate-forced races (peer accepted exactly while Close runs via the verif gate tr.accepted; redundant Open while the reconnect loop backs off). After each history the harness audits the final Close (latency <= close timeout + slack, second Close identical, State()==NotConnected, every wrapped socket/listener closed, no dial/listen for 3xT5, no state notification, no goroutine with a go-secs frame in runtime.Stack), probes Open-while-open for side effects, requires the connection to get back to Selected once the peer behaves, and re-opens with a round trip. TLC judges every history with prop/Lifecycle.",
   note="Trusted: prop/Lifecycle.tla, the wrapped net.Conn/net.Listener accounting of harness/peerkit, runtime.Stack for the goroutine audit (a runtime observation, not a model fact). Go's scheduler is sampled, not enumerated; gates force the two races named above. Finding F6 (Close blocked behind Open(wait)) was found by the model and fixed (6f99346). HSMS-SS transport only."),
 "C19": dict(cat="model_checking", engine="linktest", design="§3.5, §4 C19",
   technique="TLC exhaustive check of impl/LinktestLoop (runLinktest with integer time + transcribed accounting rules); exported real rules compared with the transcription on the full grid; peer personalities against a live connection judged on counts by a TLA+ acceptor",
   text="impl/LinktestLoop.tla transcribes the auto-linktest loop and its two pure rules; TLC checks for threshold 1..3 x suppression on/off (up to 4.5 M states per configuration): a disconnect needs `threshold` consecutive counted timeouts, a silent peer is dropped exactly then, with suppression nothing is dropped while a reply is outstanding or a frame arrived since the probe and no probe is sent within an interval of traffic, without suppression every timeout counts. The exported real linktestFailureStep / linktestDisconnectRecheck agree with fn/LinktestRules on all 5400 grid points. End to end: silent, answering, slow-but-alive (answers after T6), chatty, reply-outstanding, intermittently-alive and silent-with-local-writes peers x threshold 1..3 x suppression on/off on live connections (interval 100 ms, T6 50 ms); the raw peer counts probes after the last sign of life, probes near traffic / while a reply is outstanding, probe spacing and whether/when the socket was closed; TLC judges the counts.",
   note="Timing scenarios disturbed by > 20 ms scheduler jitter are repeated up to 3 times and otherwise excluded; more than 3 disturbed scenarios make the run inconclusive (exit 2), never a violation."),
}

NA = {
}
ALL = ["C%02d" % i for i in range(1, 21)]

def main():
    checks = []
    for pid in ALL:
        c = CHECKS.get(pid)
        if not c:
            continue
        checks.append(dict(property_id=pid,
            quick_cmd="./vcheck run %s --tier quick" % pid,
            thorough_cmd="./vcheck run %s --tier thorough" % pid,
            evidence_file="/verif/evidence/%s.json" % pid,
            replay_cmd_template="./vcheck replay {path}",
            engine=c["engine"],
            level_claimed=dict(category=c["cat"], text=c["text"], design_ref=c["design"]),
            level_note=c["note"], technique=c["technique"]))
    na = [dict(property_id=p, reason=NA.get(p, "check not built yet in this session (build in progress; see DESIGN.md §9 build order)"))
          for p in ALL if p not in CHECKS]
    hooks_commits = []
    hp = os.path.join(HERE, "hooks_commits.txt")
    if os.path.exists(hp):
        hooks_commits = [l.split()[0] for l in open(hp) if l.strip()]
    m = dict(version=1, setup_cmd="./vcheck setup",
        hooks=dict(guard="verif", enable="go1.26 build -tags verif (harness module /verif/harness, replace => /repo)",
                   baseline_off_cmd=BASE, source_commits=hooks_commits, add_only=True),
        engines=[
          dict(name="e5-oracle", path="spec/fn/E5Codec.tla spec/fn/E5Gen.tla spec/trace/OracleE5.tla harness/e5 harness/cmd/vh",
               serves_properties=["C01", "C02"], kind_free_text="TLA+ reference codec; TLC enumeration; ndjson spec-as-oracle pass"),
          dict(name="hsms-oracle", path="spec/fn/HsmsFrame.tla spec/trace/OracleHsms.tla harness/cmd/vh/c03.go",
               serves_properties=["C03", "C04"], kind_free_text="TLA+ E37 frame reference; ndjson spec-as-oracle pass"),
          dict(name="supervisor-mc", path="spec/impl/Supervisor.tla spec/mc/MC_Supervisor.tla spec/trace/TraceE37.tla harness/cmd/vh/c05.go /repo/hsms/export_verif.go",
               serves_properties=["C05"], kind_free_text="TLC exhaustive + simulation; gated replay on the real supervisor; TLA+ trace acceptor"),
          dict(name="hsmsss-e2e", path="spec/impl/HsmsSS.tla spec/trace/OracleHsmsSS.tla harness/peerkit harness/lab harness/cmd/vh/c08.go",
               serves_properties=["C07", "C08"], kind_free_text="scripted raw HSMS peer over loopback TCP; TLA+ transducer as trace acceptor"),
          dict(name="txn-e2e", path="spec/impl/SendReply.tla spec/prop/Txn.tla spec/trace/OracleTxn.tla harness/cmd/vh/txn.go",
               serves_properties=["C06", "C09", "C20"], kind_free_text="TLC exhaustive model + scripted-peer histories judged by a TLA+ property module"),
          dict(name="recovery-e2e", path="spec/fn/Backoff.tla spec/prop/Recovery.tla spec/trace/OracleRecovery.tla harness/cmd/vh/recov.go",
               serves_properties=["C11"], kind_free_text="fault enumeration at byte offsets against a raw peer; TLA+ property module as acceptor"),
          dict(name="lifecycle", path="spec/impl/Connection.tla spec/mc/MC_Connection*.cfg spec/prop/Lifecycle.tla spec/trace/OracleLifecycle.tla harness/cmd/vh/life.go",
               serves_properties=["C10"], kind_free_text="TLC safety+liveness model; concurrent API histories with leak audit judged by a TLA+ property module"),
          dict(name="linktest", path="spec/impl/LinktestLoop.tla spec/fn/LinktestRules.tla spec/trace/OracleLinktest.tla harness/cmd/vh/c19.go /repo/hsmsss/export_verif.go",
               serves_properties=["C19"], kind_free_text="TLC exhaustive loop model; pure-rule grid; peer personalities"),
        ],
        checks=checks, not_applicable=na,
        notes="All checks rebuild the Go harness from /repo's working tree (-tags verif). Exit 2 = inconclusive (never a violation).")
    json.dump(m, open(os.path.join(HERE, "MANIFEST.json"), "w"), indent=1)
    print("MANIFEST.json: %d checks, %d not_applicable" % (len(checks), len(na)))

if __name__ == "__main__":
    main()
