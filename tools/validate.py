#!/usr/bin/env python3-vt
"""Validate MANIFEST.json and every evidence file against the schemas."""
import json, glob, sys, jsonschema
ok = True
def v(path, schema):
    global ok
    try:
        jsonschema.validate(json.load(open(path)), json.load(open(schema)))
    except Exception as e:
        ok = False
        print("INVALID", path, str(e)[:400])
v("/verif/MANIFEST.json", "/root/.vp/MANIFEST.schema.json")
for p in sorted(glob.glob("/verif/evidence/*.json")):
    v(p, "/root/.vp/EVIDENCE.schema.json")
m = json.load(open("/verif/MANIFEST.json"))
ids = [c["property_id"] for c in m["checks"]] + [n["property_id"] for n in m.get("not_applicable", [])]
assert sorted(ids) == ["C%02d" % i for i in range(1, 21)], ids
print("valid" if ok else "INVALID")
sys.exit(0 if ok else 1)
