"""C05 — connection state follows the SEMI E37 state diagram under every interleaving.

impl/Supervisor.tla models hsms/supervisor.go at the grain of its critical sections (commit CAS /
echo enqueue / dequeue+load / apply / notifier).  TLC explores it exhaustively (all interleavings
within the constants) and checks the observable-level C05 formulas of MC_Supervisor.  Its
behaviours -- random walks of the state graph and every counterexample TLC finds -- are replayed
step by step on the REAL supervisor through the verif-tagged driver (real CAS commits, real step(),
gates at the commit and load seams), and the recorded observations are judged by the property
acceptor TraceE37 (prop level: causes and State()/notifications only)."""
import glob, json, os, subprocess
from . import common, tlaparse
from .common import Inconclusive

# design variant of the model that mirrors the code under /repo
DESIGN = dict(EchoStores="TRUE", SealOnClose="TRUE", LostGuard="TRUE")

CONSTS = {
    "quick":    dict(MaxGen=2, MaxCommits=2, MaxArms=2, MaxDisc=1, MaxStale=0, NotifyCap=1, QCap=6),
    "thorough": dict(MaxGen=2, MaxCommits=3, MaxArms=2, MaxDisc=1, MaxStale=0, NotifyCap=2, QCap=6),
    "sim":      dict(MaxGen=3, MaxCommits=4, MaxArms=3, MaxDisc=2, MaxStale=0, NotifyCap=2, QCap=8),
}
PROPS = [("PROPERTY", "EdgeOK"), ("PROPERTY", "NoEchoStore"), ("PROPERTY", "T7Safe"), ("INVARIANT", "ClosedStays"),
         ("PROPERTY", "SilentAfterClose"), ("PROPERTY", "ChainOK"), ("INVARIANT", "FinalAgrees"), ("INVARIANT", "FinalAgrees0")]


def write_cfg(path, consts, extra_lines, view=True, design=None):
    with open(path, "w") as f:
        f.write("SPECIFICATION Spec\nCONSTANTS\n")
        for k, v in {**consts, **(design or DESIGN)}.items():
            f.write("  %s = %s\n" % (k, v))
        if view:
            f.write("VIEW View\n")
        for l in extra_lines:
            f.write(l + "\n")
        f.write("CHECK_DEADLOCK FALSE\n")


def to_path(states, pid, src, notify_cap):
    steps = []
    for st in states[1:]:
        steps.append(dict(a=st["act"], exp=dict(st="NC" if st["st"] == "X" else st["st"], qlen=len(st["q"]), nlen=len(st["notify"]),
                                                dropped=st["dropped"], lastReacted=st["lastReacted"], closed=st["closed"])))
    return dict(id=pid, src=src, notify_cap=notify_cap, steps=steps)


def run(ctx):
    work = common.stage_spec(os.path.join(ctx.tmp, "spec-sup"))
    consts = CONSTS[ctx.tier]
    # 1. exhaustive model check: state space + every C05 formula on the impl-shaped model
    write_cfg(os.path.join(work, "mc.cfg"), consts, ["INVARIANT TypeOK"])
    base = common.run_tlc(work, "MC_Supervisor", cfg="mc.cfg", workers=12, timeout=1500)
    common.require_ok(base, "MC_Supervisor TypeOK")
    paths = []
    model_findings = {}
    for kind, name in PROPS:
        write_cfg(os.path.join(work, "p.cfg"), consts, ["%s %s" % (kind, name)])
        r = common.run_tlc(work, "MC_Supervisor", cfg="p.cfg", workers=12, timeout=1500)
        if r["ok"]:
            model_findings[name] = "holds"
            continue
        if not (r["invariant"] or r["prop"]):
            raise Inconclusive("MC_Supervisor %s: %s" % (name, r["error"]))
        cex = tlaparse.parse_counterexample(r["out"])
        model_findings[name] = "violated in the model (counterexample of %d steps replayed on the real code)" % (len(cex) - 1)
        paths.append(to_path(cex, len(paths) + 1, "cex:" + name, consts["NotifyCap"]))
    # 2. random walks of the (bigger) model
    nsim = 3000 if ctx.quick else 40000
    simc = CONSTS["sim"] if not ctx.quick else CONSTS["thorough"]
    write_cfg(os.path.join(work, "sim.cfg"), simc, [], view=False)
    simdir = os.path.join(ctx.tmp, "sim")
    os.makedirs(simdir)
    nw = 8
    r = common.run_tlc(work, "MC_Supervisor", cfg="sim.cfg", workers=nw, timeout=900,
                       extra=["-simulate", "file=%s/b,num=%d" % (simdir, max(1, nsim // nw)), "-depth", "60", "-seed", str(ctx.seed)])
    if r["rc"] != 0 and "Simulation using seed" not in r["out"]:
        raise Inconclusive("simulation failed: " + r["out"][-1500:])
    for f in sorted(glob.glob(simdir + "/b_*")):
        sts = tlaparse.parse_sim_file(f)
        if len(sts) > 1:
            paths.append(to_path(sts, len(paths) + 1, "sim", simc["NotifyCap"]))
    pfile = os.path.join(ctx.tmp, "c05_paths.ndjson")
    with open(pfile, "w") as f:
        for p in paths:
            f.write(json.dumps(p) + "\n")
    # 3. replay on the real supervisor
    obs = os.path.join(ctx.tmp, "c05_obs.ndjson")
    pr = ctx.run_vh(["c05", "--paths", pfile, "--out", obs], timeout=1800)
    stats = json.loads(pr.stdout.strip().splitlines()[-1])
    # 4. judge by the property acceptor
    res = common.oracle_pass(ctx, obs, "TraceE37", nchunks=12, timeout=2400, boundary=lambda ln: '"i":1,' in ln)
    pairs, drift_samples = set(), []
    with open(obs) as f:
        for line in f:
            d = json.loads(line)
            if d["post"] != d["pre"] or d["a"] in ("SupFinish", "NotifierTake"):
                pairs.add((d["a"], d["ev"], d["pre"], d["post"], d["n_prev"], d["n_next"]))
            if d["drift"] and len(drift_samples) < 3:
                drift_samples.append(common.short(d, 300))
    groups = {}
    for (ln, text, clause) in res["rejections"]:
        d = json.loads(text) if text.startswith("{") else {}
        sig = "c05:%s:%s:%s:%s->%s" % (clause, d.get("a"), d.get("ev") or "-", d.get("pre"), d.get("post"))
        g = groups.setdefault(sig, dict(n=0, first=d, clause=clause))
        g["n"] += 1
    for sig, g in sorted(groups.items()):
        d = g["first"]
        path = next((p for p in paths if p["id"] == d.get("path")), None)
        ctx.violation("real supervisor step rejected by the E37State acceptor, clause %s (%s), %d occurrence(s); first in path %s (%s)"
                      % (g["clause"], sig, g["n"], d.get("path"), d.get("src")),
                      dict(binding="B1 replay + B3 acceptor", signature=sig, clause=g["clause"], occurrences=g["n"], observation=d,
                           schedule=[s["a"] for s in path["steps"]] if path else None))
    # 5. the model's environment assumption "no stale disconnect reaches the supervisor" (MaxStale = 0), observed end to end
    sobs = os.path.join(ctx.tmp, "stale.ndjson")
    ctx.run_vh(["stale", "--out", sobs, "--reps", 2 if ctx.quick else 8], timeout=900)
    sres = common.oracle_pass(ctx, sobs, "OracleStale", nchunks=1, timeout=600)
    sfaults = 0
    for (ln, text, why) in sres["rejections"]:
        d = json.loads(text)
        if why == "HarnessFault":
            sfaults += 1
            continue
        sig = "c05:stale:%s:%s" % (why, d["role"])
        ctx.violation("something of the previous generation (abandoned receive goroutine / blocked writer / T7 dwell timer) disturbed its successor (%s): %s" % (sig, common.short(d, 500)),
                      dict(binding="B2 gated e2e (blocked handler across a bounded teardown)", signature=sig, observation=d))
    if sfaults > sres["lines"] // 2:
        raise common.Inconclusive("stale-generation scenarios could not be set up (%d of %d)" % (sfaults, sres["lines"]))
    ctx.cov["stale_generation_scenarios"] = sres["lines"] - sfaults
    ctx.cov.update(states=base["distinct"], transitions=base["generated"], traces_validated_against_impl=len(paths),
                   model_constants=consts, simulation_constants=simc, design_variant=DESIGN,
                   model_properties=model_findings,
                   replayed_steps=stats["steps"], model_drift_steps=stats["drift_steps"], drift_samples=drift_samples,
                   evaluations=stats["steps"], distinct_nontrivial=len(pairs),
                   rule="one evaluation = one critical section of the real supervisor executed under a TLC-chosen schedule; "
                        "distinct non-trivial = distinct (action, event, State() before, after, notification) tuples in which "
                        "State() moved, an event was applied or a notification was delivered",
                   samples=[p for p in paths[:2]] + [dict(id=p["id"], src=p["src"], actions=[s["a"] for s in p["steps"]]) for p in paths[-2:]],
                   exhaustive=False, checker_cmd="tlc MC_Supervisor (exhaustive + -simulate); vh c05; tlc TraceE37")
    ctx.assumptions += ["environment of impl/Supervisor.tla: one commit in flight at a time, a generation's TCP-up only after the "
                        "previous generation's events drained, stale disconnects filtered by the transports (MaxStale=0), a T7 timer "
                        "armed for generation N never fires into generation N+1 -- the last two are observed end to end (vh stale: "
                        "blocked handler across a bounded teardown; generation N ended just before its T7, successor must get its full dwell)",
                        "interleavings inside a critical section (between two hooks/gates) are not explored"]


def selftest(ctx):
    """Flip one recorded State() and one notification; the acceptor must reject exactly those traces."""
    work = common.stage_spec(os.path.join(ctx.tmp, "spec-sup"))
    # the model discriminates: without the repair of finding F1 (LostGuard) NoEchoStore has a counterexample, with it none
    write_cfg(os.path.join(work, "asfound.cfg"), CONSTS["quick"], ["PROPERTY NoEchoStore"], design=dict(DESIGN, LostGuard="FALSE"))
    r = common.run_tlc(work, "MC_Supervisor", cfg="asfound.cfg", workers=8, timeout=900)
    common.log("as-found variant (LostGuard = FALSE): NoEchoStore", "violated" if r["prop"] else "NOT violated")
    if not r["prop"]:
        return False
    write_cfg(os.path.join(work, "sim.cfg"), CONSTS["quick"], [], view=False)
    simdir = os.path.join(ctx.tmp, "sim"); os.makedirs(simdir)
    common.run_tlc(work, "MC_Supervisor", cfg="sim.cfg", workers=1, timeout=300,
                   extra=["-simulate", "file=%s/b,num=300" % simdir, "-depth", "40", "-seed", "11"])
    paths = []
    for f in sorted(glob.glob(simdir + "/b_*")):
        sts = tlaparse.parse_sim_file(f)
        if len(sts) > 1:
            paths.append(to_path(sts, len(paths) + 1, "sim", 1))
    pfile = os.path.join(ctx.tmp, "p.ndjson")
    open(pfile, "w").write("".join(json.dumps(p) + "\n" for p in paths))
    obs = os.path.join(ctx.tmp, "o.ndjson")
    ctx.run_vh(["c05", "--paths", pfile, "--out", obs])
    res0 = common.oracle_pass(ctx, obs, "TraceE37", nchunks=1, boundary=lambda ln: '"i":1,' in ln)
    base = set(r[0] for r in res0["rejections"])
    lines = open(obs).read().splitlines()
    i1 = next(i for i, l in enumerate(lines) if i > 50 and i + 1 not in base and json.loads(l)["a"] == "CommitBeginSel" and json.loads(l)["cas_ok"])
    d = json.loads(lines[i1]); d["post"] = "NS"; lines[i1] = json.dumps(d, separators=(",", ":"))
    i2 = next(i for i, l in enumerate(lines) if i > i1 + 200 and json.loads(l)["a"] == "NotifierTake" and json.loads(l)["n_ok"])
    d = json.loads(lines[i2]); d["n_next"] = d["n_prev"]; lines[i2] = json.dumps(d, separators=(",", ":"))
    open(obs, "w").write("\n".join(lines) + "\n")
    res = common.oracle_pass(ctx, obs, "TraceE37", nchunks=1, boundary=lambda ln: '"i":1,' in ln)
    got = set(r[0] for r in res["rejections"]) - base
    common.log("new rejections:", sorted(got), "expected", [i1 + 1, i2 + 1])
    return (i1 + 1) in got and (i2 + 1) in got
