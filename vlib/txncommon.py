"""Shared by C06 / C09 / C20: run the concurrent send/reply scenario driver (vh txn) against a live
connection and a scripted raw peer, judge every recorded history with prop/Txn (OracleTxn), and
report only the clause family that belongs to the calling property."""
import json, os
from . import common

FAMILY = {"C06": "Txn", "C09": "Gen", "C20": "Met"}


def run(ctx, n, kinds, par=4, passes=1, edge_n=0):
    pid = ctx.pid
    fam = FAMILY[pid]
    allobs = os.path.join(ctx.tmp, "txn_all.ndjson")
    faults = 0
    with open(allobs, "w") as out:
        for k in range(passes):
            obs = os.path.join(ctx.tmp, "txn_%d.ndjson" % k)
            trf = os.path.join(ctx.tmp, "txntr_%d.ndjson" % k)
            p = ctx.run_vh(["txn", "--n", n, "--seed", ctx.seed * 10 + k, "--kinds", kinds, "--par", par, "--out", obs, "--traces", trf], timeout=3000)
            if os.path.exists(trf):
                with open(os.path.join(ctx.tmp, "txntr_all.ndjson"), "a") as tf:
                    tf.write(open(trf).read())
            faults += json.loads(p.stdout.strip().splitlines()[-1])["faults"]
            out.write(open(obs).read())
    if edge_n:
        # replies timed to land on the T3 expiry: a reply that races the end of the wait must not be lost (finding F11);
        # the race shows in ~9 % of such scenarios when the defect is present, so many of them are played
        obs = os.path.join(ctx.tmp, "txn_edge.ndjson")
        trf = os.path.join(ctx.tmp, "txntr_edge.ndjson")
        p = ctx.run_vh(["txn", "--n", edge_n, "--seed", ctx.seed * 10 + 7, "--kinds", "edge", "--par", 8, "--out", obs, "--traces", trf], timeout=3000)
        faults += json.loads(p.stdout.strip().splitlines()[-1])["faults"]
        with open(allobs, "a") as out:
            out.write(open(obs).read())
        if os.path.exists(trf):
            with open(os.path.join(ctx.tmp, "txntr_all.ndjson"), "a") as tf:
                tf.write(open(trf).read())
    # design level: exhaustive model check of the implementation-shaped send/reply/registry model
    work = common.stage_spec(os.path.join(ctx.tmp, "spec-sendreply"))
    mc = common.run_tlc(work, "SendReply", cfg="MC_SendReply.cfg", workers=10, timeout=1200)
    common.require_ok(mc, "MC SendReply (repaired variant, all invariants)")
    found = common.run_tlc(work, "SendReply", cfg="MC_SendReply_found.cfg", workers=4, timeout=600)
    found2 = common.run_tlc(work, "SendReply", cfg="MC_SendReply_found2.cfg", workers=4, timeout=600)
    res = common.oracle_pass(ctx, allobs, "OracleTxn", nchunks=8, timeout=2400)
    lines = open(allobs).read().splitlines()
    if faults > max(2, len(lines) // 20):
        raise common.Inconclusive("too many harness faults in txn scenarios: %d of %d" % (faults, len(lines)))
    ncalls, outcomes, scripts, kindsc, samples, noisy = 0, {}, {}, {}, [], 0
    distinct = set()
    for i, line in enumerate(lines):
        d = json.loads(line)
        kindsc[d["kind"]] = kindsc.get(d["kind"], 0) + 1
        if d["max_jitter_ms"] > 40:
            noisy += 1
        for c in d["calls"]:
            ncalls += 1
            key = (d["kind"], c["script"], c["nested"], c["outcome"])
            distinct.add(key)
            outcomes[c["outcome"]] = outcomes.get(c["outcome"], 0) + 1
            scripts[c["script"]] = scripts.get(c["script"], 0) + 1
        if i % max(1, len(lines) // 3) == 1 and len(samples) < 3:
            samples.append(common.short(d, 900))
    groups = {}
    for (ln, text, why) in res["rejections"]:
        d = json.loads(text)
        clauses = [c for c in (why or "").split("_") if c.startswith(fam) or c == "Fault"]
        for cl in clauses:
            if cl == "Fault":
                continue
            sig = "%s:%s:%s" % (pid.lower(), cl, d["kind"])
            g = groups.setdefault(sig, dict(n=0, first=d, clause=cl))
            g["n"] += 1
    for sig, g in sorted(groups.items()):
        d = g["first"]
        ctx.violation("recorded send/reply history rejected by prop/Txn clause %s (%s), %d scenario(s)" % (g["clause"], sig, g["n"]),
                      dict(binding="B2 scripted peer + acceptor", signature=sig, clause=g["clause"], occurrences=g["n"],
                           scenario=json.loads(common.short(json.dumps(d), 100000)) if len(json.dumps(d)) < 100000 else None))
    # model-level binding (C06 and C09; C20 judges the same recordings by its metric clauses only): every scenario's peer-side
    # event log, incl. the end of generation 1 and the selection of generation 2, is validated as a behaviour of
    # impl/SendReply with the library's steps inferred
    ntr, trej, tstates = 0, [], 0
    if pid in ("C06", "C09"):
        ntr, trej, tstates = validate_traces(ctx, os.path.join(ctx.tmp, "txntr_all.ndjson"))
        tg = {}
        for tr, hw in trej:
            nxt = tr["events"][hw] if hw < len(tr["events"]) else None
            sig = "%s:trace:%s:%s" % (pid.lower(), tr["kind"], ("%s-%s" % (nxt["d"], nxt["k"])) if nxt else "final")
            g = tg.setdefault(sig, dict(n=0, first=dict(trace=tr, matched_prefix=hw, next_event=nxt or "(end: outcomes / deliveries do not match any behaviour)")))
            g["n"] += 1
        for sig, g in sorted(tg.items()):
            ctx.violation("peer-side event log is not a behaviour of impl/SendReply (%s), %d scenario(s): %s" % (sig, g["n"], common.short(g["first"], 600)),
                          dict(binding="B3 trace validation (TraceSendReply)", signature=sig, occurrences=g["n"], observation=g["first"]))
    ctx.cov["model_level_traces"] = ntr
    ctx.cov.update(states=mc["distinct"] + res["states"] + tstates, transitions=mc["generated"] + res["transitions"], traces_validated_against_impl=len(lines),
                   model=dict(module="impl/SendReply.tla", cfg="MC_SendReply.cfg (2 senders, 2 epochs, 3 system-bytes values, 3 peer messages)",
                              distinct_states=mc["distinct"], generated=mc["generated"], depth=mc["depth"],
                              invariants="NeverNilNil OwnReply InflightConserves SendMatchesWire NoStaleFrame UniqueSb RegistryClean NoReplyLost NoDataWhenNotSelected",
                              as_found_variant2="NoReplyLost %s with DropsLateReply=TRUE (finding F11, fixed)" % ("violated" if found2["invariant"] else "not violated"),
                              as_found_variant="NeverNilNil %s with CtlCompletesData=TRUE (finding F7, fixed)" % ("violated" if found["invariant"] else "not violated")),
                   evaluations=ncalls, distinct_nontrivial=len(distinct),
                   rule="one trace = one scenario (1..8 concurrent SendDataMessage(W) calls + handler-nested send, scripted peer behaviour "
                        "per call, optional cancel / peer drop / reset / Close / stalled writer, optional second generation with stale "
                        "replies); one evaluation = one call; distinct = distinct (scenario kind, peer script, nested?, outcome)",
                   scenario_kinds=kindsc, scripts=scripts, outcomes=outcomes, harness_faults=faults, noisy_scenarios=noisy,
                   exhaustive=False, samples=samples, checker_cmd="vh txn; tlc OracleTxn (prop/Txn clauses %s*)" % fam)
    ctx.assumptions += ["T3 = 250 ms; timing clauses carry a slack of 8 ms + the measured scheduler jitter of the scenario",
                        "peer receive time stands in for 'written' time (it is never earlier than the write)",
                        "handlers return; loopback TCP"]
    return res


def validate_traces(ctx, path, mutate=None):
    """One TLC run (depth-first) of trace/TraceSendReply per recorded txntrace line. Returns (n, rejected[(trace, highwater)], states)."""
    import re
    from concurrent.futures import ThreadPoolExecutor
    if not os.path.exists(path):
        return 0, [], 0
    traces = [json.loads(l) for l in open(path) if l.strip()]
    if mutate:
        traces = mutate(traces)
    work = common.stage_spec(os.path.join(ctx.tmp, "spec-trace-sr"))

    def one(it):
        i, tr = it
        f = os.path.join(ctx.tmp, "srtr_%d.ndjson" % i)
        with open(f, "w") as fh:
            fh.write(json.dumps(tr) + "\n")
        try:
            r = common.run_tlc(work, "TraceSendReply", cfg="TraceSendReply.cfg", workers=1, env={"VERIF_IN": f}, timeout=240, xss="64m", deque=True,
                               heap="1g -XX:ActiveProcessorCount=2 -XX:TieredStopAtLevel=1")
        except common.Inconclusive:
            return (tr, "undecided", 0)      # the search did not finish in time: neither accepted nor rejected
        finally:
            if os.path.exists(f):
                os.unlink(f)
        if r["invariant"] == "NotAccepted":
            return (tr, None, r["distinct"])
        if not r["ok"]:
            raise common.Inconclusive("TraceSendReply failed on a trace: %s\n%s" % (r["error"], r["out"][-2000:]))
        hw = [int(m.group(1)) for m in re.finditer(r'<<"HW", (\d+), \d+>>', r["out"])]
        return (tr, max(hw) if hw else 0, r["distinct"])

    with ThreadPoolExecutor(max_workers=12) as ex:
        results = list(ex.map(one, enumerate(traces)))
    undecided = sum(1 for (_, hw, _) in results if hw == "undecided")
    if undecided > max(2, len(traces) // 10):
        raise common.Inconclusive("trace validation did not finish in time for %d of %d traces" % (undecided, len(traces)))
    return len(traces) - undecided, [(tr, hw) for (tr, hw, _) in results if hw is not None and hw != "undecided"], sum(s for (_, _, s) in results)


def selftest_traces(ctx):
    """binding demonstration for the model-level trace validation: corrupt outcomes / deliveries / system bytes"""
    obs = os.path.join(ctx.tmp, "st.ndjson"); trf = os.path.join(ctx.tmp, "st_tr.ndjson")
    ctx.run_vh(["txn", "--n", 24, "--seed", 7, "--kinds", "plain,cancel", "--par", 3, "--out", obs, "--traces", trf], timeout=600)
    n0, rej0, _ = validate_traces(ctx, trf)

    def mutate(traces):
        out = []
        for k, tr in enumerate(traces):
            tr = json.loads(json.dumps(tr))
            if k % 3 == 0:        # a reply reported although the peer never answered that call
                i = next((i for i, o in enumerate(tr["outcomes"]) if o == "t3"), None)
                if i is None:
                    continue
                tr["outcomes"][i] = "reply"
            elif k % 3 == 1:      # one delivery to the handlers too many
                tr["delivered"] = tr["delivered"] + [tr["call_sbi"][0]]
            else:                 # the peer's answer carries another call's system bytes, same recorded outcomes
                txs = [e for e in tr["events"] if e["d"] == "tx" and e["k"] == "secondary" and e["sbi"] in tr["call_sbi"]]
                others = [b for b in tr["call_sbi"] if txs and b != txs[0]["sbi"] and tr["outcomes"][tr["call_sbi"].index(b)] == "t3"]
                if not txs or not others:
                    continue
                txs[0]["sbi"] = others[0]
            out.append(tr)
        return out
    n1, rej1, _ = validate_traces(ctx, trf, mutate=mutate)
    common.log("model-level traces: unmutated %d (%d rejected); mutated %d (%d rejected)" % (n0, len(rej0), n1, len(rej1)))
    return n0 > 5 and not rej0 and n1 > 3 and len(rej1) == n1


def selftest(ctx, mutate):
    obs = os.path.join(ctx.tmp, "txn.ndjson")
    ctx.run_vh(["txn", "--n", 12, "--seed", 5, "--kinds", "plain,drop,gen", "--par", 3, "--out", obs], timeout=600)
    res0 = common.oracle_pass(ctx, obs, "OracleTxn", nchunks=1)
    base = set(r[0] for r in res0["rejections"])
    lines = open(obs).read().splitlines()
    want = mutate(lines, base)
    open(obs, "w").write("\n".join(lines) + "\n")
    res = common.oracle_pass(ctx, obs, "OracleTxn", nchunks=1)
    got = {r[0]: r[2] for r in res["rejections"] if r[0] not in base}
    common.log("new rejections:", got, "expected line", want)
    return want[0] in got and want[1] in got[want[0]]
