"""C02 — the SECS-II decoder is total, memory-bounded and faithful on arbitrary bytes.

The real Decode/DecodeOwned are run on (a) ALL byte strings up to length 4 (quick) / 5
(thorough) over a 14-symbol grammar alphabet, (b) truncations, substitutions, length-field
rewrites and non-canonical re-encodings of valid items, depth chains 62..66, random strings.
Every recorded outcome is judged by TLC against E5Codec!Decode (accept/reject, value,
consumed prefix re-encoding, DecodeOwned agreement, allocation bound)."""
import json, os
from . import common


def record(ctx, alpha_len, nrand, obs):
    ctx.run_vh(["c02", "--alpha-len", alpha_len, "--rand", nrand, "--seed", ctx.seed, "--out", obs], timeout=3000)


def run(ctx):
    obs = os.path.join(ctx.tmp, "c02_obs.ndjson")
    alpha_len = 4 if ctx.quick else 5
    record(ctx, alpha_len, 150 if ctx.quick else 1500, obs)
    res = common.oracle_pass(ctx, obs, "OracleE5", nchunks=14, timeout=3000)
    distinct, nontrivial, classes, samples = set(), 0, {}, []
    with open(obs) as f:
        for i, line in enumerate(f):
            d = json.loads(line)
            key = bytes(d["in"])
            if key in distinct:
                continue
            distinct.add(key)
            cls = d["src"] + (":ok" if d["ok"] else ":err")
            classes[cls] = classes.get(cls, 0) + 1
            if len(d["in"]) >= 2:
                nontrivial += 1
            if i % max(1, res["lines"] // 5) == 1 and len(samples) < 6:
                samples.append(common.short(d, 400))
    for (ln, text, inv) in res["rejections"]:
        d = json.loads(text) if text.startswith("{") else {}
        ctx.violation("real decoder outcome rejected by E5Codec!Decode at observation %d: %s" % (ln, common.short(text, 300)),
                      dict(binding="B4 oracle", observation_line=ln, observation=d,
                           signature="c02:%s:%s" % (d.get("src"), bytes(d.get("in", []))[:12].hex())))
    n_alpha = sum(14 ** k for k in range(alpha_len + 1))
    ctx.cov.update(states=res["states"], transitions=res["transitions"], traces_validated_against_impl=res["lines"],
                   evaluations=res["lines"], distinct_nontrivial=nontrivial,
                   rule="one observation = one input byte string decoded by the real Decode and DecodeOwned; distinct = distinct "
                        "input strings; non-trivial = length >= 2 (a format byte and at least one length byte)",
                   exhaustive_part="all %d strings of length <= %d over the alphabet 00 01 02 03 04 FF 41 69 91 25 49 FD 21 A1" % (n_alpha, alpha_len),
                   classes=classes, exhaustive=False, samples=samples,
                   checker_cmd="vh c02; tlc OracleE5 (JudgeC02 on every line)")
    ctx.assumptions += ["SEMI E5 grammar as transcribed in spec/fn/E5Codec.tla!Dec",
                        "allocation measured with runtime/metrics /gc/heap/allocs:bytes around DecodeOwned, bound 64*len+256KiB",
                        "empty input returns an EmptyItem by documented contract and is judged as 'no item'"]


def selftest(ctx):
    obs = os.path.join(ctx.tmp, "c02_obs.ndjson")
    record(ctx, 2, 5, obs)
    lines = open(obs).read().splitlines()
    idx = [i for i, l in enumerate(lines) if json.loads(l)["ok"]][3]
    d = json.loads(lines[idx]); d["ok"] = False; lines[idx] = json.dumps(d)
    idx2 = [i for i, l in enumerate(lines) if not json.loads(l)["ok"] and i > idx][5]
    d = json.loads(lines[idx2]); d["alloc"] = 10 ** 8; lines[idx2] = json.dumps(d)
    open(obs, "w").write("\n".join(lines) + "\n")
    res = common.oracle_pass(ctx, obs, "OracleE5", nchunks=1)
    got = sorted(r[0] for r in res["rejections"])
    common.log("rejected lines:", got, "expected", [idx + 1, idx2 + 1])
    return got == [idx + 1, idx2 + 1]
