"""C01 — SECS-II items encode to exact SEMI E5 bytes and decode back to an equal item.

spec/fn/E5Codec.tla is the reference encoder/decoder. TLC (E5GenOut) enumerates the
boundary-rich item space and checks the transcription against itself; the Go harness
realises every case through every constructor shape on the REAL secs2 package (plus
seeded random trees TLC could not enumerate) and records what the real code did; TLC
(OracleE5) then judges every recorded line against the reference."""
import json, os
from . import common, e5common


def run(ctx):
    gen = e5common.generate_cases(ctx)
    nrand = 3000 if ctx.quick else 60000
    obs = os.path.join(ctx.tmp, "c01_obs.ndjson")
    ctx.run_vh(["c01", "--cases", os.path.join(ctx.tmp, "e5_cases.ndjson"), "--rl", os.path.join(ctx.tmp, "e5_rl.ndjson"),
                "--rand", nrand, "--seed", ctx.seed, "--out", obs], timeout=1800)
    res = common.oracle_pass(ctx, obs, "OracleE5", nchunks=12, timeout=2400)
    distinct = set()
    kinds = {}
    samples = []
    with open(obs) as f:
        for i, line in enumerate(f):
            d = json.loads(line)
            key = json.dumps(d.get("item", d.get("rl")), sort_keys=True)
            distinct.add(key)
            k = d.get("item", d.get("rl"))["k"]
            kinds[k] = kinds.get(k, 0) + 1
            if i % max(1, res["lines"] // 4) == 0 and len(samples) < 5:
                samples.append(common.short(d, 500))
    for (ln, text, inv) in res["rejections"]:
        d = json.loads(text) if text.startswith("{") else {}
        ctx.violation("real secs2 output rejected by E5Codec reference at observation %d: %s" % (ln, common.short(text, 300)),
                      dict(binding="B4 oracle", observation_line=ln, observation=d,
                           signature="c01:%s:%s" % (d.get("t"), json.dumps(d.get("item", d.get("rl")), sort_keys=True)[:80])))
    ctx.cov.update(states=gen["distinct"] + res["states"], transitions=gen["generated"] + res["transitions"],
                   traces_validated_against_impl=res["lines"],
                   evaluations=res["lines"], distinct_nontrivial=len(distinct),
                   rule="one observation = one abstract item realised on the real secs2 package through all applicable constructor "
                        "shapes (grouped by identical bytes); distinct = distinct abstract items; non-trivial = every item (each has "
                        "a header and is judged on bytes, length, append, determinism, decode-back, Equal)",
                   enumerated_cases=gen["distinct"], random_trees=nrand, per_kind=kinds, exhaustive=False,
                   samples=samples,
                   checker_cmd="tlc E5GenOut (enumeration + transcription self-check); vh c01; tlc OracleE5 (judge every line)")
    ctx.assumptions += ["SEMI E5 as transcribed in spec/fn/E5Codec.tla", "NaN elements match any NaN bit pattern",
                        "lists holding an EmptyItem child are outside E5 (observation O1) and not generated"]


def selftest(ctx):
    """Corrupt one recorded byte / one recorded flag and show the oracle rejects exactly that line."""
    e5common.generate_cases(ctx)
    obs = os.path.join(ctx.tmp, "c01_obs.ndjson")
    ctx.run_vh(["c01", "--cases", os.path.join(ctx.tmp, "e5_cases.ndjson"), "--rand", 50, "--seed", 7, "--out", obs])
    lines = open(obs).read().splitlines()
    d = json.loads(lines[300]); d["bytes"][-1] ^= 1; lines[300] = json.dumps(d)
    d = json.loads(lines[600]); d["enclen"] += 1; lines[600] = json.dumps(d)
    open(obs, "w").write("\n".join(lines) + "\n")
    res = common.oracle_pass(ctx, obs, "OracleE5", nchunks=1)
    got = sorted(r[0] for r in res["rejections"])
    common.log("rejected lines:", got)
    return got == [301, 601]
