"""C07 — data messages flow only while Selected; pipelined data after select is accepted.

Send half: every data-sending entry point (8) x every way of being not Selected (never opened, connecting,
connected-not-selected, deselected, between generations, closed, deselected while the writer is parked
under the write lock via the verif gate `write.locked`) x both roles against a raw peer; prop/Gate.tla
judges error class, zero bytes at the peer, exactly one drop, control traffic unaffected.
Receive half: data while not Selected -> Reject(4) and pipelining (Select.req / Select.rsp + 1..3 data
frames in one burst cut at EVERY byte offset) are judged by the impl/HsmsSS transducer (as C08)."""
import json, os
from . import common, c08


def run(ctx):
    obs = os.path.join(ctx.tmp, "c07_obs.ndjson")
    ctx.run_vh(["c07", "--out", obs], timeout=600)
    res = common.oracle_pass(ctx, obs, "OracleGate", nchunks=1, timeout=600)
    conds, samples = {}, []
    lines = open(obs).read().splitlines()
    for i, line in enumerate(lines):
        d = json.loads(line)
        key = d["cond"] if d["t"] == "c07" else "gated-pipelining:" + d["variant"]
        conds[key] = conds.get(key, 0) + 1
        if i % 29 == 0 and len(samples) < 4:
            samples.append(d)
    gated_unproduced = 0
    for (ln, text, why) in res["rejections"]:
        d = json.loads(text)
        if d["t"] == "c07p":
            if d["fault"] or not (d["supervisor_parked"] and d["commit_in_window"]):
                gated_unproduced += 1      # the interleaving could not be produced: nothing was observed
                continue
            sig = "c07:gated-pipelining:%s:rejects%d:delivered%d" % (d["variant"], d["rejects"], d["delivered"])
            ctx.violation("data pipelined behind Select.req was not delivered when the commit landed inside a supervisor step (%s): %s" % (sig, common.short(d, 400)),
                          dict(binding="B2 gated (sup.step.loaded / sup.commit.cas) + prop/Gate", signature=sig, observation=d))
            continue
        sig = "c07:%s:%s:%s:%s:drop%+d:peer%d" % (d["role"], d["cond"], d["op"], d["err"][:20], d["drop_delta"], d["peer_data"])
        ctx.violation("send gate violated: %s" % sig, dict(binding="B2 + prop/Gate", signature=sig, observation=d))
    if gated_unproduced > 3:
        raise common.Inconclusive("the gated pipelining interleaving could not be produced in %d scenarios" % gated_unproduced)
    # receive half + pipelining through the HsmsSS transducer
    obs2 = os.path.join(ctx.tmp, "c07_pipe.ndjson")
    p = ctx.run_vh(["c08", "--pipeline", "--seed", ctx.seed, "--out", obs2, "--workers", 6], timeout=1500)
    stats = json.loads(p.stdout.strip().splitlines()[-1])
    if stats["faults"] > 3:
        raise common.Inconclusive("too many harness faults in the pipelining run: %s" % stats)
    res2, distinct, classes, samples2 = c08.judge(ctx, obs2, stats, prop="C07")
    # the send-side consequence of finding F1 (fixed by cbc5287), provoked with gates: after an accepted deselection no data send may pass
    for line in open(obs2):
        if '"f1gated"' in line:
            d = json.loads(line)
            sa = d.get("send_after_deselect")
            if sa and (sa["peer_data"] > 0 or sa["err"] == "nil"):
                ctx.violation("a data send after an accepted Deselect reached the peer (State() stuck Selected): %s" % common.short(sa, 200),
                              dict(binding="B2 gated (sup.step.loaded / sup.commit.cas)", signature="c07:StuckSelectedAfterDeselect", observation=d))
    ctx.cov.update(states=res["states"] + res2["states"], transitions=res["transitions"] + res2["transitions"],
                   traces_validated_against_impl=res["lines"] + res2["lines"],
                   evaluations=res["lines"] + res2["lines"], distinct_nontrivial=len(lines) + len(distinct),
                   rule="send half: one evaluation = one (role, condition, entry point) probe against a live connection; "
                        "receive half: one evaluation = one burst (select + k data frames) cut at one byte offset; all are distinct and non-trivial",
                   conditions=conds, pipelining_scenarios=res2["lines"], pipelining_classes=classes,
                   exhaustive=True, samples=samples + samples2[:2],
                   checker_cmd="vh c07; tlc OracleGate; vh c08 --pipeline; tlc OracleHsmsSS")
    ctx.assumptions += ["conditions are reached through the public API and a raw peer; the writer-parked condition uses the verif gate write.locked",
                        "never-opened: the drop counter may or may not move (the property only fixes the error)"]


def selftest(ctx):
    obs = os.path.join(ctx.tmp, "c07_obs.ndjson")
    ctx.run_vh(["c07", "--out", obs], timeout=600)
    lines = open(obs).read().splitlines()
    i1 = next(i for i, l in enumerate(lines) if json.loads(l).get("cond") == "deselected")
    d = json.loads(lines[i1]); d["drop_delta"] = 2; lines[i1] = json.dumps(d)
    i2 = next(i for i, l in enumerate(lines) if json.loads(l).get("cond") == "closed")
    d = json.loads(lines[i2]); d["err"] = "closed"; lines[i2] = json.dumps(d)
    i3 = next(i for i, l in enumerate(lines) if '"c07p"' in l)
    d = json.loads(lines[i3]); d["rejects"], d["delivered"] = 1, 1; lines[i3] = json.dumps(d)
    open(obs, "w").write("\n".join(lines) + "\n")
    res = common.oracle_pass(ctx, obs, "OracleGate", nchunks=1)
    got = sorted(r[0] for r in res["rejections"])
    common.log("rejected:", got, "expected", [i1 + 1, i2 + 1, i3 + 1])
    return got == sorted([i1 + 1, i2 + 1, i3 + 1])
