"""C17 — SECS-I sends well-formed SEMI E4 blocks and delivers only complete messages.

fn/E4Block.tla transcribes the E4 block format and message splitting; impl/Secs1Assembler.tla the inbound
assembly rules (device, direction, T4, duplicate, sequence, restart) as a fold over the block history, including
which S9Fx notice the equipment role owes.  mc/MC_Assembler checks the fold against a declarative reading of the
property (every delivered message is one complete, in-order, correctly addressed, within-T4 run; nothing is used
twice; duplicates / foreign blocks are transparent; clean histories deliver everything) over EVERY history of up
to 3 (quick) / 4 (thorough) blocks of a 72-letter alphabet.  Binding (B2 + B4): an independent E4 peer, sharing
no code with secs1, talks to a live secs1 connection over loopback TCP in both roles; what the library put on the
line for messages around the 244-byte block boundaries must equal Split(...) of the model byte for byte, and for
random inbound block-class sequences over {valid, duplicate, skip, wrong field, wrong device, wrong direction, bad
checksum, bad length, block 0, new message, T4 gap} the handler deliveries, ACK/NAK answers, S9 notices and link
state must be what Assemble(...) gives."""
import json, os
from . import common, s1common


def run(ctx):
    work = common.stage_spec(os.path.join(ctx.tmp, "spec-asm"))
    mc = common.run_tlc(work, "MC_Assembler", cfg="MC_Assembler_quick.cfg" if ctx.quick else "MC_Assembler.cfg", workers=14, timeout=3000)
    common.require_ok(mc, "MC_Assembler")
    # the line engine as a producer of the async queue it is the consumer of (violation notices): no wedge, everything goes out
    nt = common.run_tlc(work, "Secs1Notify", cfg="MC_Secs1Notify.cfg", workers=4, timeout=900)
    common.require_ok(nt, "MC_Secs1Notify (repaired notify path)")
    ntf = common.run_tlc(work, "Secs1Notify", cfg="MC_Secs1Notify_found.cfg", workers=2, timeout=900)
    allobs = s1common.record(ctx, "send,recv,wedge", passes=1 if ctx.quick else 4,
                             nrecv=60 if ctx.quick else 120, full=not ctx.quick)
    lines, rejs, res = s1common.judge(ctx, allobs, ("e4send", "e4recv", "e4wedge"))
    faults = [d for d in lines if d.get("fault")]
    if len(faults) > max(2, len(lines) // 20):
        raise common.Inconclusive("too many harness faults in SECS-I scenarios: %d of %d (%s)" % (len(faults), len(lines), faults[0]["fault"]))
    groups = {}
    for d, why in rejs:
        if why in ("HarnessFault",) or (why == "SendFailed" and d.get("fault")):
            continue
        key = "c17:%s:%s" % (d["t"], why)
        if d["t"] == "e4send":
            key += ":len%d" % len(d["body"])
        if d["t"] == "e4wedge":
            key += ":" + d["violation"]
        g = groups.setdefault(key, dict(n=0, first=d))
        g["n"] += 1
    for sig, g in sorted(groups.items()):
        d = g["first"]
        brief = dict(d)
        if d["t"] == "e4recv":
            brief["classes"] = "".join(s["cls"] for s in d["sent"])
        ctx.violation("SECS-I observation rejected by OracleE4 (%s), %d scenario(s): %s" % (sig, g["n"], common.short(brief, 300)),
                      dict(binding="B2 E4 reference peer + B4 oracle", signature=sig, occurrences=g["n"], observation=d))
    nsend = sum(1 for d in lines if d["t"] == "e4send")
    nrecv = sum(1 for d in lines if d["t"] == "e4recv")
    classes = {}
    nblocks = 0
    seqs = set()
    for d in lines:
        if d["t"] == "e4recv":
            seqs.add("".join(s["cls"] for s in d["sent"]))
            for s in d["sent"]:
                classes[s["cls"]] = classes.get(s["cls"], 0) + 1
                nblocks += 1
    ctx.cov.update(states=mc["distinct"] + res["states"], transitions=mc["generated"], traces_validated_against_impl=nrecv + nsend,
                   model=dict(module="mc/MC_Assembler over impl/Secs1Assembler + fn/E4Block", distinct_states=mc["distinct"], depth=mc["depth"],
                              invariants="Sound OnceInOrder Transparent Complete", alphabet=72,
                              notify_model=dict(module="impl/Secs1Notify", distinct_states=nt["distinct"], invariants="NeverWedged NoDeadlock", liveness="EverythingGoesOut",
                                                as_found_variant="NeverWedged %s with NotifyInline=TRUE (finding F10, fixed)" % ("violated" if ntf["invariant"] else "not violated"))),
                   evaluations=nsend + nblocks, distinct_nontrivial=len({len(d["body"]) for d in lines if d["t"] == "e4send"}) + len(seqs),
                   rule="send half: one evaluation = one message sent by a live connection (body lengths at the 244-byte boundaries x 4 role/device combos), "
                        "compared byte for byte with Split(); receive half: one evaluation = one block the peer put on the line, one trace = one "
                        "class sequence of 3..7 blocks; distinct = distinct body lengths + distinct class sequences",
                   send_messages=nsend, recv_sequences=nrecv, distinct_sequences=len(seqs), block_classes=classes, harness_faults=len(faults),
                   exhaustive=False, samples=[common.short(lines[0], 500), common.short([d for d in lines if d["t"] == "e4recv"][0], 900)],
                   wedge_scenarios=sum(1 for d in lines if d["t"] == "e4wedge"),
                   checker_cmd="tlc MC_Assembler; tlc Secs1Notify; vh s1 --parts send,recv,wedge; tlc OracleE4")
    ctx.assumptions += ["T1 60 ms, T2 150 ms, T4 300 ms; T4 is judged with a tolerance of +-60 ms (either outcome accepted inside the band)",
                        "loopback TCP stands in for the serial line; the peer serves the library's own S9 transmissions between its blocks"]


def selftest(ctx):
    allobs = s1common.record(ctx, "send,recv", nrecv=12)
    lines = [json.loads(l) for l in open(allobs)]
    i1 = next(i for i, d in enumerate(lines) if d["t"] == "e4send" and len(d["blocks"]) == 2)
    lines[i1]["blocks"][1][5] ^= 0x80                      # E-bit cleared on the last block (checksum left as is)
    i2 = next(i for i, d in enumerate(lines) if d["t"] == "e4recv" and len(d["delivered"]) >= 1)
    lines[i2]["delivered"] = lines[i2]["delivered"][:-1]   # a complete message not delivered
    i3 = next(i for i, d in enumerate(lines) if d["t"] == "e4recv" and any(not s["good"] for s in d["sent"]))
    for s in lines[i3]["sent"]:
        if not s["good"]:
            s["reply"] = "ack"                              # a corrupt block acknowledged
    with open(allobs, "w") as f:
        for d in lines:
            f.write(json.dumps(d) + "\n")
    sel, rejs, _ = s1common.judge(ctx, allobs, ("e4send", "e4recv"))
    want = sorted(json.dumps(lines[i], sort_keys=True) for i in {i1, i2, i3})
    got = sorted(json.dumps(d, sort_keys=True) for d, _ in rejs)
    common.log("rejected", [w for _, w in rejs])
    return got == want
