"""C09 — nothing crosses TCP connection generations: no stale frame, no stale reply.
See vlib/txncommon.py; this check reports the Gen* clauses of prop/Txn (generation-ending scenarios)."""
import json
from . import txncommon


def run(ctx):
    if ctx.quick:
        txncommon.run(ctx, 40, "drop,gen,close,gen,drop", par=4)
    else:
        txncommon.run(ctx, 200, "drop,gen,close,gen,drop", par=4, passes=3)


def selftest(ctx):
    def mutate(lines, base):
        for i, l in enumerate(lines):
            d = json.loads(l)
            if i + 1 in base or d["kind"] != "gen":
                continue
            for x in d["peer_rx"]:
                if x["gen"] == 1 and x["tok"].startswith("c"):
                    x["gen"] = 2
                    lines[i] = json.dumps(d)
                    return (i + 1, "GenNoStaleFrame")
    return txncommon.selftest(ctx, mutate)
