"""C09 — nothing crosses TCP connection generations: no stale frame, no stale reply.
See vlib/txncommon.py; this check reports the Gen* clauses of prop/Txn (generation-ending scenarios)."""
import json, os
from . import common, txncommon, s1common


def run(ctx):
    if ctx.quick:
        txncommon.run(ctx, 40, "drop,gen,close,gen,drop", par=4)
    else:
        txncommon.run(ctx, 200, "drop,gen,close,gen,drop", par=4, passes=3)
    secs1(ctx)
    parked(ctx)


def parked(ctx):
    """fire-and-forget sends parked on a full send queue (socket stalled by a write gate) when their generation ends by a peer
    reset or by Close: each completes promptly with the connection-closed error, none is flushed into the next generation"""
    obs = os.path.join(ctx.tmp, "parked.ndjson")
    ctx.run_vh(["parked", "--out", obs, "--reps", 3 if ctx.quick else 12], timeout=900)
    res = common.oracle_pass(ctx, obs, "OracleGauge", nchunks=1, timeout=600)
    faults, groups = 0, {}
    for (ln, text, why) in res["rejections"]:
        d = json.loads(text)
        if why == "HarnessFault":
            faults += 1
            continue
        g = groups.setdefault("c09:parked:%s:%s" % (why, d["how"]), dict(n=0, first=d))
        g["n"] += 1
    for sig, g in sorted(groups.items()):
        ctx.violation("sends parked on a full queue when their generation ended (%s), %d scenario(s): %s" % (sig, g["n"], common.short(g["first"], 500)),
                      dict(binding="B2 scripted peer + write gate + OracleGauge WhyParked", signature=sig, occurrences=g["n"], observation=g["first"]))
    if faults > res["lines"] // 2:
        raise common.Inconclusive("parked-send scenarios could not be set up (%d of %d)" % (faults, res["lines"]))
    ctx.cov["parked_send_scenarios"] = res["lines"] - faults
    ctx.cov["traces_validated_against_impl"] = ctx.cov.get("traces_validated_against_impl", 0) + res["lines"] - faults


def secs1(ctx):
    """the same guarantee on the SECS-I transport: a generation ends while one send waits for its reply, one occupies the
    line engine, and three are queued behind it (W, no-W, fire-and-forget); four role / mode combinations per pass"""
    allobs = s1common.record(ctx, "gen", passes=2 if ctx.quick else 10)
    lines, rejs, res = s1common.judge(ctx, allobs, ("e4gen",))
    groups = {}
    for d, why in rejs:
        if why == "HarnessFault" or not why.startswith("Gen"):
            continue          # Rec* clauses of the same recording belong to C11
        g = groups.setdefault("c09:secs1:%s" % why, dict(n=0, first=d))
        g["n"] += 1
    for sig, g in sorted(groups.items()):
        ctx.violation("SECS-I generation scenario rejected (%s), %d scenario(s): %s" % (sig, g["n"], common.short(g["first"], 500)),
                      dict(binding="B2 E4 reference peer + OracleE4", signature=sig, occurrences=g["n"], observation=g["first"]))
    ctx.cov["secs1_generation_scenarios"] = len(lines)
    ctx.cov["traces_validated_against_impl"] = ctx.cov.get("traces_validated_against_impl", 0) + len(lines)


def selftest(ctx):
    def mutate(lines, base):
        for i, l in enumerate(lines):
            d = json.loads(l)
            if i + 1 in base or d["kind"] != "gen":
                continue
            for x in d["peer_rx"]:
                if x["gen"] == 1 and x["tok"].startswith("c"):
                    x["gen"] = 2
                    lines[i] = json.dumps(d)
                    return (i + 1, "GenNoStaleFrame")
    return txncommon.selftest(ctx, mutate)
