"""C14 — the SML parser is total on any text, resource-bounded, with accurate error positions.

Every input is parsed in a child process (vh smlworker, address space capped at 6 GiB) so that a fatal runtime
error -- stack exhaustion, out of memory -- is an observation instead of the end of the check; the parent charges a
crash or a hang (> 8 s) to the input in flight.  Inputs: 57 hand-written edge texts, grammar-directed random SML
with 13 mutation kinds (truncation, dropped bracket / quote, inserted rune, flipped byte, huge size hint, unterminated
comment, extra brackets, CRLF, cut), random bytes, and sized pathological families (nesting, long / unterminated
strings, comment / token / quote / backslash / '<' storms, multi-byte runes, size hints up to 2^32) -- through
Parse, ParseStrict, Parser.ParseMessage (both modes) and ParseHeader.  OracleSml requires: no panic, crash or hang;
time within a quadratic and allocation within a linear envelope of the input length; ok results carry valid
messages; a *ParseError has 0 <= Offset <= len(input) and Line / Col equal to what the offset implies (recomputed in
TLA+ from the input bytes).  Instance isolation: 16 goroutines use the package shortcuts, fresh parsers and encoders
concurrently on 200 texts; every result must equal the sequential one."""
import json
from . import common, smlcommon


def run(ctx):
    allobs, lines, res = smlcommon.run(ctx, "total,conc", 600 if ctx.quick else 4000, big=(1 << 18) if ctx.quick else (1 << 20), passes=1 if ctx.quick else 3)
    ds = [json.loads(l) for l in lines]
    harness = [d for d in ds if d["t"] == "smltotal" and d["outcome"] == "harness"]
    if len(harness) > 3:
        raise common.Inconclusive("SML worker processes could not be started: %s" % harness[0]["detail"])
    smlcommon.report(ctx, res, lambda d: ("%s(%s input of %d bytes %r): %s %s" % (d["mode"], d["gen"], d["n"], smlcommon.text_of(d["input"], 80), d["outcome"], d["detail"][:160]))
                     if d["t"] == "smltotal" else common.short(d, 400))
    tot = [d for d in ds if d["t"] == "smltotal"]
    outcomes, gens = {}, {}
    for d in tot:
        outcomes[d["outcome"]] = outcomes.get(d["outcome"], 0) + 1
        gens[d["gen"]] = gens.get(d["gen"], 0) + 1
    ctx.cov.update(states=res["states"], transitions=res["transitions"], traces_validated_against_impl=sum(1 for d in ds if d["t"] == "smlconc"),
                   evaluations=len(tot), distinct_nontrivial=len({(d["gen"], d["mode"], d["n"], tuple(d["input"][:64])) for d in tot}),
                   rule="one evaluation = one (input, entry point) parsed in a child process; distinct = distinct (generator, entry point, length, first 64 bytes)",
                   samples=[dict(gen=d["gen"], mode=d["mode"], n=d["n"], outcome=d["outcome"], detail=d["detail"][:120], input=smlcommon.text_of(d["input"], 80)) for d in tot[::max(1, len(tot) // 4)][:5]],
                   outcomes=outcomes, generators=gens, largest_input=max(d["n"] for d in tot), parse_errors_with_position=sum(1 for d in tot if d["is_parse_error"]),
                   exhaustive=False, checker_cmd="vh sml --parts total,conc (child processes); tlc OracleSml")
    ctx.assumptions += ["time envelope 1 s + 0.25 ms/KiB + 150 ms x (KiB/32)^2, allocation envelope 4 MiB + 256 x len(input); a hang is 8 s without a result (dispatch stops after 6 hangs)",
                        "goroutine interleavings of the isolation clause are sampled by the Go scheduler, not enumerated"]


def selftest(ctx):
    allobs, lines, res0 = smlcommon.run(ctx, "total,conc", 40, big=1 << 14)
    ds = [json.loads(l) for l in lines]
    i1 = next(i for i, d in enumerate(ds) if d["t"] == "smltotal" and d["is_parse_error"] and d["nl_before"] > 0)
    ds[i1]["col"] += 1
    i2 = next(i for i, d in enumerate(ds) if d["t"] == "smltotal" and d["outcome"] == "ok")
    ds[i2]["outcome"] = "crash"
    i3 = next(i for i, d in enumerate(ds) if d["t"] == "smlconc")
    ds[i3]["mismatches"] = 1
    i4 = next(i for i, d in enumerate(ds) if d["t"] == "smltotal" and d["is_parse_error"] and i != i1)
    ds[i4]["offset"] = ds[i4]["n"] + 1
    open(allobs, "w").write("\n".join(json.dumps(d) for d in ds) + "\n")
    res = common.oracle_pass(ctx, allobs, "OracleSml", nchunks=1)
    got = sorted(r[0] for r in res["rejections"])
    common.log("rejected", got, [r[2] for r in res["rejections"]])
    return not res0["rejections"] and got == sorted([i1 + 1, i2 + 1, i3 + 1, i4 + 1])
