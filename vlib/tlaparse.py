"""Minimal parser for TLA+ values as TLC prints them (states in simulation files and
counterexample traces): strings, ints, booleans, tuples/sequences <<..>>, sets {..},
records [a |-> v, ...] and functions (a :> v @@ ...)."""
import re

_TOK = re.compile(r'\s*(<<|>>|\|->|:>|@@|[\[\]{}(),]|"(?:[^"\\]|\\.)*"|-?\d+|[A-Za-z_][A-Za-z0-9_]*)')


def _tokens(s):
    pos, out = 0, []
    while pos < len(s):
        m = _TOK.match(s, pos)
        if not m:
            if s[pos:].strip() == "":
                break
            raise ValueError("cannot tokenize at %r" % s[pos:pos + 30])
        out.append(m.group(1))
        pos = m.end()
    return out


def parse_value(s):
    toks = _tokens(s)
    v, i = _val(toks, 0)
    return v


def _val(t, i):
    x = t[i]
    if x == "<<":
        i += 1
        out = []
        while t[i] != ">>":
            v, i = _val(t, i)
            out.append(v)
            if t[i] == ",":
                i += 1
        return out, i + 1
    if x == "{":
        i += 1
        out = []
        while t[i] != "}":
            v, i = _val(t, i)
            out.append(v)
            if t[i] == ",":
                i += 1
        return {"__set__": out}, i + 1
    if x == "[":
        i += 1
        out = {}
        while t[i] != "]":
            k = t[i]
            assert t[i + 1] == "|->", t[i:i + 3]
            v, i = _val(t, i + 2)
            out[k] = v
            if t[i] == ",":
                i += 1
        return out, i + 1
    if x == "(":
        i += 1
        out = {}
        while t[i] != ")":
            k, i = _val(t, i)
            assert t[i] == ":>"
            v, i = _val(t, i + 1)
            out[str(k)] = v
            if t[i] == "@@":
                i += 1
        return out, i + 1
    if x.startswith('"'):
        return x[1:-1], i + 1
    if x in ("TRUE", "FALSE"):
        return x == "TRUE", i + 1
    if re.fullmatch(r"-?\d+", x):
        return int(x), i + 1
    return x, i + 1


_VAR = re.compile(r"^/\\ (\w+) = (.*)$")


def parse_state_block(text):
    """text: lines '/\\ var = value' (values may span lines)."""
    st, cur, buf = {}, None, []
    for line in text.splitlines():
        m = _VAR.match(line)
        if m:
            if cur is not None:
                st[cur] = parse_value(" ".join(buf))
            cur, buf = m.group(1), [m.group(2)]
        elif cur is not None and line.strip():
            buf.append(line.strip())
    if cur is not None:
        st[cur] = parse_value(" ".join(buf))
    return st


def parse_sim_file(path):
    """A `tlc -simulate file=...` behaviour file -> list of state dicts."""
    text = open(path).read()
    states = []
    for blk in re.split(r"\nSTATE_\d+ == *\n", text)[1:]:
        blk = blk.split("\n\n")[0]
        states.append(parse_state_block(blk))
    return states


def parse_counterexample(out):
    """TLC stdout with an error trace -> list of state dicts (in order)."""
    states = []
    parts = re.split(r"\nState \d+: [^\n]*\n", "\n" + out)
    for blk in parts[1:]:
        blk = blk.split("\n\n")[0]
        st = parse_state_block(blk)
        if st:
            states.append(st)
    return states
