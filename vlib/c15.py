"""C15 — the configurable SML encoder with defaults is byte-identical to Item.ToSML.

fn/SmlText.tla is a third, independent renderer (TLA+, over E5Codec's abstract items: lists with indentation,
ASCII / JIS-8 raw-quoted, binary hex tokens, booleans, signed/unsigned decimals by long division on the 8-byte
images).  For each item of the population -- 830 hand-picked shapes (numeric extremes, every single byte value in
ASCII, empty items, empty lists at every depth) plus random trees, each built through a random constructor shape
and, for a third, also in decoded (raw-backed) form -- the driver records Item.ToSML(), sml.Encode(item) and the
encoder through fresh instances / AppendEncode; for trees without text leaves it parses the rendering back with
both parsers.  OracleSml requires ToSML = Encode byte for byte, = the reference text when the item has no float /
localized leaf, and the read-back values equal to the item (NaN aside)."""
import json
from . import common, smlcommon


def run(ctx):
    allobs, lines, res = smlcommon.run(ctx, "render", 1500 if ctx.quick else 12000, passes=1 if ctx.quick else 3)
    smlcommon.report(ctx, res, lambda d: "origin %s item %s rendering %r" % (d["origin"], common.short(d["item"], 200), smlcommon.text_of(d["enc"])))
    ds = [json.loads(l) for l in lines]
    ctx.cov.update(states=res["states"], transitions=res["transitions"], traces_validated_against_impl=0,
                   evaluations=len(ds), distinct_nontrivial=len({json.dumps(d["item"], sort_keys=True) for d in ds}),
                   rule="one evaluation = one item rendered by both renderers (+ parsed back when it has no text leaf); distinct = distinct abstract items",
                   numeric_only_read_back=sum(1 for d in ds if d["numeric_only"]), decoded_form=sum(1 for d in ds if d["origin"] == "decoded"),
                   exhaustive=False, samples=[dict(item=common.short(ds[i]["item"], 200), text=smlcommon.text_of(ds[i]["enc"])) for i in (0, 9, len(ds) - 1)],
                   checker_cmd="vh sml --parts render; tlc OracleSml")
    ctx.assumptions += ["float and localized-string leaves have no TLA+ reference text (differential + read-back only)"]


def selftest(ctx):
    allobs, lines, res0 = smlcommon.run(ctx, "render", 60)
    ds = [json.loads(l) for l in lines]
    i1 = next(i for i, d in enumerate(ds) if d["item"]["k"] == "U8")
    ds[i1]["enc"] = ds[i1]["enc"][:-2] + [57, 62]; ds[i1]["tosml"] = list(ds[i1]["enc"])      # both renderers drift together
    i2 = next(i for i, d in enumerate(ds) if d["item"]["k"] == "L" and len(d["item"]["v"]) > 1 and i != i1)
    ds[i2]["enc"] = [32] + ds[i2]["enc"]                                                       # encoder alone drifts
    i3 = next(i for i, d in enumerate(ds) if d["numeric_only"] and d["item"]["k"] == "F8" and i not in (i1, i2))
    ds[i3]["parsed"] = dict(k="F8", v=[[0] * 8] * len(ds[i3]["item"]["v"]))                  # read-back differs
    open(allobs, "w").write("\n".join(json.dumps(d) for d in ds) + "\n")
    res = common.oracle_pass(ctx, allobs, "OracleSml", nchunks=1)
    got = sorted(r[0] for r in res["rejections"])
    common.log("rejected", got, [r[2] for r in res["rejections"]])
    return not res0["rejections"] and got == sorted([i1 + 1, i2 + 1, i3 + 1])
