"""C04 — frame decoding and stream framing are robust to arbitrary bytes and segmentation.

Decode half: fn/HsmsFrame!DecodeFrame (+ E5Codec for the body verdict) is the oracle over byte strings built around
the length / PType / SType positions (all length-field landmarks x PType x every SType class x bodies incl. invalid
SECS-II), truncations, mutated random frames and the 16 MiB size-cap boundary; every holder / every call / concurrent
first calls must report the same body error.  Stream half: impl/Framing.tla (readFrame/readN with the per-frame
`started` flag) is model-checked over all segmentations and pause placements of a 3-frame stream; on a live connection
the same 3-frame stream is written cut at EVERY byte offset, with random 2..4-cut sets, with idle gaps > T8 at frame
boundaries (must stay up), with a gap > T8 at every in-frame offset (must drop, earlier frames delivered) and with
length fields outside [10, cap] (must drop without allocating)."""
import json, os
from . import common


def run(ctx):
    work = common.stage_spec(os.path.join(ctx.tmp, "spec-framing"))
    mc = common.run_tlc(work, "MC_Framing", cfg="MC_Framing.cfg", workers=4, timeout=600)
    common.require_ok(mc, "MC_Framing")
    obs = os.path.join(ctx.tmp, "c04.ndjson")
    ctx.run_vh(["c04", "--out", obs, "--seed", ctx.seed, "--rand", 300 if ctx.quick else 5000, "--pairs", 120 if ctx.quick else 1500], timeout=3000)
    res = common.oracle_pass(ctx, obs, "OracleHsms", nchunks=10, timeout=2400)
    lines = open(obs).read().splitlines()
    classes, distinct, samples = {}, set(), []
    for i, line in enumerate(lines):
        d = json.loads(line)
        if d["t"] == "c04f":
            k = "decode:%s:%s" % (d["src"], "ok" if d["ok"] else "rejected")
            distinct.add(("f", bytes(d["in"][:64]), len(d["in"])))
        elif d["t"] == "c04cap":
            k = "cap"
            distinct.add(("cap", d["len_field"]))
        else:
            k = "stream:" + d["kind"]
            distinct.add(("s", d["kind"], tuple(d["cuts"]), d["bad_len"]))
        classes[k] = classes.get(k, 0) + 1
        if i % max(1, len(lines) // 4) == 1 and len(samples) < 5:
            samples.append(common.short(d, 500))
    groups = {}
    for (ln, text, why) in res["rejections"]:
        d = json.loads(text)
        if d["t"] == "c04f":
            sig = "c04:decode:%s:len%d:pt%s:st%s" % (d["src"], len(d["in"]), d["in"][8] if len(d["in"]) > 9 else "-", d["in"][9] if len(d["in"]) > 9 else "-")
        elif d["t"] == "c04cap":
            sig = "c04:cap:%d" % d["len_field"]
        else:
            sig = "c04:stream:%s:%s" % (d["kind"], ",".join(map(str, d["cuts"])) if d["kind"] != "cut" else "x")
        g = groups.setdefault(sig, dict(n=0, first=d))
        g["n"] += 1
    for sig, g in sorted(groups.items()):
        ctx.violation("frame decode / framing observation rejected (%s), %d case(s): %s" % (sig, g["n"], common.short(g["first"], 400)),
                      dict(binding="B4 oracle / B2 live stream", signature=sig, occurrences=g["n"], observation=g["first"]))
    ctx.cov.update(states=mc["distinct"] + res["states"], transitions=mc["generated"] + res["transitions"],
                   traces_validated_against_impl=len(lines), evaluations=len(lines), distinct_nontrivial=len(distinct),
                   rule="decode: one byte string offered to DecodeHSMSMessage + both payload entry points (distinct inputs); "
                        "stream: one (cut set, pause pattern) of the 3-frame stream on a live connection",
                   classes=classes, framing_model_states=mc["distinct"], exhaustive=False, samples=samples,
                   checker_cmd="tlc MC_Framing; vh c04; tlc OracleHsms")
    ctx.assumptions += ["T8 = 60 ms, long gap = 240 ms, idle gap = 180 ms", "the no-allocation clause is a runtime.MemStats measurement of the whole process (< 1 MiB)"]


def selftest(ctx):
    obs = os.path.join(ctx.tmp, "c04.ndjson")
    ctx.run_vh(["c04", "--out", obs, "--rand", 20, "--pairs", 5, "--big=false"], timeout=1200)
    lines = open(obs).read().splitlines()
    i1 = next(i for i, l in enumerate(lines) if json.loads(l)["t"] == "c04f" and json.loads(l)["ok"])
    d = json.loads(lines[i1]); d["ok"] = False; d["payload_ok"] = False; lines[i1] = json.dumps(d)
    i2 = next(i for i, l in enumerate(lines) if json.loads(l)["t"] == "c04s" and json.loads(l)["kind"] == "gap-inframe")
    d = json.loads(lines[i2]); d["alive"] = True; lines[i2] = json.dumps(d)
    open(obs, "w").write("\n".join(lines) + "\n")
    res = common.oracle_pass(ctx, obs, "OracleHsms", nchunks=1)
    got = sorted(r[0] for r in res["rejections"])
    common.log("rejected", got, "expected", [i1 + 1, i2 + 1])
    return got == [i1 + 1, i2 + 1]
