"""C10 — Open/Close are safe from any state: bounded, idempotent, leak-free, reopenable.

Design level: impl/Connection.tla (Open / Close / supervisor react / reconnect loop / epoch teardown / transport
seal, one action per critical section) is model-checked exhaustively for two concurrent callers: Close leaves
nothing, nothing reconnects after Close, one live generation, Open-while-open has no effect, a recovery path
always exists, Close never waits on the environment, and (with fairness) every Close terminates.
Code level: seeded random histories of 2..3 API goroutines (Open background / wait, Close, sends, config
updates) run with real concurrency against a peer that connects, selects, stalls, drops, resets and refuses at
random, on active and passive live connections; after each history the harness audits the final Close
(latency, idempotence, State, wrapped sockets/listeners, dials, runtime goroutine dump), probes Open-while-open
at a quiescent point and re-opens; prop/Lifecycle.tla judges each recorded history."""
import json, os, subprocess
from concurrent.futures import ThreadPoolExecutor
from . import common


def record(ctx, nproc, n):
    exe = ctx.vh()
    outs = []

    def one(k):
        out = os.path.join(ctx.tmp, "life_%d.ndjson" % k)
        p = subprocess.run([exe, "life", "--n", str(n), "--seed", str(ctx.seed * 100 + k), "--out", out, "--traces", out + ".traces"], capture_output=True, text=True,
                           timeout=3000, env=common.goenv(), cwd=ctx.tmp)
        if p.returncode != 0:
            raise common.Inconclusive("vh life failed: " + (p.stderr or p.stdout)[-1500:])
        return out
    with ThreadPoolExecutor(max_workers=nproc) as ex:
        outs = list(ex.map(one, range(nproc)))
    allobs = os.path.join(ctx.tmp, "life_all.ndjson")
    with open(allobs, "w") as f, open(allobs + ".traces", "w") as tf:
        for o in outs:
            f.write(open(o).read())
            if os.path.exists(o + ".traces"):
                tf.write(open(o + ".traces").read())
    return allobs


def run(ctx):
    work = common.stage_spec(os.path.join(ctx.tmp, "spec-conn"))
    mc = common.run_tlc(work, "Connection", cfg="MC_Connection.cfg" if ctx.quick else "MC_Connection_thorough.cfg", workers=12, timeout=3000)
    common.require_ok(mc, "MC Connection (safety)")
    live = common.run_tlc(work, "Connection", cfg="MC_Connection_live.cfg" if ctx.quick else "MC_Connection_live_thorough.cfg", workers=12, timeout=3000)
    common.require_ok(live, "MC Connection (Close terminates under fairness)")
    found = common.run_tlc(work, "Connection", cfg="MC_Connection_found.cfg", workers=4, timeout=600)
    allobs = record(ctx, 6, 8 if ctx.quick else 300)
    res = common.oracle_pass(ctx, allobs, "OracleLifecycle", nchunks=6, timeout=1200)
    lines = open(allobs).read().splitlines()
    nops, kinds, distinct, samples = 0, {}, set(), []
    for i, line in enumerate(lines):
        d = json.loads(line)
        for o in d["ops"]:
            nops += 1
            k = "%s=%s" % (o["op"], o["res"])
            kinds[k] = kinds.get(k, 0) + 1
        distinct.add((d["role"], tuple((o["g"], o["op"], o["res"]) for o in d["ops"])))
        if i % max(1, len(lines) // 3) == 0 and len(samples) < 3:
            samples.append(d)
    # model-level binding: the scenario-wide event log of every random history is validated as a behaviour of impl/Connection
    ntr, trej, tstates = validate_traces(ctx, allobs + ".traces")
    groups = {}
    for tr, hw in trej:
        nxt = tr["events"][hw] if hw < len(tr["events"]) else None
        sig = "c10:trace:%s:%s" % (tr["role"], ("%s-%s-%s" % (nxt["k"], nxt["op"], nxt["res"])) if nxt else "final")
        g = groups.setdefault(sig, dict(n=0, first=dict(t="lifetrace", id=tr["id"], role=tr["role"], matched_prefix=hw, next_event=nxt, before=tr["events"][max(0, hw - 8):hw]), clause="TraceConnection"))
        g["n"] += 1
    for (ln, text, why) in res["rejections"]:
        d = json.loads(text)
        for cl in (why or "").split("_"):
            sig = "c10:%s:%s:%s" % (cl, d.get("kind"), d.get("role"))
            g = groups.setdefault(sig, dict(n=0, first=d, clause=cl))
            g["n"] += 1
    for sig, g in sorted(groups.items()):
        d = g["first"]
        brief = {k: d[k] for k in d if k != "ops"}
        if g["clause"] == "TraceConnection":
            ctx.violation("event log of a concurrent history is not a behaviour of impl/Connection (%s), %d history(ies): %s" % (sig, g["n"], common.short(d, 700)),
                          dict(binding="B3 trace validation (TraceConnection)", signature=sig, occurrences=g["n"], history=d))
            continue
        ctx.violation("lifecycle history rejected by prop/Lifecycle clause %s (%s), %d history(ies): %s" % (g["clause"], sig, g["n"], common.short(brief, 500)),
                      dict(binding="B2 random concurrent histories + acceptor", signature=sig, clause=g["clause"], occurrences=g["n"], history=d))
    ctx.cov.update(states=mc["distinct"] + live["distinct"] + tstates, transitions=mc["generated"] + live["generated"],
                   traces_validated_against_impl=len(lines), model_level_traces=ntr, evaluations=nops, distinct_nontrivial=len(distinct),
                   rule="one trace = one random concurrent API history + audit; one evaluation = one API call; distinct = distinct (role, sequence of "
                        "(goroutine, call, result)); every history ends with the Close / leak / probe / re-Open audit",
                   model=dict(module="impl/Connection.tla", safety_cfg="MC_Connection.cfg (2 callers, 4 ops, 4 epochs, 1 peer drop)",
                              safety_states=mc["distinct"], liveness_cfg="MC_Connection_live.cfg", liveness_states=live["distinct"],
                              invariants="CloseLeavesNothing OneLiveGeneration RecoveryPending CloseOnlyWaitsForLibrary NoReconnectAfterClose OpenWhileOpenNoEffect CloseTerminates",
                              as_found_variant="CloseOnlyWaitsForLibrary %s with HoldLockWhileWaiting=TRUE (finding F6, fixed)" % ("violated" if found["invariant"] else "not violated")),
                   op_results=kinds, exhaustive=False, samples=samples, checker_cmd="tlc Connection (3 cfgs); vh life x6; tlc OracleLifecycle; tlc TraceConnection per history")
    ctx.assumptions += ["handlers return; close timeout 300 ms, slack 150 ms + measured jitter",
                        "the goroutine audit looks for frames of github.com/arloliu/go-secs/v2 in runtime.Stack after the final Close (one scenario at a time per process)",
                        "HSMS-SS transport; SECS-I lifecycle shares hsms/connection_lifecycle.go and is exercised by C17/C18 scenarios only"]


def selftest(ctx):
    allobs = record(ctx, 1, 3)
    lines = open(allobs).read().splitlines()
    d = json.loads(lines[0]); d["open_sockets"] = 1; lines[0] = json.dumps(d)
    d = json.loads(lines[1]); d["final_close_ms"] = 5000; lines[1] = json.dumps(d)
    open(allobs, "w").write("\n".join(lines) + "\n")
    res = common.oracle_pass(ctx, allobs, "OracleLifecycle", nchunks=1)
    got = {r[0]: r[2] for r in res["rejections"]}
    common.log("rejections:", got)
    ok1 = "LifeCloseLeavesNothing" in got.get(1, "") and "LifeCloseBounded" in got.get(2, "")
    big = record(ctx, 2, 12)
    n0, rej0, _ = validate_traces(ctx, big + ".traces")
    n1, rej1, _ = validate_traces(ctx, big + ".traces", mutate=mutate_traces)
    common.log("model-level traces: unmutated %d (%d rejected); mutated %d (%d rejected)" % (n0, len(rej0), n1, len(rej1)))
    return ok1 and n0 > 10 and not rej0 and n1 > 5 and len(rej1) == n1


def validate_traces(ctx, path, mutate=None):
    """One depth-first TLC run of trace/TraceConnection per recorded lifetrace line. Returns (n, rejected[(trace, highwater)], states)."""
    import re
    from concurrent.futures import ThreadPoolExecutor
    traces = [json.loads(l) for l in open(path) if l.strip()]
    traces = [t for t in traces if not any(e["k"] == "ret" and (e["res"] in ("hung", "close-timeout") or e["res"].startswith("other:")) for e in t["events"])]
    if len(traces) > 600:          # one JVM per trace: keep the thorough tier inside a few minutes
        step = len(traces) / 600.0
        traces = [traces[int(i * step)] for i in range(600)]
    if mutate:
        traces = mutate(traces)
    work = common.stage_spec(os.path.join(ctx.tmp, "spec-trace-conn"))

    def one(it):
        i, tr = it
        f = os.path.join(ctx.tmp, "conntr_%d.ndjson" % i)
        with open(f, "w") as fh:
            fh.write(json.dumps(tr) + "\n")
        try:
            r = common.run_tlc(work, "TraceConnection", cfg="TraceConnection.cfg", workers=1, env={"VERIF_IN": f}, timeout=240, xss="64m", deque=True,
                               heap="1g -XX:ActiveProcessorCount=2 -XX:TieredStopAtLevel=1")
        except common.Inconclusive:
            return (tr, "undecided", 0)
        finally:
            if os.path.exists(f):
                os.unlink(f)
        if r["invariant"] == "NotAccepted":
            return (tr, None, r["distinct"])
        if not r["ok"]:
            raise common.Inconclusive("TraceConnection failed on a trace: %s\n%s" % (r["error"], r["out"][-2000:]))
        hw = [int(m.group(1)) for m in re.finditer(r'<<"HW", (\d+), \d+>>', r["out"])]
        return (tr, max(hw) if hw else 0, r["distinct"])

    with ThreadPoolExecutor(max_workers=12) as ex:
        results = list(ex.map(one, enumerate(traces)))
    undecided = sum(1 for (_, hw, _) in results if hw == "undecided")
    if undecided > max(2, len(traces) // 10):
        raise common.Inconclusive("trace validation did not finish in time for %d of %d traces" % (undecided, len(traces)))
    return len(traces) - undecided, [(tr, hw) for (tr, hw, _) in results if hw is not None and hw != "undecided"], sum(s for (_, _, s) in results)


def mutate_traces(traces):
    out = []
    for k, tr in enumerate(traces):
        tr = json.loads(json.dumps(tr))
        evs = tr["events"]
        kind = k % 4
        if kind == 0:      # an Open on an open connection reported as a success
            i = next((i for i, e in enumerate(evs) if e["k"] == "ret" and e["res"] == "already-open"), None)
            if i is None:
                continue
            evs[i]["res"] = "nil"
        elif kind == 1:    # a successful Open without any Start of the library
            i = next((i for i, e in enumerate(evs) if e["k"] == "ret" and e["op"].startswith("Open") and e["res"] == "nil"), None)
            if i is None:
                continue
            j = max((j for j in range(i) if evs[j]["k"] == "start-ok"), default=None)
            if j is None:
                continue
            del evs[j]
        elif kind == 2:    # the library dials / listens again after the last Close returned
            i = max((i for i, e in enumerate(evs) if e["k"] == "ret" and e["op"] == "Close" and e["res"] == "nil"), default=None)
            if i is None or any(e["k"] == "call" for e in evs[i + 1:]):
                continue
            evs.insert(i + 1, dict(k="start-ok", g=0, c="c0", op="", res=""))
        else:              # Close of an opened connection reports not-open
            i = next((i for i, e in enumerate(evs) if e["k"] == "ret" and e["op"] == "Close" and e["res"] == "nil"), None)
            if i is None:
                continue
            evs[i]["res"] = "not-open"
        tr["mut"] = kind
        out.append(tr)
    return out
