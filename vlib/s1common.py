"""Shared by C17 / C18: the SECS-I driver (vh s1) against an independent E4 reference peer, the OracleE4
acceptor, and trace validation of the recorded line characters against impl/Secs1Line (TraceSecs1)."""
import json, os, re
from concurrent.futures import ThreadPoolExecutor
from . import common


def record(ctx, parts, passes=1, nrecv=60, full=False):
    allobs = os.path.join(ctx.tmp, "s1_all.ndjson")
    with open(allobs, "w") as out:
        for k in range(passes):
            obs = os.path.join(ctx.tmp, "s1_%d.ndjson" % k)
            args = ["s1", "--out", obs, "--seed", ctx.seed * 100 + k, "--parts", parts, "--recv", nrecv]
            if full:
                args.append("--full")
            ctx.run_vh(args, timeout=3000)
            out.write(open(obs).read())
    return allobs


def judge(ctx, allobs, kinds):
    """Run OracleE4 over the lines whose "t" is in kinds. Returns (lines, rejections[(dict, why)])."""
    sel = os.path.join(ctx.tmp, "s1_sel_%s.ndjson" % "_".join(sorted(kinds)))
    lines = []
    with open(sel, "w") as out:
        for line in open(allobs):
            d = json.loads(line)
            if d["t"] in kinds:
                out.write(line)
                lines.append(d)
    if not lines:
        raise common.Inconclusive("no %s observations recorded" % "/".join(kinds))
    res = common.oracle_pass(ctx, sel, "OracleE4", nchunks=8, timeout=1500)
    return lines, [(json.loads(text), why) for (_, text, why) in res["rejections"]], res


def validate_traces(ctx, allobs, mutate=None):
    """One TLC run of trace/TraceSecs1 per recorded e4trace line. Returns (n, rejected[(trace, highwater)], states)."""
    traces = [json.loads(l) for l in open(allobs) if '"e4trace"' in l]
    if mutate:
        traces = mutate(traces)
    work = common.stage_spec(os.path.join(ctx.tmp, "spec-trace-s1"))

    def one(it):
        i, tr = it
        path = os.path.join(ctx.tmp, "s1tr_%d.ndjson" % i)
        with open(path, "w") as f:
            f.write(json.dumps(tr) + "\n")
        r = common.run_tlc(work, "TraceSecs1", cfg="TraceSecs1.cfg", workers=1, env={"VERIF_IN": path}, timeout=600, xss="64m",
                           heap="768m -XX:ActiveProcessorCount=2 -XX:TieredStopAtLevel=1")
        os.unlink(path)
        if r["invariant"] == "NotAccepted":
            return (tr, None, r["distinct"])
        if not r["ok"]:
            raise common.Inconclusive("TraceSecs1 failed on a trace: %s\n%s" % (r["error"], r["out"][-2000:]))
        hw = [int(m.group(1)) for m in re.finditer(r'<<"HW", (\d+), \d+>>', r["out"])]
        return (tr, max(hw) if hw else 0, r["distinct"])

    with ThreadPoolExecutor(max_workers=14) as ex:
        results = list(ex.map(one, enumerate(traces)))
    rejected = [(tr, hw) for (tr, hw, _) in results if hw is not None]
    return len(traces), rejected, sum(s for (_, _, s) in results)
