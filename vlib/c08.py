"""C08 — HSMS-SS control procedures answer every peer frame sequence per SEMI E37.

impl/HsmsSS.tla is the receive-path dispatcher/responder as a deterministic transducer (E37/E37.1
answer tables + data gate). A raw scripted peer (harness/peerkit, sharing no code with go-secs) plays
every sequence of the 18-symbol frame alphabet up to the configured length -- one frame per Linktest
barrier and as single-write / split-write bursts -- against live passive and active hsmsss connections
over loopback TCP, with session-id validation on and off; TLC (OracleHsmsSS) folds the transducer over
what the peer wrote and must reproduce every frame read back, every handler delivery, the link
liveness and State() after each barrier."""
import json, os
from . import common


def record(ctx, obs, length, extra):
    p = ctx.run_vh(["c08", "--len", length, "--extra", extra, "--seed", ctx.seed, "--out", obs, "--workers", 6], timeout=3000)
    return json.loads(p.stdout.strip().splitlines()[-1])


def judge(ctx, obs, stats, prop="C08"):
    res = common.oracle_pass(ctx, obs, "OracleHsmsSS", nchunks=12, timeout=2400)
    lines = open(obs).read().splitlines()
    distinct, classes, samples = set(), {}, []
    for i, line in enumerate(lines):
        d = json.loads(line)
        key = (d["role"], d["validate"], d["mode"], tuple(tuple(s["syms"]) for s in d["steps"]))
        distinct.add(key)
        cls = "%s/%s/%s" % (d["role"], "validate" if d["validate"] else "novalidate", d["mode"])
        classes[cls] = classes.get(cls, 0) + 1
        if i % max(1, len(lines) // 4) == 3 and len(samples) < 5:
            samples.append(common.short(d, 700))
    groups = {}
    for (ln, text, why) in res["rejections"]:
        d = json.loads(text)
        if why.startswith("StuckSelected"):
            # all answers right, State() still Selected after an accepted deselection: the outside view of finding F1
            # (fixed by cbc5287; one signature for all its manifestations, gated or not)
            sig = "%s:StuckSelectedAfterDeselect" % prop.lower()
            g = groups.setdefault(sig, dict(n=0, first=d, why=why))
            g["n"] += 1
            continue
        bad = int(why[4:]) if why.startswith("Step") and why[4:].isdigit() and int(why[4:]) > 0 else 0
        syms = d["steps"][bad - 1]["syms"] if bad else []
        sig = "%s:%s:%s:%s:%s" % (prop.lower(), d["role"], d["mode"], why if not bad else "step", "+".join(syms))
        g = groups.setdefault(sig, dict(n=0, first=d, why=why))
        g["n"] += 1
    for sig, g in sorted(groups.items()):
        ctx.violation("live hsmsss answers differ from the E37 transducer (%s), %d scenario(s)" % (sig, g["n"]),
                      dict(binding="B2 scripted peer + acceptor", signature=sig, occurrences=g["n"], scenario=g["first"]))
    return res, distinct, classes, samples


def pair_model(ctx):
    """design level: two endpoints that both react as HsmsSS!Respond says (the operator the recordings below bind to the
    code), joined by FIFO pipes, with the Select initiator, T6/T7, Close/Separate, linktests and link losses: agreement at
    rest, no mutual Reject, nothing across generations, Selected for good once the faults stop (impl/HsmsPair)"""
    work = common.stage_spec(os.path.join(ctx.tmp, "spec-pair"))
    out = {}
    for cfg in (["MC_HsmsPair.cfg", "MC_HsmsPair_foreign.cfg"] if ctx.quick else ["MC_HsmsPair.cfg", "MC_HsmsPair_foreign.cfg", "MC_HsmsPair_thorough.cfg"]):
        r = common.run_tlc(work, "MC_HsmsPair", cfg=cfg, workers=6, timeout=1500)
        common.require_ok(r, "MC_HsmsPair " + cfg)
        out[cfg] = dict(distinct=r["distinct"], generated=r["generated"], depth=r["depth"])
    return out


def run(ctx):
    pair = pair_model(ctx)
    obs = os.path.join(ctx.tmp, "c08_obs.ndjson")
    stats = record(ctx, obs, 2 if ctx.quick else 3, 150 if ctx.quick else 1500)
    if stats["faults"] > max(3, stats["lines"] // 200):
        raise common.Inconclusive("too many harness faults: %s" % stats)
    res, distinct, classes, samples = judge(ctx, obs, stats)
    ctx.cov.update(states=res["states"], transitions=res["transitions"], traces_validated_against_impl=res["lines"],
                   evaluations=res["lines"], distinct_nontrivial=len(distinct),
                   rule="one evaluation = one TCP generation against a live connection: a frame sequence over the alphabet "
                        "(SelectReq, SelectReq other sid, DeselectReq, LinktestReq, SeparateReq, orphan Select/Deselect/Linktest.rsp, "
                        "orphan Reject.req, data primary W / no W, data secondary, data with foreign session id, control frame with body, "
                        "non-zero PType, undefined SType x2, foreign-sid S9F1; active role adds the Select.rsp status) played with "
                        "barriers or as a burst; distinct = distinct (role, validation, mode, sequence)",
                   pair_model=pair, classes=classes, harness_faults=stats["faults"], select_then_deselect_bursts=stats.get("select_deselect_bursts", 0), exhaustive=False, samples=samples,
                   checker_cmd="vh c08; tlc OracleHsmsSS")
    ctx.assumptions += ["loopback TCP; T6=3s, T7=30s so that no protocol timer fires inside a scenario",
                        "when a burst itself ends the connection, answers still queued behind it may be discarded (prefix accepted)"]


def selftest(ctx):
    obs = os.path.join(ctx.tmp, "c08_obs.ndjson")
    record(ctx, obs, 1, 5)
    lines = open(obs).read().splitlines()
    i1 = next(i for i, l in enumerate(lines) if json.loads(l)["steps"] and json.loads(l)["steps"][0]["syms"] == ["DeselectReq"])
    d = json.loads(lines[i1]); d["steps"][0]["rx"][0]["b3"] = 0; lines[i1] = json.dumps(d)
    i2 = next(i for i, l in enumerate(lines) if json.loads(l)["steps"] and json.loads(l)["steps"][0]["syms"] == ["DataPrimaryW"] and json.loads(l)["role"] == "passive")
    d = json.loads(lines[i2]); d["steps"][0]["rx"] = []; lines[i2] = json.dumps(d)
    open(obs, "w").write("\n".join(lines) + "\n")
    res = common.oracle_pass(ctx, obs, "OracleHsmsSS", nchunks=1)
    got = sorted(r[0] for r in res["rejections"])
    common.log("rejected:", got, "expected", [i1 + 1, i2 + 1])
    return got == [i1 + 1, i2 + 1]
