"""C18 — SECS-I delivers each successfully sent message exactly once over a faulty line.

impl/Secs1Line.tla models both ends of one E4 line (equipment = master, host = slave) with one action per step of
the line-engine goroutine (ENQ / EOT / block / ACK-NAK, T2 timeouts, RTY loop, slave contention yield, retry reset
after a successful yield, give-up -> relink), the abstract assembler with duplicate detection, and a faulty line
(lost / garbled characters, corrupted blocks, delays beyond T2).  TLC checks ExactlyOnce, AtMostOnce, InOrder,
RetryBounded, MasterFirst and the liveness property AllReturn (no deadlock) over every interleaving and fault
placement within the bounds.  Binding: (B3) the characters an independent E4 peer exchanged with a live secs1
connection are validated, trace by trace, as behaviours of the library's node of Secs1Line (TraceSecs1: tx events
feed the channel, rx events must be what the node wrote, 'closed' needs a retry exhaustion, final deliveries and
send results must match); (B2/B4) the outcome of each scripted scenario -- k consecutive faults per attempt vs
retry limit 0..2, retransmitted / corrupted / truncated blocks from the peer, simultaneous ENQs in both roles --
is judged by OracleE4."""
import json, os
from . import common, s1common


def run(ctx):
    work = common.stage_spec(os.path.join(ctx.tmp, "spec-line"))
    mc = common.run_tlc(work, "MC_Secs1Line", cfg="MC_Secs1Line.cfg" if ctx.quick else "MC_Secs1Line_thorough.cfg", workers=12, timeout=3000)
    common.require_ok(mc, "MC_Secs1Line")
    allobs = s1common.record(ctx, "recv,line,cont", passes=1 if ctx.quick else 4, nrecv=36 if ctx.quick else 72)
    lines, rejs, res = s1common.judge(ctx, allobs, ("e4line", "e4once", "e4cont"))
    faults = [d for d in lines if d.get("fault")]
    if len(faults) > max(2, len(lines) // 20):
        raise common.Inconclusive("too many harness faults in SECS-I scenarios: %d of %d (%s)" % (len(faults), len(lines), faults[0]["fault"]))
    groups = {}
    for d, why in rejs:
        if why == "HarnessFault":
            continue
        key = "c18:%s:%s" % (d["t"], why)
        g = groups.setdefault(key, dict(n=0, first=d))
        g["n"] += 1
    ntr, trej, tstates = s1common.validate_traces(ctx, allobs)
    disturbed = 0
    for tr, hw in trej:
        if tr.get("max_jitter_ms", 0) > 30:      # the scheduler stalled the peer: timing-based inference is unreliable, not judged
            disturbed += 1
            continue
        nxt = tr["events"][hw] if hw < len(tr["events"]) else "(end: final deliveries / results / idle state do not match)"
        key = "c18:trace:%s:%s" % (tr["scenario"], nxt["d"] + nxt["k"] if isinstance(nxt, dict) else "final")
        g = groups.setdefault(key, dict(n=0, first=dict(trace=tr, matched_prefix=hw, next_event=nxt)))
        g["n"] += 1
    for sig, g in sorted(groups.items()):
        ctx.violation("SECS-I line behaviour rejected (%s), %d scenario(s): %s" % (sig, g["n"], common.short(g["first"], 300)),
                      dict(binding="B3 TraceSecs1 / B2+B4 OracleE4", signature=sig, occurrences=g["n"], observation=g["first"]))
    if disturbed > max(3, ntr // 10):
        raise common.Inconclusive("machine too noisy: %d of %d line traces disturbed by scheduler stalls > 30 ms" % (disturbed, ntr))
    kinds = {}
    for d in lines:
        kinds[d["t"]] = kinds.get(d["t"], 0) + 1
    nev = sum(len(json.loads(l)["events"]) for l in open(allobs) if '"e4trace"' in l)
    ctx.cov.update(states=mc["distinct"] + tstates, transitions=mc["generated"], traces_validated_against_impl=ntr,
                   model=dict(module="impl/Secs1Line", cfg="retry 2, 3 line faults, 2+2 messages (first of each end has 2 blocks)" if ctx.quick else "thorough cfg",
                              distinct_states=mc["distinct"], depth=mc["depth"],
                              invariants="TypeOK ExactlyOnce AtMostOnce InOrder RetryBounded MasterFirst", liveness="AllReturn"),
                   evaluations=nev, distinct_nontrivial=len({(d["t"], d.get("retry"), d.get("faults_in_a_row"), tuple(d.get("faults", [])), d.get("pattern")) for d in lines}),
                   rule="one trace = the line characters of one scenario validated against Secs1Line; one evaluation = one character / block "
                        "event; distinct = distinct (scenario, retry limit, fault script / retransmission pattern)",
                   scenario_kinds=kinds, trace_events=nev, disturbed_traces_not_judged=disturbed, harness_faults=len(faults), exhaustive=False,
                   samples=[common.short(d, 400) for d in lines[:2]], checker_cmd="tlc MC_Secs1Line; vh s1 --parts recv,line,cont; tlc OracleE4; tlc TraceSecs1 per trace")
    ctx.assumptions += ["faults are injected by the scripted peer at character / block granularity on loopback TCP, one fault per transmission attempt",
                        "inter-block gaps stay below T4 in these scenarios (a longer stall is C17's T4 clause)"]


def selftest(ctx):
    allobs = s1common.record(ctx, "recv,line,cont", nrecv=12)
    ntr0, rej0, _ = s1common.validate_traces(ctx, allobs)

    def mutate(traces):
        out = []
        for k, tr in enumerate(traces):
            tr = json.loads(json.dumps(tr))
            evs = tr["events"]
            if k % 3 == 0:     # an ACK the library wrote becomes a NAK
                i = next((i for i, e in enumerate(evs) if e["d"] == "rx" and e["k"] == "ACK"), None)
                if i is None:
                    continue
                evs[i]["k"] = "NAK"
            elif k % 3 == 1:   # the send result is flipped; a given-up send gets one more attempt than retry + 1
                if not tr["results"]:
                    continue
                if tr["results"][0] == "failed":
                    i = next(i for i, e in enumerate(evs) if e["d"] == "closed")
                    evs.insert(i, dict(d="rx", k="ENQ", m=0, no=0, e=0, ok=True, dt_ms=200))
                else:
                    tr["results"][0] = "failed"
            else:              # a delivery too many
                if not tr["delivered"]:
                    continue
                tr["delivered"] = tr["delivered"] + tr["delivered"][-1:]
            tr["mut"] = k % 3
            out.append(tr)
        return out
    ntr1, rej1, _ = s1common.validate_traces(ctx, allobs, mutate=mutate)
    rejset = {json.dumps(t, sort_keys=True) for t, _ in rej1}
    for t in mutate([json.loads(l) for l in open(allobs) if '"e4trace"' in l]):
        if json.dumps(t, sort_keys=True) not in rejset:
            common.log("mutated trace ACCEPTED: mut=%d %s" % (t["mut"], common.short(t, 1500)))
    common.log("unmutated: %d traces, %d rejected; mutated: %d traces, %d rejected" % (ntr0, len(rej0), ntr1, len(rej1)))
    return ntr0 > 10 and not rej0 and ntr1 > 5 and len(rej1) == ntr1
