"""C19 — linktest drops dead links in bounded probes and never drops a link showing life.

impl/LinktestLoop.tla transcribes runLinktest (integer time) with the two pure accounting rules; TLC checks,
for threshold 1..3 and suppression on/off, that a drop needs `threshold` consecutive counted timeouts, that a
silent peer is dropped at exactly that point, that (suppression on) nothing is dropped while a reply is
outstanding or a frame arrived since the probe, that no probe is sent while suppressed, and that (suppression
off) every timeout counts.  The exported real rules are compared with the transcription on the full 0..5 grid
(binding B1), and seven peer personalities x threshold x suppression are played against a live connection and
judged on the counts the raw peer saw (binding B2)."""
import json, os
from . import common


def run(ctx):
    work = common.stage_spec(os.path.join(ctx.tmp, "spec-lt"))
    states = trans = 0
    mcs = {}
    cfgs = ["MC_Linktest_TRUE_2", "MC_Linktest_FALSE_2", "MC_Linktest_FALSE_1", "MC_Linktest_FALSE_3"] if ctx.quick else \
           ["MC_Linktest_%s_%d" % (s, t) for s in ("TRUE", "FALSE") for t in (1, 2, 3)]
    for cfg in cfgs:
        r = common.run_tlc(work, "LinktestLoop", cfg=cfg + ".cfg", workers=10, timeout=1500)
        common.require_ok(r, cfg)
        states += r["distinct"]; trans += r["generated"]
        mcs[cfg] = r["distinct"]
    obs = os.path.join(ctx.tmp, "c19.ndjson")
    ctx.run_vh(["c19", "--out", obs], timeout=1200)
    res = common.oracle_pass(ctx, obs, "OracleLinktest", nchunks=6, timeout=1200)
    lines = open(obs).read().splitlines()
    e2e = [json.loads(l) for l in lines if '"lte2e"' in l]
    noisy = [d for d in e2e if d["max_jitter_ms"] > 20]
    if len(noisy) > 3:
        raise common.Inconclusive("machine too noisy for the linktest timing scenarios (%d of %d disturbed after retries)" % (len(noisy), len(e2e)))
    for (ln, text, why) in res["rejections"]:
        d = json.loads(text)
        if d["t"] == "lte2e" and d["max_jitter_ms"] > 20:
            continue            # disturbed scenario: not judged
        sig = "c19:%s" % d["t"] if d["t"] != "lte2e" else "c19:%s:%s:th%d" % (d["persona"], "supp" if d["suppress"] else "nosupp", d["threshold"])
        ctx.violation("linktest observation rejected (%s): %s" % (sig, common.short(d, 400)),
                      dict(binding="B1 grid / B2 personalities", signature=sig, observation=d))
    ctx.cov.update(states=states, transitions=trans, traces_validated_against_impl=len(e2e),
                   evaluations=len(lines), distinct_nontrivial=len(lines),
                   rule="grid: every (suppress, recvNow, sentAt, inflight, fails, recvAtLastFail) in 0..5/0..2/0..3 for both pure rules (all distinct); "
                        "e2e: one live connection per (personality, suppression, threshold)",
                   model_states=mcs, e2e_scenarios=len(e2e), disturbed_scenarios=len(noisy), exhaustive=True,
                   samples=e2e[:3] + [json.loads(lines[10])], checker_cmd="tlc LinktestLoop (cfg per threshold/suppression); vh c19; tlc OracleLinktest")
    ctx.assumptions += ["interval 100 ms, T6 50 ms; scenarios disturbed by > 20 ms scheduler jitter are repeated (3x) and otherwise not judged",
                        "counts are taken by the raw peer; 'last sign of life' = last frame the peer sent"]


def selftest(ctx):
    obs = os.path.join(ctx.tmp, "c19.ndjson")
    ctx.run_vh(["c19", "--out", obs, "--e2e=false"], timeout=600)
    lines = open(obs).read().splitlines()
    i1 = next(i for i, l in enumerate(lines) if json.loads(l)["t"] == "ltstep" and i > 90)
    d = json.loads(lines[i1]); d["got_fails"] += 1; lines[i1] = json.dumps(d)
    lines.append(json.dumps(dict(t="lte2e", persona="silent", suppress=True, threshold=2, interval_ms=100, t6_ms=50, dropped=True, probes_total=3,
                                 probes_after_last_life=3, drop_ms=400, duration_ms=500, probes_near_traffic=0, probes_while_inflight=0,
                                 min_probe_gap_ms=150, max_probe_gap_ms=150, max_jitter_ms=0, state="NC", fault="")))
    open(obs, "w").write("\n".join(lines) + "\n")
    res = common.oracle_pass(ctx, obs, "OracleLinktest", nchunks=1)
    got = sorted(r[0] for r in res["rejections"])
    common.log("rejected", got)
    return got == [i1 + 1, len(lines)]
