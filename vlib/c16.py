"""C16 — constructors never panic, clamp not wrap; errored items never reach the wire.

fn/Ctor.tla states what a numeric constructor owes per argument (clamp to the nearest bound of the target width on
the mathematical value, on 9-byte magnitudes since TLC integers are 32-bit; F4 overflow on IEEE bit patterns);
trace/OracleCtor judges recorded calls.  The driver calls every numeric constructor and shortcut with each of ~70
boundary values (0, +-1, 2^7..2^64 +-1, 2^53+1, beyond 64 bits) in every Go integer type that can hold it, as scalar,
slice and decimal string, for every width incl. invalid ones, random mixed argument lists, float arguments, a
catalogue of unsupported Go types and unparsable strings; and takes errored items (top / child / grandchild, also
reached through a shared pointer) through Equal, NewDataMessage, Derive().Build, SendSECS2Message and four endpoint
send calls on a live Selected connection whose peer counts data frames."""
import json, os
from . import common


def run(ctx):
    obs = os.path.join(ctx.tmp, "c16.ndjson")
    ctx.run_vh(["c16", "--out", obs, "--seed", ctx.seed, "--n", 3000 if ctx.quick else 60000], timeout=1800)
    res = common.oracle_pass(ctx, obs, "OracleCtor", nchunks=12, timeout=2400)
    groups = {}
    n = ng = 0
    fam = {}
    distinct = set()
    for line in open(obs):
        d = json.loads(line)
        if d["t"] == "ctor":
            n += 1
            fam[d["family"]] = fam.get(d["family"], 0) + 1
            distinct.add((d["family"], d["w"], d["via"], tuple((a["gt"], a["form"], tuple(tuple(v["mag"]) + (v["neg"],) for v in a["vals"])) for a in d["args"])))
        else:
            ng += 1
    for (ln, text, why) in res["rejections"]:
        d = json.loads(text)
        if d["t"] == "ctor":
            sig = "c16:ctor:%s:%s%s:%s" % (why, d["family"], d["w"], "+".join(sorted({a["gt"] for a in d["args"]})))
        else:
            sig = "c16:errgate:%s:%s%s" % (why, d["where"], ":shared" if d["shared_pointer"] else "")
        g = groups.setdefault(sig, dict(n=0, first=d))
        g["n"] += 1
    for sig, g in sorted(groups.items()):
        ctx.violation("constructor / errored-item observation rejected (%s), %d case(s): %s" % (sig, g["n"], common.short(g["first"], 500)),
                      dict(binding="B4 spec-as-oracle", signature=sig, occurrences=g["n"], observation=g["first"]))
    ctx.cov.update(states=res["states"], transitions=res["transitions"], traces_validated_against_impl=ng,
                   evaluations=n + ng, distinct_nontrivial=len(distinct) + ng,
                   rule="one evaluation = one constructor call (family x width x via x argument list) or one errored item taken through every gate; "
                        "distinct = distinct (family, width, via, Go types, forms, values)",
                   samples=[common.short(json.loads(l), 400) for l in (open(obs).readline(),)] + [common.short(g["first"], 300) for g in list(groups.values())[:2]],
                   ctor_calls=n, by_family=fam, errored_item_cases=ng, exhaustive=False,
                   checker_cmd="vh c16; tlc OracleCtor")
    ctx.assumptions += ["a negative argument to an unsigned item, an integer beyond 2^53 to a float item and an out-of-range binary value may be "
                        "reported as a deferred error (the documented behaviour) or clamped; wrapping is rejected either way",
                        "float64 -> float32 narrowing and decimal-literal -> float64 rounding are taken from the Go language (harness side)"]


def selftest(ctx):
    obs = os.path.join(ctx.tmp, "c16.ndjson")
    ctx.run_vh(["c16", "--out", obs, "--n", 50], timeout=600)
    lines = open(obs).read().splitlines()
    i1 = next(i for i, l in enumerate(lines) if '"family":"I"' in l and '"w":1,' in l and '"uint8"' in l and json.loads(l)["args"][0]["vals"][0]["mag"][8] == 200)
    d = json.loads(lines[i1]); d["got"] = [[0, 0, 0, 0, 0, 0, 0, 200]]; lines[i1] = json.dumps(d)       # wrapped instead of clamped
    i2 = next(i for i, l in enumerate(lines) if '"errgate"' in l and '"shared_pointer":true' in l)
    d = json.loads(lines[i2]); d["equal_self"] = True; lines[i2] = json.dumps(d)
    i3 = next(i for i, l in enumerate(lines) if '"errgate"' in l and i != i2)
    d = json.loads(lines[i3]); d["frames_on_wire"] = 1; lines[i3] = json.dumps(d)
    open(obs, "w").write("\n".join(lines) + "\n")
    res = common.oracle_pass(ctx, obs, "OracleCtor", nchunks=1)
    got = sorted(r[0] for r in res["rejections"])
    common.log("rejected", got, [r[2] for r in res["rejections"]])
    return got == sorted([i1 + 1, i2 + 1, i3 + 1])
