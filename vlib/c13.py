"""C13 — strict SML encoding and strict parsing are mutual inverses on messages.

fn/SmlText.tla renders a message under every encoder option (strict ASCII as quoted runs + 0xHH tokens with quote,
backslash and '>' escaped; quote style; S/F quote style; indent unit; binary style); E5Codec item equality up to
NaN payloads and the localized-string header is the notion of 'equal body'.  The driver encodes each message of
the population (ASCII leaves over all 256 byte values incl. every single byte alone / between / before printable
characters; numeric extremes, NaN, +-Inf, -0; nesting; empty items; JIS-8 / localized text restricted as the
property says) with the strict encoder under sampled option combinations (the special items under all quote x
binary styles), parses the text with ParseStrict and projects the result.  OracleSml requires: text = reference
text (float/localized-free messages), exactly one message, same S/F/W, equal body, and DataMessage.Equal agreeing.
Second clause: grammar-directed random SML texts (valid + mutated); every text ParseStrict accepts is re-encoded
(strict) and re-parsed and must give equal messages."""
import json
from . import common, smlcommon


def run(ctx):
    allobs, lines, res = smlcommon.run(ctx, "rt,acc", 1200 if ctx.quick else 8000, passes=1 if ctx.quick else 3)
    smlcommon.report(ctx, res, lambda d: ("parse error %r on %r" % (d.get("parse_err"), smlcommon.text_of(d["text"]))) if d["t"] == "smlrt"
                     else "accepted text %r: %s" % (smlcommon.text_of(d["text"]), d.get("re_err")))
    rt = acc = 0
    opts = set()
    for l in lines:
        d = json.loads(l)
        if d["t"] == "smlrt":
            rt += 1
            opts.add((d["opts"]["quote"], d["opts"]["sfq"], tuple(d["opts"]["indent"]), d["opts"]["bin"]))
        elif d["accepted"] and d["in_scope"]:
            acc += 1
    ctx.cov.update(states=res["states"], transitions=res["transitions"], traces_validated_against_impl=0,
                   evaluations=rt + acc, distinct_nontrivial=rt + acc,
                   rule="one evaluation = one message encoded strictly under one option combination and parsed back, or one parser-accepted text re-encoded and re-parsed",
                   samples=[dict(opts=json.loads(lines[i])["opts"], text=smlcommon.text_of(json.loads(lines[i])["text"])) for i in (0, 700, 2000) if i < len(lines) and '"smlrt"' in lines[i]],
                   round_trips=rt, option_combinations=len(opts), accepted_texts=acc, exhaustive=False,
                   checker_cmd="vh sml --parts rt,acc; tlc OracleSml")
    ctx.assumptions += ["JIS-8 / localized text is drawn from printable characters without quote, backslash, angle brackets (the property's restriction); "
                        "accepted texts whose JIS-8 / localized leaves fall outside it are not judged"]


def selftest(ctx):
    allobs, lines, res0 = smlcommon.run(ctx, "rt,acc", 60)
    ds = [json.loads(l) for l in lines]
    i1 = next(i for i, d in enumerate(ds) if d["t"] == "smlrt" and d["msg"]["item"]["k"] == "A" and len(d["msg"]["item"]["v"]) > 2)
    ds[i1]["parsed"]["item"]["v"] = ds[i1]["parsed"]["item"]["v"][:-1]         # a byte lost on the way back
    i2 = next(i for i, d in enumerate(ds) if d["t"] == "smlrt" and i != i1)
    ds[i2]["parsed"]["w"] = not ds[i2]["parsed"]["w"]
    i3 = next(i for i, d in enumerate(ds) if d["t"] == "smlacc" and d["accepted"] and d["in_scope"] and d["second"])
    ds[i3]["second"] = ds[i3]["second"][:-1]
    open(allobs, "w").write("\n".join(json.dumps(d) for d in ds) + "\n")
    res = common.oracle_pass(ctx, allobs, "OracleSml", nchunks=1)
    got = sorted(r[0] for r in res["rejections"])
    common.log("rejected", got, [r[2] for r in res["rejections"]])
    return not res0["rejections"] and got == sorted([i1 + 1, i2 + 1, i3 + 1])
