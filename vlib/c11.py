"""C11 — after any link failure an open connection recovers to a working Selected session.

fn/Backoff.tla is the backoff schedule (integer microseconds, rational multiplier); the exported real
nextBackoffDelay is checked against it over a grid (binding B1). End to end, every exchange of a session
(TCP connect, Select.req, Select.rsp, inbound primary, reply to our primary, Linktest.req/rsp, idle) is cut
at byte offsets of its frame by peer close / RST / stall (the stall must be caught by T6, T7, T8, the write
timeout or the linktest), plus select rejection and 0..4 refused dials under three backoff configurations,
for active and passive endpoints; prop/Recovery.tla judges detection, dial timing against Backoff!Sleep,
dial count, recovery with a round trip in both directions, the reconnect counter, the reconnecting gauge
and silence after Close."""
import json, os
from . import common, s1common


def run(ctx):
    obs = os.path.join(ctx.tmp, "recov.ndjson")
    bo = os.path.join(ctx.tmp, "backoff.ndjson")
    ctx.run_vh(["backoff", "--out", bo], timeout=300)
    p = ctx.run_vh(["recov", "--seed", ctx.seed, "--stride", 3 if ctx.quick else 1, "--out", obs, "--par", 8], timeout=3000)
    stats = json.loads(p.stdout.strip().splitlines()[-1])
    allobs = os.path.join(ctx.tmp, "c11_all.ndjson")
    open(allobs, "w").write(open(bo).read() + open(obs).read())
    res = common.oracle_pass(ctx, allobs, "OracleRecovery", nchunks=8, timeout=2400)
    lines = open(obs).read().splitlines()
    classes, samples, distinct = {}, [], set()
    for i, line in enumerate(lines):
        d = json.loads(line)
        k = "%s/%s/%s" % (d["role"], d["fault"]["where"], d["fault"]["mode"])
        classes[k] = classes.get(k, 0) + 1
        distinct.add((d["role"], d["fault"]["where"], d["fault"]["mode"], d["fault"]["offset"], d["refused"], d["init_us"]))
        if i % max(1, len(lines) // 3) == 2 and len(samples) < 3:
            samples.append(d)
    groups = {}
    SETUP = ("could not establish the session before the fault", "no Select.req", "connect: ")
    disturbed = 0
    for (ln, text, why) in res["rejections"]:
        d = json.loads(text)
        if d["t"] != "backoff" and (d.get("max_jitter_ms", 0) > 30 or any(d.get("fault_msg", "").startswith(m) for m in SETUP)):
            disturbed += 1      # the harness could not set the scenario up, or the scheduler stalled it: not an observation of the property
            continue
        if d["t"] == "backoff":
            sig = "c11:BackoffStep"
            g = groups.setdefault(sig, dict(n=0, first=d, clause="BackoffStep"))
            g["n"] += 1
            continue
        for cl in (why or "").split("_"):
            sig = "c11:%s:%s:%s:%s" % (cl, d["role"], d["fault"]["where"], d["fault"]["mode"])
            g = groups.setdefault(sig, dict(n=0, first=d, clause=cl))
            g["n"] += 1
    if disturbed > max(3, len(lines) // 10):
        raise common.Inconclusive("%d of %d recovery scenarios could not be set up or were stalled by the scheduler (machine overloaded?)" % (disturbed, len(lines)))
    for sig, g in sorted(groups.items()):
        ctx.violation("recovery scenario rejected by prop/Recovery clause %s (%s), %d scenario(s); first: offset %s refused %s msg %r"
                      % (g["clause"], sig, g["n"], g["first"].get("fault", {}).get("offset"), g["first"].get("refused"), g["first"].get("fault_msg")),
                      dict(binding="B2 fault enumeration + acceptor", signature=sig, clause=g["clause"], occurrences=g["n"], scenario=g["first"]))
    # the SECS-I transport: the generation is lost (peer close with sends pending / a handler busy) and must come back Selected
    # and working; an active endpoint's reconnect counter moves by exactly one per successful re-dial
    s1obs = s1common.record(ctx, "gen", passes=1 if ctx.quick else 6)
    s1lines, s1rejs, _ = s1common.judge(ctx, s1obs, ("e4gen",))
    s1g = {}
    for d, why in s1rejs:
        if why in ("GenNoNextGeneration", "GenFreshSendLost", "RecReconnectCounterNotOnePerRedial"):
            g = s1g.setdefault("c11:secs1:%s:%s" % (why, d["mode"]), dict(n=0, first=d))
            g["n"] += 1
    for sig, g in sorted(s1g.items()):
        ctx.violation("SECS-I connection did not recover after losing its generation (%s), %d scenario(s): %s" % (sig, g["n"], common.short(g["first"], 500)),
                      dict(binding="B2 E4 reference peer + OracleE4", signature=sig, occurrences=g["n"], observation=g["first"]))
    nbo = len(open(bo).read().splitlines())
    ctx.cov.update(states=res["states"], transitions=res["transitions"], traces_validated_against_impl=len(lines),
                   evaluations=len(lines) + nbo, distinct_nontrivial=len(distinct),
                   rule="one evaluation = one fault scenario on a live connection (or one backoff grid point); distinct = distinct "
                        "(role, exchange, fault mode, byte offset, refused dials, backoff config); all non-trivial (each must detect, re-dial on schedule and recover)",
                   fault_classes=classes, backoff_grid_points=nbo, harness_faults=stats["faults"], disturbed_scenarios_not_judged=disturbed, secs1_recovery_scenarios=len(s1lines), byte_offset_stride=3 if ctx.quick else 1,
                   exhaustive=False, samples=samples, checker_cmd="vh backoff; vh recov; tlc OracleRecovery")
    ctx.assumptions += ["timers scaled down: T5 60..200 ms, initial backoff 15..40 ms, T6 150 ms, T7 200 ms, T8 100 ms, linktest 60 ms, write timeout 150 ms",
                        "dial-gap lower bound = schedule - 2 ms; upper bound = schedule + 200 ms + jitter",
                        "HSMS-SS transport; SECS-I recovery is exercised by the C18 retry-exhaustion scenarios"]


def selftest(ctx):
    obs = os.path.join(ctx.tmp, "recov.ndjson")
    ctx.run_vh(["recov", "--seed", 3, "--stride", 9, "--out", obs, "--par", 8], timeout=1200)
    res0 = common.oracle_pass(ctx, obs, "OracleRecovery", nchunks=1)
    base = set(r[0] for r in res0["rejections"])
    lines = open(obs).read().splitlines()
    i1 = next(i for i, l in enumerate(lines) if i + 1 not in base and json.loads(l)["role"] == "active" and len(json.loads(l)["dials_us"]) >= 3)
    d = json.loads(lines[i1]); d["dials_us"][2] = d["dials_us"][1] + 1000; lines[i1] = json.dumps(d)
    i2 = next(i for i, l in enumerate(lines) if i + 1 not in base and i != i1 and json.loads(l)["role"] == "active")
    d = json.loads(lines[i2]); d["reconnects_delta"] += 1; lines[i2] = json.dumps(d)
    open(obs, "w").write("\n".join(lines) + "\n")
    res = common.oracle_pass(ctx, obs, "OracleRecovery", nchunks=1)
    got = {r[0]: r[2] for r in res["rejections"] if r[0] not in base}
    common.log("new rejections:", got, "expected", i1 + 1, i2 + 1)
    return "RecBackoffFloor" in got.get(i1 + 1, "") and "RecCounter" in got.get(i2 + 1, "")
