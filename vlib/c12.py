"""C12 — items and messages are immutable, alias-free and safe for concurrent readers.

impl/LazyBody.tla models the lazy decode / encode shared by a message and its re-stamped copies behind sync.Once
(done flag, mutex, two-step decode); TLC checks for 4 concurrent callers that the decode runs at most once, that no
caller observes a half-built result and that all callers get the same object, and terminates (the unsynchronised
variant UseOnce=FALSE violates them, which keeps the invariants honest).  On the code: (alias) every slice-typed
constructor argument shape (all Go numeric slice types x widths x 1/2/3/40 elements, []bool, []byte, []string,
[]Item, alone and mixed with scalars), the copying decoders (secs2.Decode, DecodeHSMSMessage, DecodeHSMSPayload,
before and after the lazy body decode) and every accessor / serializer / append helper returning a slice or array
(ToBytes, AppendTo incl. spare capacity, ToInt/ToUint/ToFloat/ToBinary/ToBoolean/ToList, ItemAt outputs,
SystemBytes, HeaderBytes, AppendBodyTo, outputs of re-stamped and derived copies) are scribbled on between two
complete observations of the item / message, which must be identical; (conc) a harness built with the Go race
detector lets 12 goroutines perform the FIRST observations of fresh constructed items, constructed messages and
decoded messages with their re-stamped copies simultaneously: each must equal the sequential observation of a
twin, every caller and copy must receive the same decoded body object, and the race detector must stay silent."""
import json, os, re
from . import common


def run(ctx):
    work = common.stage_spec(os.path.join(ctx.tmp, "spec-lazy"))
    mc = common.run_tlc(work, "LazyBody", cfg="MC_LazyBody.cfg", workers=4, timeout=600)
    common.require_ok(mc, "MC LazyBody")
    naive = common.run_tlc(work, "LazyBody", cfg="MC_LazyBody_naive.cfg", workers=2, timeout=600)
    if not naive["invariant"]:
        raise common.Inconclusive("the unsynchronised LazyBody variant is not rejected: the model's invariants are vacuous")
    # the same three invariants for ANY set of callers: a TLAPS proof (inductive invariant + PTL step) over impl/LazyBody
    pr = common.run_tlapm(work, "LazyBodyProof", timeout=900)
    if not pr["ok"]:
        raise common.Inconclusive("the TLAPS proof of the Once protocol no longer checks (%d of %d obligations): the model or the proof was changed" % (pr["proved"], pr["obligations"]))
    obs = os.path.join(ctx.tmp, "c12.ndjson")
    n = 150 if ctx.quick else 1500
    ctx.run_vh(["c12", "--out", obs, "--seed", ctx.seed, "--n", n, "--parts", "alias"], timeout=2400)
    # the concurrent part runs under the race detector; exit code 66 = a data race was reported
    obs2 = os.path.join(ctx.tmp, "c12c.ndjson")
    p = ctx.run_vh(["c12", "--out", obs2, "--seed", ctx.seed, "--n", 120 if ctx.quick else 1200, "--parts", "conc"], timeout=3000, check=False, race=True,
                   env={"GORACE": "halt_on_error=0 exitcode=66"})
    races = re.findall(r"WARNING: DATA RACE\n(?:.*\n){0,40}?={18}", p.stderr or "")
    nraces = (p.stderr or "").count("WARNING: DATA RACE")
    if p.returncode not in (0, 66):
        raise common.Inconclusive("vh c12 (race build) failed (%d): %s" % (p.returncode, (p.stderr or "")[-1500:]))
    with open(obs, "a") as f:
        if os.path.exists(obs2):
            f.write(open(obs2).read())
    res = common.oracle_pass(ctx, obs, "OracleAlias", nchunks=8, timeout=1800)
    lines = open(obs).read().splitlines()
    groups = {}
    for (ln, text, why) in res["rejections"]:
        d = json.loads(text)
        subj = re.sub(r"#\d+", "", d["subject"])
        subj = re.sub(r" x\d+", "", subj)
        sig = "c12:%s:%s:%s" % (why, subj[:60], d.get("step", "")[:50])
        g = groups.setdefault(sig, dict(n=0, first=d))
        g["n"] += 1
    for sig, g in sorted(groups.items()):
        ctx.violation("immutability observation rejected (%s), %d case(s): %s" % (sig, g["n"], common.short(g["first"], 500)),
                      dict(binding="B4 differential observation judged by OracleAlias", signature=sig, occurrences=g["n"], observation=g["first"]))
    if nraces:
        m = re.search(r"WARNING: DATA RACE\n((?:.*\n){1,30})", p.stderr)
        frames = re.findall(r"github.com/arloliu/go-secs/v2/([\w/.()*]+)", m.group(1) if m else "")
        sig = "c12:DataRace:%s" % (frames[0] if frames else "?")
        ctx.violation("the Go race detector reported %d data race(s) among concurrent readers; first: %s" % (nraces, (m.group(1) if m else "")[:600]),
                      dict(binding="race detector on concurrent first observations", signature=sig, occurrences=nraces, report=(m.group(0) if m else "")[:4000]))
    nalias = sum(1 for l in lines if '"alias"' in l)
    nconc = len(lines) - nalias
    steps = {json.loads(l)["step"] for l in lines if '"alias"' in l}
    ctx.cov.update(states=mc["distinct"] + res["states"], transitions=mc["generated"], traces_validated_against_impl=nconc,
                   model=dict(module="impl/LazyBody", callers=4, distinct_states=mc["distinct"], invariants="AtMostOnce NoTornRead SameForAll", liveness="AllReturn",
                              unsynchronised_variant="violates %s" % naive["invariant"],
                              tlaps_proof=dict(module="proof/LazyBodyProof", theorem="Spec => [](AtMostOnce /\\ NoTornRead /\\ SameForAll) for any set of callers",
                                               obligations=pr["obligations"], discharged=pr["proved"])),
                   evaluations=nalias + nconc, distinct_nontrivial=nalias + nconc,
                   rule="one evaluation = one caller-side mutation bracketed by two full observations, or one 12-goroutine first-observation burst; "
                        "distinct = distinct (subject, mutation step)",
                   samples=[json.loads(lines[i]) for i in (0, nalias // 2, len(lines) - 1)], mutation_steps=len(steps), alias_cases=nalias, concurrent_bursts=nconc, data_races=nraces, exhaustive=False,
                   checker_cmd="tlc LazyBody; vh c12 --parts alias; vh-race c12 --parts conc; tlc OracleAlias")
    ctx.assumptions += ["goroutine interleavings are sampled by the Go scheduler under the race detector, not enumerated; the model covers all interleavings of the Once protocol",
                        "DecodeOwned* entry points take ownership of the buffer by contract and are not mutated"]


def selftest(ctx):
    obs = os.path.join(ctx.tmp, "c12.ndjson")
    ctx.run_vh(["c12", "--out", obs, "--n", 10], timeout=600)
    lines = open(obs).read().splitlines()
    i1 = next(i for i, l in enumerate(lines) if '"alias"' in l and "NewFloatItem(8" in l)
    d = json.loads(lines[i1]); d["same"] = False; lines[i1] = json.dumps(d)
    i2 = next(i for i, l in enumerate(lines) if '"conc"' in l and "decoded message" in l)
    d = json.loads(lines[i2]); d["distinct_item_pointers"] = 2; lines[i2] = json.dumps(d)
    i3 = next(i for i, l in enumerate(lines) if '"conc"' in l and i != i2)
    d = json.loads(lines[i3]); d["mismatches"] = 1; lines[i3] = json.dumps(d)
    open(obs, "w").write("\n".join(lines) + "\n")
    res = common.oracle_pass(ctx, obs, "OracleAlias", nchunks=1)
    got = sorted(r[0] for r in res["rejections"])
    common.log("rejected", got, [r[2] for r in res["rejections"]])
    return got == sorted([i1 + 1, i2 + 1, i3 + 1])
