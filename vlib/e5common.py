"""Pieces shared by the E5-based checks (C01, C02, C15, ...)."""
import json, os
from . import common
from .common import Inconclusive


def generate_cases(ctx):
    """Run the TLC generator: writes e5_cases/e5_rl/e5_deepbad.ndjson into ctx.tmp and
    model-checks the self-consistency of the transcription over the enumerated cases."""
    work = common.stage_spec(os.path.join(ctx.tmp, "spec-gen"))
    res = common.run_tlc(work, "E5GenOut", cfg="E5GenOut.cfg", workers=8, env={"VERIF_OUT": ctx.tmp}, timeout=600)
    common.require_ok(res, "E5GenOut")
    for f in ("e5_cases.ndjson", "e5_rl.ndjson", "e5_deepbad.ndjson"):
        if not os.path.exists(os.path.join(ctx.tmp, f)):
            raise Inconclusive("generator did not write " + f)
    return res
