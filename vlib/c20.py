"""C20 — connection metrics conserve: gauges return to zero and counters match the wire.
See vlib/txncommon.py; this check reports the Met* clauses of prop/Txn."""
import json
from . import txncommon


def run(ctx):
    if ctx.quick:
        txncommon.run(ctx, 48, "plain,cancel,stall,b2,drop,close,gen,plain", par=4)
    else:
        txncommon.run(ctx, 240, "plain,cancel,stall,b2,drop,close,gen,plain", par=4, passes=3)


def selftest(ctx):
    def mutate(lines, base):
        for i, l in enumerate(lines):
            d = json.loads(l)
            if i + 1 in base or d["kind"] != "plain":
                continue
            d["m1"]["Send"] += 1
            lines[i] = json.dumps(d)
            return (i + 1, "MetSendMatchesWire")
    return txncommon.selftest(ctx, mutate)
