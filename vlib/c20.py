"""C20 — connection metrics conserve: gauges return to zero and counters match the wire.
See vlib/txncommon.py; this check reports the Met* clauses of prop/Txn."""
import json
from . import common, txncommon, s1common


def run(ctx):
    if ctx.quick:
        txncommon.run(ctx, 48, "plain,cancel,stall,b2,drop,close,gen,plain", par=4)
    else:
        txncommon.run(ctx, 240, "plain,cancel,stall,b2,drop,close,gen,plain", par=4, passes=3)
    secs1(ctx)
    cold(ctx)


def cold(ctx):
    """the reconnecting gauge on a cold start (Open while the peer refuses 0, 1, 2, 4 dials)"""
    import os
    obs = os.path.join(ctx.tmp, "cold.ndjson")
    ctx.run_vh(["cold", "--out", obs, "--reps", 2 if ctx.quick else 8], timeout=900)
    res = common.oracle_pass(ctx, obs, "OracleGauge", nchunks=1, timeout=600)
    faults, groups = 0, {}
    for (ln, text, why) in res["rejections"]:
        d = json.loads(text)
        if why == "HarnessFault":
            faults += 1
            continue
        g = groups.setdefault("c20:cold:%s" % why, dict(n=0, first=d))
        g["n"] += 1
    for sig, g in sorted(groups.items()):
        ctx.violation("reconnecting gauge on a cold start (%s), %d scenario(s): %s" % (sig, g["n"], common.short(g["first"], 500)),
                      dict(binding="B2 scripted peer + OracleGauge", signature=sig, occurrences=g["n"], observation=g["first"]))
    if faults > res["lines"] // 2:
        raise common.Inconclusive("cold-start scenarios could not be set up (%d of %d)" % (faults, res["lines"]))
    ctx.cov["cold_start_gauge_scenarios"] = res["lines"] - faults
    ctx.cov["traces_validated_against_impl"] = ctx.cov.get("traces_validated_against_impl", 0) + res["lines"] - faults


def secs1(ctx):
    """the SECS-I transport: two no-W sends, an answered and an unanswered W send (T3; the equipment adds its S9F9), two inbound
    messages (one of two blocks), then a drop and a relink -- counters against what the E4 reference peer counted, gauges at
    both quiescent points; all four role / mode combinations per pass"""
    allobs = s1common.record(ctx, "met", passes=2 if ctx.quick else 8)
    lines, rejs, res = s1common.judge(ctx, allobs, ("e4met",))
    groups = {}
    for d, why in rejs:
        if why == "HarnessFault":
            continue
        g = groups.setdefault("c20:secs1:%s" % why, dict(n=0, first=d))
        g["n"] += 1
    for sig, g in sorted(groups.items()):
        ctx.violation("SECS-I metrics scenario rejected (%s), %d scenario(s): %s" % (sig, g["n"], common.short(g["first"], 600)),
                      dict(binding="B2 E4 reference peer + OracleE4 Met* clauses", signature=sig, occurrences=g["n"], observation=g["first"]))
    ctx.cov["secs1_metric_scenarios"] = len(lines)
    ctx.cov["traces_validated_against_impl"] = ctx.cov.get("traces_validated_against_impl", 0) + len(lines)


def selftest(ctx):
    def mutate(lines, base):
        for i, l in enumerate(lines):
            d = json.loads(l)
            if i + 1 in base or d["kind"] != "plain":
                continue
            d["m1"]["Send"] += 1
            lines[i] = json.dumps(d)
            return (i + 1, "MetSendMatchesWire")
    return txncommon.selftest(ctx, mutate)
