"""C06 — every reply-expected send gets exactly its own reply or one definite error.
See vlib/txncommon.py; this check reports the Txn* clauses of prop/Txn."""
import json
from . import txncommon


def run(ctx):
    if ctx.quick:
        txncommon.run(ctx, 56, "plain,cancel,lt,stall,close,edge,drop,gen", par=4, edge_n=100)
    else:
        txncommon.run(ctx, 280, "plain,cancel,lt,stall,close,edge,drop,gen", par=4, passes=3, edge_n=600)


def selftest(ctx):
    def mutate(lines, base):
        for i, l in enumerate(lines):
            d = json.loads(l)
            if i + 1 in base:
                continue
            for c in d["calls"]:
                if c["outcome"] == "reply":
                    c["rsb"][3] ^= 1
                    lines[i] = json.dumps(d)
                    return (i + 1, "TxnOwnReply")
    return txncommon.selftest(ctx, mutate) and txncommon.selftest_traces(ctx)
