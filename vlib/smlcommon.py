"""Shared by C13 / C14 / C15: run the SML driver (vh sml) and judge its recordings with trace/OracleSml
(reference renderer fn/SmlText + E5Codec item equality)."""
import json, os
from . import common

KINDS = {"C13": ("smlrt", "smlacc"), "C14": ("smltotal", "smlconc"), "C15": ("smlrender",)}


def run(ctx, parts, n, big=1 << 18, passes=1):
    pid = ctx.pid
    allobs = os.path.join(ctx.tmp, "sml_all.ndjson")
    with open(allobs, "w") as out:
        for k in range(passes):
            obs = os.path.join(ctx.tmp, "sml_%d.ndjson" % k)
            ctx.run_vh(["sml", "--out", obs, "--seed", ctx.seed * 100 + k, "--parts", parts, "--n", n, "--big", big], timeout=3000)
            out.write(open(obs).read())
    res = common.oracle_pass(ctx, allobs, "OracleSml", nchunks=12, timeout=3000)
    lines = open(allobs).read().splitlines()
    return allobs, lines, res


def sig_of(pid, d, why):
    t = d["t"]
    if t == "smltotal":
        return "%s:%s:%s:%s" % (pid.lower(), why, d["gen"], d["mode"])
    if t == "smlrt":
        return "%s:%s:q%d:%s" % (pid.lower(), why, d["opts"]["quote"], d["opts"]["bin"])
    if t == "smlacc":
        return "%s:%s:%s" % (pid.lower(), why, d["gen"])
    if t == "smlrender":
        return "%s:%s:%s" % (pid.lower(), why, d["origin"].split(":")[0])
    return "%s:%s" % (pid.lower(), why)


def report(ctx, res, brief):
    groups = {}
    for (ln, text, why) in res["rejections"]:
        d = json.loads(text)
        if d["t"] not in KINDS[ctx.pid]:
            continue
        sig = sig_of(ctx.pid, d, why)
        g = groups.setdefault(sig, dict(n=0, first=d))
        g["n"] += 1
    for sig, g in sorted(groups.items()):
        ctx.violation("SML observation rejected by OracleSml (%s), %d case(s): %s" % (sig, g["n"], brief(g["first"])),
                      dict(binding="B4 spec-as-oracle", signature=sig, occurrences=g["n"], observation=g["first"]))


def text_of(ints, limit=160):
    return bytes(ints[:limit]).decode("latin-1")
