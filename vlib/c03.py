"""C03 — HSMS messages serialize to exact SEMI E37 frames and decode back unchanged.

spec/fn/HsmsFrame.tla (E37 header/frame layout, control-message tables, re-stamp rules)
composed with E5Codec (body bytes) is the reference. The real hsms constructors, serializer,
decoder and re-stamp/derive helpers are driven over the landmark product (stream x function
x W x session id x system bytes x body) and all nine control kinds x status bytes, plus
seeded random messages; TLC (OracleHsms) judges every recorded line."""
import json, os
from . import common


def record(ctx, obs, full, nrand):
    args = ["c03", "--rand", nrand, "--seed", ctx.seed, "--out", obs, "--wire", 300 if not full else 3000]
    if full:
        args.append("--full")
    ctx.run_vh(args, timeout=1800)


def run(ctx):
    obs = os.path.join(ctx.tmp, "c03_obs.ndjson")
    record(ctx, obs, not ctx.quick, 400 if ctx.quick else 6000)
    res = common.oracle_pass(ctx, obs, "OracleHsms", nchunks=12, timeout=2400)
    distinct, classes, samples = set(), {}, []
    with open(obs) as f:
        for i, line in enumerate(f):
            d = json.loads(line)
            if d["t"] == "c03w":
                key = ("w", d["prov"], d["path"], tuple(d["frame"][:24]))
                cls = "wire:" + d["prov"]
            elif d["t"] == "c03d":
                key = ("d", d["s"], d["f"], d["w"], d["sid"], tuple(d["sb"]), json.dumps(d["item"], sort_keys=True), d["ctor"])
                cls = "data:" + d["ctor"] + (":ok" if d["ctor_ok"] else ":refused")
            else:
                key = ("c", d["kind"], d["sid"], d["status"], tuple(d["sb"]), tuple(d["ref"]))
                cls = "ctl:" + d["kind"]
            distinct.add(key)
            classes[cls] = classes.get(cls, 0) + 1
            if i % max(1, res["lines"] // 5) == 2 and len(samples) < 6:
                samples.append(common.short(d, 500))
    for (ln, text, inv) in res["rejections"]:
        d = json.loads(text) if text.startswith("{") else {}
        sig = "c03:%s:%s" % (d.get("t"), d.get("kind", d.get("ctor")))
        ctx.violation("real hsms behaviour rejected by HsmsFrame reference at observation %d: %s" % (ln, common.short(text, 400)),
                      dict(binding="B4 oracle", observation_line=ln, observation=d, signature=sig))
    ctx.cov.update(states=res["states"], transitions=res["transitions"], traces_validated_against_impl=res["lines"],
                   evaluations=res["lines"], distinct_nontrivial=len(distinct),
                   rule="one observation = one message construction (+serialize, decode, re-serialize, Equal, 2-3 re-stamp/derive steps); "
                        "distinct = distinct (constructor, fields, body) tuples; all are non-trivial (every one is compared byte for byte)",
                   classes=classes, exhaustive=False, samples=samples,
                   checker_cmd="vh c03; tlc OracleHsms")
    ctx.assumptions += ["SEMI E37 header layout and control tables as transcribed in spec/fn/HsmsFrame.tla",
                        "socket bytes are compared for messages forwarded through one live passive connection over loopback TCP"]


def selftest(ctx):
    obs = os.path.join(ctx.tmp, "c03_obs.ndjson")
    record(ctx, obs, False, 20)
    lines = open(obs).read().splitlines()
    i1 = [i for i, l in enumerate(lines) if json.loads(l)["t"] == "c03d" and json.loads(l)["ctor_ok"]][10]
    d = json.loads(lines[i1]); d["frame"][6] ^= 0x80; lines[i1] = json.dumps(d)
    i2 = [i for i, l in enumerate(lines) if json.loads(l)["t"] == "c03c" and json.loads(l)["kind"] == "SelectRsp"][3]
    d = json.loads(lines[i2]); d["hdr"][3] ^= 1; lines[i2] = json.dumps(d)
    open(obs, "w").write("\n".join(lines) + "\n")
    res = common.oracle_pass(ctx, obs, "OracleHsms", nchunks=1)
    got = sorted(r[0] for r in res["rejections"])
    common.log("rejected lines:", got, "expected", [i1 + 1, i2 + 1])
    return got == [i1 + 1, i2 + 1]
