"""Shared plumbing for /verif/vcheck: scratch dirs, Go harness build, TLC runs,
the spec-as-oracle pass, evidence files, known findings, verdict/exit codes."""
import json, os, re, shutil, subprocess, sys, tempfile, time, glob, hashlib

VERIF = os.path.dirname(os.path.dirname(os.path.abspath(__file__)))
REPO = "/repo"
SPEC = os.path.join(VERIF, "spec")
HARNESS = os.path.join(VERIF, "harness")
EVIDENCE = os.path.join(VERIF, "evidence")
OUT = os.path.join(VERIF, "out")
REPLAY = os.path.join(OUT, "replay")
GO = "go1.26"

GOENV = dict(GOFLAGS="-mod=mod", GOPROXY="off", GOSUMDB="off", GOTOOLCHAIN="local",
             CGO_ENABLED="0")


class Inconclusive(Exception):
    """Harness/tool fault: exit 2, never a violation."""


def log(*a):
    print(*a, file=sys.stderr, flush=True)


def goenv(extra=None):
    e = dict(os.environ)
    e.update(GOENV)
    if extra:
        e.update(extra)
    return e


class Ctx:
    """One check run: property id, tier, seed, scratch dir, timers, result accumulation."""

    def __init__(self, pid, tier, seed):
        self.pid, self.tier, self.seed = pid, tier, seed
        self.t0 = time.time()
        self.tmp = tempfile.mkdtemp(prefix="verif-%s-" % pid.lower())
        self.violations = []      # list of dict(what=..., replay=path)
        self.known = []           # known findings hit
        self.cov = {}             # coverage dict for evidence
        self.assumptions = []
        self.level = "model_checking"
        self._vh = None
        self.quick = tier == "quick"

    def cleanup(self):
        shutil.rmtree(self.tmp, ignore_errors=True)

    # ---- Go harness ----
    def vh(self):
        if self._vh is None:
            self._vh = build_vh(self.tmp)
        return self._vh

    def run_vh(self, args, timeout=900, env=None, check=True, race=False):
        exe = self.vh() if not race else build_vh(self.tmp, race=True)
        p = subprocess.run([exe] + [str(a) for a in args], capture_output=True, text=True,
                           timeout=timeout, env=goenv(env), cwd=self.tmp)
        if check and p.returncode != 0:
            raise Inconclusive("vh %s failed (%d): %s" % (args[0], p.returncode, (p.stderr or p.stdout)[-2000:]))
        return p

    # ---- verdicts ----
    def violation(self, what, detail):
        os.makedirs(REPLAY, exist_ok=True)
        n = len(self.violations) + 1
        path = os.path.join(REPLAY, "%s-%s-%d.json" % (self.pid, self.tier, n))
        sig = detail.get("signature", "")
        kf = match_known(self.pid, sig, detail)
        if kf is not None:
            self.known.append(kf)
            return
        with open(path, "w") as f:
            json.dump(dict(property=self.pid, tier=self.tier, seed=self.seed, what=what, **detail), f, indent=1, default=str)
        self.violations.append(dict(what=what, replay=path, signature=sig))

    def finish(self):
        wall = time.time() - self.t0
        cov = dict(self.cov)
        ev = dict(property_id=self.pid, tier=self.tier, seed=self.seed, level=self.level,
                  coverage=cov, assumptions=self.assumptions, wall_s=round(wall, 2),
                  violations=len(self.violations))
        if self.known:
            ev["known_findings_hit"] = sorted(set(k["id"] for k in self.known))
        os.makedirs(EVIDENCE, exist_ok=True)
        with open(os.path.join(EVIDENCE, self.pid + ".json"), "w") as f:
            json.dump(ev, f, indent=1, default=str)
        seen = set()
        for k in self.known:
            if k["id"] not in seen:
                seen.add(k["id"])
                print("KNOWN-FINDING: property=%s %s" % (self.pid, k["what"]))
        for v in self.violations:
            print("VIOLATION property=%s replay=%s" % (self.pid, v["replay"]))
            log("  ", v["what"])
        return 1 if self.violations else 0


def build_vh(tmp, race=False):
    """Rebuild the harness binary from /repo's CURRENT working tree (replace => /repo)."""
    shutil.copyfile(os.path.join(REPO, "go.sum"), os.path.join(HARNESS, "go.sum"))
    exe = os.path.join(tmp, "vh-race" if race else "vh")
    cmd = [GO, "build", "-tags", "verif"]
    env = goenv()
    if race:
        cmd.append("-race")
        env["CGO_ENABLED"] = "1"
    cmd += ["-o", exe, "./cmd/vh"]
    p = subprocess.run(cmd, cwd=HARNESS, capture_output=True, text=True, env=env, timeout=900)
    if p.returncode != 0:
        raise Inconclusive("harness build failed:\n" + p.stderr[-4000:])
    return exe


# ---------------------------------------------------------------- TLC

def stage_spec(dst):
    """Copy every TLA+ module and cfg (flat) into dst."""
    os.makedirs(dst, exist_ok=True)
    for sub in ("fn", "prop", "impl", "trace", "mc", "proof"):
        for p in glob.glob(os.path.join(SPEC, sub, "*")):
            if p.endswith((".tla", ".cfg")):
                shutil.copy(p, dst)
    return dst


_RE_STATES = re.compile(r"(\d+) states generated, (\d+) distinct states found, (\d+) states left")
_RE_DEPTH = re.compile(r"The depth of the complete state graph search is (\d+)")
_RE_INV = re.compile(r"Error: Invariant (\S+) is violated")
_RE_PROP = re.compile(r"Error: (Action property|Temporal properties?) (.*?) (is|were) violated")


def run_tlc(workdir, module, cfg=None, workers=1, env=None, timeout=600, extra=(), deque=False, xss="512m", heap=None):
    meta = tempfile.mkdtemp(prefix="meta-", dir=workdir)
    cmd = ["tlc", "-workers", str(workers), "-metadir", meta, "-noGenerateSpecTE"]
    if cfg:
        cmd += ["-config", cfg]
    cmd += list(extra) + [module]
    e = dict(os.environ)
    jto = "-Xss%s" % xss
    if heap:
        jto += " -Xmx%s" % heap
    if deque:
        jto += " -Dtlc2.tool.queue.IStateQueue=StateDeque"
    e["JAVA_TOOL_OPTIONS"] = jto
    if env:
        e.update({k: str(v) for k, v in env.items()})
    t0 = time.time()
    try:
        p = subprocess.run(cmd, cwd=workdir, capture_output=True, text=True, env=e, timeout=timeout)
    except subprocess.TimeoutExpired:
        subprocess.run(["pkill", "-f", meta], capture_output=True)
        raise Inconclusive("TLC timeout (%ss) on %s" % (timeout, module))
    finally:
        shutil.rmtree(meta, ignore_errors=True)
    out = p.stdout
    res = dict(rc=p.returncode, out=out, wall=time.time() - t0, generated=0, distinct=0, depth=0,
               invariant=None, prop=None, ok=False, error=None)
    for m in _RE_STATES.finditer(out):
        res["generated"], res["distinct"] = int(m.group(1)), int(m.group(2))
    m = _RE_DEPTH.search(out)
    if m:
        res["depth"] = int(m.group(1))
    m = _RE_INV.search(out)
    if m:
        res["invariant"] = m.group(1)
    m = _RE_PROP.search(out)
    if m:
        res["prop"] = m.group(2)
    if "Model checking completed. No error has been found." in out:
        res["ok"] = True
    elif res["invariant"] or res["prop"]:
        pass
    elif "Deadlock reached" in out:
        res["error"] = "deadlock"
    else:
        errs = [l for l in out.splitlines() if l.startswith("Error:")]
        res["error"] = "; ".join(errs[:3]) or ("rc=%d %s" % (p.returncode, (out + p.stderr)[-1500:]))
    return res


def tlc_trace_states(out):
    """Parse the counterexample printed by TLC into a list of {var: text} dicts."""
    states, cur = [], None
    for line in out.splitlines():
        m = re.match(r"^State (\d+): ?(.*)$", line)
        if m:
            cur = dict(_n=int(m.group(1)), _action=m.group(2), _text="")
            states.append(cur)
            continue
        if cur is not None:
            if line.strip() == "" and cur["_text"]:
                cur = None
                continue
            cur["_text"] += line + "\n"
    return states


def require_ok(res, what):
    if not res["ok"]:
        raise Inconclusive("%s: TLC did not complete cleanly: inv=%s prop=%s err=%s\n%s" % (
            what, res["invariant"], res["prop"], res["error"], res["out"][-3000:]))


# ---------------------------------------------------------------- oracle pass (B4 / B3 walking pass)

def split_file(path, nchunks, tmp, min_lines=200, boundary=None):
    """Split an ndjson file into <= nchunks pieces; with `boundary` (a predicate on a line) pieces only
    start at lines for which it holds (trace files: never cut a trace in two)."""
    with open(path) as f:
        lines = f.readlines()
    n = len(lines)
    if n == 0:
        return [], 0
    k = max(1, min(nchunks, n // min_lines or 1))
    size = (n + k - 1) // k
    cuts = [0]
    for i in range(1, k):
        c = i * size
        if boundary is not None:
            while c < n and not boundary(lines[c]):
                c += 1
        if c < n and c > cuts[-1]:
            cuts.append(c)
    cuts.append(n)
    chunks = []
    for i in range(len(cuts) - 1):
        part = lines[cuts[i]:cuts[i + 1]]
        p = os.path.join(tmp, "chunk-%s-%d.ndjson" % (hashlib.md5(path.encode()).hexdigest()[:6], i))
        with open(p, "w") as f:
            f.writelines(part)
        chunks.append((p, cuts[i], len(part)))
    return chunks, n


def oracle_pass(ctx, obs_path, module, cfg=None, nchunks=12, timeout=1500, env_extra=None, var="l", boundary=None):
    """Walk an observation file with TLC (one state per line, invariant = the spec's judgement).
    Returns dict(lines, accepted, rejections=[(global_line_no(1-based), line_json_text, invariant)], states, transitions)."""
    from concurrent.futures import ThreadPoolExecutor
    chunks, n = split_file(obs_path, nchunks, ctx.tmp, boundary=boundary)
    if n == 0:
        raise Inconclusive("oracle pass: empty observation file " + obs_path)
    work = stage_spec(os.path.join(ctx.tmp, "spec-" + module))

    def one(ch):
        path, off, cnt = ch
        env = {"VERIF_IN": path}
        if env_extra:
            env.update(env_extra)
        res = run_tlc(work, module, cfg=cfg or module + ".cfg", workers=1, env=env, timeout=timeout)
        if not res["ok"]:
            raise Inconclusive("oracle pass on %s failed: %s\n%s" % (module, res["error"] or res["invariant"], res["out"][-3000:]))
        if res["distinct"] != cnt + 1:
            raise Inconclusive("oracle pass on %s walked %d of %d lines" % (module, res["distinct"] - 1, cnt))
        with open(path) as f:
            ls = f.readlines()
        rejs = []
        for m in re.finditer(r'<<"REJECT", (\d+)(?:, "(\w+)")?>>', res["out"]):
            k = int(m.group(1))
            rejs.append((off + k, ls[k - 1].strip(), m.group(2) or "Judge"))
        return rejs, res["distinct"]

    with ThreadPoolExecutor(max_workers=min(len(chunks), 12)) as ex:
        results = list(ex.map(one, chunks))
    rejs = [r for rs, _ in results for r in rs]
    states = sum(s for _, s in results)
    return dict(lines=n, accepted=n - len(rejs), rejections=rejs, states=states, transitions=max(states - len(chunks), 0))


def run_tlapm(workdir, module, timeout=900):
    """Check a TLAPS proof module. Returns dict(ok, obligations, proved, out)."""
    try:
        p = subprocess.run(["tlapm", "--threads", "8", "--cleanfp", module + ".tla"], cwd=workdir, capture_output=True, text=True, timeout=timeout)
    except subprocess.TimeoutExpired:
        raise Inconclusive("tlapm timeout (%ss) on %s" % (timeout, module))
    out = (p.stdout or "") + (p.stderr or "")
    m = re.search(r"All (\d+) obligations? proved", out)
    if m:
        return dict(ok=True, obligations=int(m.group(1)), proved=int(m.group(1)), out=out)
    m = re.search(r"(\d+)/(\d+) obligations failed", out)
    if m:
        return dict(ok=False, obligations=int(m.group(2)), proved=int(m.group(2)) - int(m.group(1)), out=out)
    raise Inconclusive("tlapm gave no verdict on %s:\n%s" % (module, out[-1500:]))


# ---------------------------------------------------------------- known findings

def load_known():
    p = os.path.join(VERIF, "known_findings.json")
    if not os.path.exists(p):
        return []
    with open(p) as f:
        return json.load(f).get("findings", [])


def match_known(pid, signature, detail):
    for k in load_known():
        if k.get("status") != "open" or k.get("property") != pid:
            continue
        if k.get("signature") and k["signature"] == signature:
            return k
    return None


def sample(seq, k=4):
    seq = list(seq)
    if len(seq) <= k:
        return seq
    step = max(1, len(seq) // k)
    return [seq[i] for i in range(0, len(seq), step)][:k]


def short(obj, n=600):
    s = obj if isinstance(obj, str) else json.dumps(obj, default=str)
    return s if len(s) <= n else s[:n] + "...(%d chars)" % len(s)
