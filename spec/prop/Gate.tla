-------------------------------- MODULE Gate --------------------------------
(***************************************************************************)
(* C07, send half, at the level of observables: what a data-sending call   *)
(* made under a given connection condition must look like from outside.    *)
(*   cond  how the connection came to be (not) Selected                    *)
(*   err   class of the returned error                                     *)
(*   drop_delta / send_delta   movement of the drop and data-sent counters *)
(*   peer_data  data frames the raw peer saw because of the call           *)
(*   has_link / ctl_ok  a TCP link exists / a Linktest round trip works    *)
(***************************************************************************)
EXTENDS Integers

NotSelectedConds == {"closed", "connecting", "connected-not-selected", "deselected", "between-generations",
                     "deselected-while-writer-parked"}

GateOK(r) ==
    CASE r.cond = "never-opened" ->                      \* before the first Open: the not-open error
            /\ r.err = "not-open" /\ r.peer_data = 0 /\ r.send_delta = 0 /\ r.drop_delta \in {0, 1}
      [] r.cond \in NotSelectedConds ->                   \* no bytes, not-selected error, exactly one drop, control unaffected
            /\ r.err = "not-selected"
            /\ r.drop_delta = 1
            /\ r.peer_data = 0 /\ r.send_delta = 0
            /\ r.has_link => r.ctl_ok
      [] r.cond = "selected" ->                           \* positive control: the gate is open
            /\ r.err \in {"nil", "t3"} /\ r.drop_delta = 0
            /\ r.peer_data >= 1 /\ r.send_delta = r.peer_data /\ r.ctl_ok
      [] OTHER -> FALSE
=============================================================================
