------------------------------ MODULE Lifecycle ------------------------------
(***************************************************************************)
(* C10 at the level of observables, for one recorded history r of          *)
(* concurrent API calls (ops: goroutine, call, result class, duration,     *)
(* hung?, panic) against a misbehaving peer, followed by the audit the     *)
(* harness took around the final Close: latency, second Close, State(),    *)
(* sockets / listeners the library still holds, dials after Close, library *)
(* goroutines still running, an Open-while-open probe and a re-Open.       *)
(***************************************************************************)
EXTENDS Integers, Sequences, FiniteSets, TLC

Slack(r) == 150 + r.max_jitter_ms
OpenResults  == {"nil", "already-open", "ctx", "closed", "start-failed", "close-timeout"}
CloseResults == {"nil", "not-open"}
SendResults  == {"nil", "not-open", "not-selected", "closed", "ctx", "t3", "write-error", "reject:1", "reject:2", "reject:3", "reject:4"}

LifeNoPanicNoHang(r) ==           \* no API call given valid arguments panics or blocks beyond its bound
    \A i \in 1..Len(r.ops) : r.ops[i].panic = "" /\ ~r.ops[i].hung
LifeResultKinds(r) ==
    \A i \in 1..Len(r.ops) : LET o == r.ops[i] IN
        CASE o.op \in {"Open(bg)", "Open(wait)"} -> o.res \in OpenResults
          [] o.op = "Close" -> o.res \in CloseResults
          [] o.op \in {"Send(W)", "SendAsync"} -> o.res \in SendResults
          [] o.op = "UpdateConfig" -> o.res = "nil"
          [] OTHER -> FALSE
LifeCloseBounded(r) ==            \* Close returns within the configured close timeout plus scheduling slack, from any state
    /\ \A i \in 1..Len(r.ops) : r.ops[i].op = "Close" => r.ops[i].ms <= r.close_timeout_ms + Slack(r)
    /\ r.final_close_ms <= r.close_timeout_ms + Slack(r)
    /\ r.reopen_close_ms <= r.close_timeout_ms + Slack(r)
LifeCloseIdempotent(r) ==
    /\ r.final_close_res \in CloseResults
    /\ r.second_close_res = (IF r.final_close_res = "not-open" THEN "not-open" ELSE "nil")
    /\ r.second_close_ms <= Slack(r)
LifeCloseLeavesNothing(r) ==      \* no library goroutine, no socket, no listener, no reconnect attempt, no notification
    /\ r.lib_goroutines = 0 /\ r.open_sockets = 0 /\ r.open_listeners = 0
    /\ r.dials_after_close = 0 /\ r.notes_after_close = 0
    /\ r.state_after_close = "NC"
LifeOpenWhileOpen(r) ==           \* Open on an open connection: already-open, no side effects
    r.probe_done => /\ r.probe_res = "already-open"
                    /\ r.probe_new_sockets = 0 /\ r.probe_new_dials = 0 /\ r.probe_state_same
LifeReopen(r) == r.reopen_ok /\ r.reopen_roundtrip   \* a closed connection can be opened again and behaves like a fresh one
LifeStaysRecoverable(r) == r.reached_selected        \* whatever the history, an open connection gets (back) to Selected once the peer behaves

(* impl/Connection OneLiveGeneration, observed on the sockets: a new generation's dial / listen only after the previous
   generation's socket / listener was closed (the reconnect loop waits for the full teardown) *)
LifeOneGeneration(r) == r.dial_overlap = 0 /\ r.listen_overlap = 0

Clauses(r) == << <<"LifeNoPanicNoHang", LifeNoPanicNoHang(r)>>, <<"LifeResultKinds", LifeResultKinds(r)>>,
                 <<"LifeCloseBounded", LifeCloseBounded(r)>>, <<"LifeCloseIdempotent", LifeCloseIdempotent(r)>>,
                 <<"LifeCloseLeavesNothing", LifeCloseLeavesNothing(r)>>, <<"LifeOpenWhileOpen", LifeOpenWhileOpen(r)>>,
                 <<"LifeReopen", LifeReopen(r)>>, <<"LifeStaysRecoverable", LifeStaysRecoverable(r)>>,
                 <<"LifeOneGeneration", LifeOneGeneration(r)>> >>
Failing(r) == SelectSeq(Clauses(r), LAMBDA c : ~c[2])
RECURSIVE Join(_)
Join(cs) == IF cs = <<>> THEN "" ELSE IF Len(cs) = 1 THEN cs[1][1] ELSE cs[1][1] \o "_" \o Join(Tail(cs))
=============================================================================
