------------------------------ MODULE Recovery ------------------------------
(***************************************************************************)
(* C11 at the level of observables, for one recorded link-failure scenario *)
(* r: the fault applied (which exchange, direction, byte offset, close /   *)
(* reset / stall), how many dials were refused afterwards, the backoff     *)
(* configuration, the timestamps of every dial the library made, when it   *)
(* reported NotConnected, whether it came back to a working Selected       *)
(* session, the reconnect counter and the reconnecting gauge.              *)
(***************************************************************************)
EXTENDS Backoff, FiniteSets, TLC

SlackUs(r) == 6000 + 1000 * r.max_jitter_ms
(* a stall with nothing of a frame delivered is just an idle link unless linktest / T6 / T7 cover it *)
ExpectDetect(r) == ~(r.fault.mode = "stall" /\ r.cover_ms = 0)

RecDetected(r) ==                 \* every involuntary loss a protocol timer covers ends the broken session
    ExpectDetect(r) => /\ r.detected
                       /\ r.detect_ms <= r.cover_ms + 400 + r.max_jitter_ms
RecRecovered(r) ==                \* ... and the connection re-establishes a Selected, fully working session
    r.recovered /\ r.roundtrip
Gap(r, i) == IF i = 1 THEN r.dials_us[1] - r.drop_us ELSE r.dials_us[i] - r.dials_us[i - 1]
RecBackoffFloor(r) ==             \* delays start at the initial value, never decrease, never exceed T5: lower bounds
    (r.role = "active" /\ r.detected) =>
        \A i \in 1..Len(r.dials_us) :
            Gap(r, i) >= Sleep(i - 1, r.init_us, r.mult_num, r.mult_den, r.t5_us) - 2000
RecBackoffCeil(r) ==              \* ... and a generous ceiling (T5 plus slack)
    (r.role = "active" /\ r.detected) =>
        \A i \in 1..Len(r.dials_us) :
            Gap(r, i) <= Sleep(i - 1, r.init_us, r.mult_num, r.mult_den, r.t5_us) + 200000 + SlackUs(r)
RecDialCount(r) ==                \* it keeps dialing until reachable, and stops once connected
    (r.role = "active" /\ r.detected) => Len(r.dials_us) = r.refused + 1
RecRelisten(r) == (r.role = "passive" /\ r.detected) => r.listens >= 1
RecCounter(r) ==                  \* the reconnect counter moves by exactly one per successful re-dial
    r.role = "active" => r.reconnects_delta = r.succ_redials
RecNoDialAfterClose(r) == r.dial_after_close = 0
RecGauge(r) == /\ r.gauge_min >= 0
               /\ r.recovered => r.gauge_end = 0
               /\ (r.role = "active" /\ r.refused >= 2 /\ r.detected) => r.gauge_pos_while_down

Clauses(r) == << <<"RecDetected", RecDetected(r)>>, <<"RecRecovered", RecRecovered(r)>>,
                 <<"RecBackoffFloor", RecBackoffFloor(r)>>, <<"RecBackoffCeil", RecBackoffCeil(r)>>,
                 <<"RecDialCount", RecDialCount(r)>>, <<"RecRelisten", RecRelisten(r)>>, <<"RecCounter", RecCounter(r)>>,
                 <<"RecNoDialAfterClose", RecNoDialAfterClose(r)>>, <<"RecGauge", RecGauge(r)>> >>
Failing(r) == SelectSeq(Clauses(r), LAMBDA c : ~c[2])
RECURSIVE Join(_)
Join(cs) == IF cs = <<>> THEN "" ELSE IF Len(cs) = 1 THEN cs[1][1] ELSE cs[1][1] \o "_" \o Join(Tail(cs))

(* the pure backoff step, checked against the exported real function (binding B1) *)
BackoffStepOK(r) == /\ r.got_us = Next(r.cur_us, r.num, r.den, r.ceil_us)
                    /\ (r.cur_us <= r.ceil_us /\ r.num >= r.den) => (r.cur_us <= r.got_us /\ r.got_us <= r.ceil_us)
=============================================================================
