-------------------------------- MODULE Txn --------------------------------
(***************************************************************************)
(* Observable-level demands on one recorded history of concurrent          *)
(* reply-expected sends against a scripted peer:                           *)
(*   C06 (Txn..)   every send gets its own reply or one definite error,     *)
(*                every inbound data message has exactly one recipient     *)
(*   C09 (Gen..)   nothing crosses TCP generations                          *)
(*   C20 (Met..)   metrics conserve                                         *)
(* A history r has: calls (what each SendDataMessage returned, with the    *)
(* system bytes the peer saw, timings), peer_tx (every frame the peer      *)
(* wrote, in order), peer_rx (every data frame the peer read, per socket   *)
(* generation), delivered (handler invocations in order), m0/m1 (metric    *)
(* getters before/after, at quiescent points), gauges' sampled minima.     *)
(***************************************************************************)
EXTENDS Integers, Sequences, FiniteSets, TLC

Tok(prefix, id) == prefix \o ToString(id)
IsReject(o) == o \in {"reject:0", "reject:1", "reject:2", "reject:3", "reject:4", "reject:5", "reject:255"}
RejReason(id) == 1 + (id % 4)
CallById(r, id) == LET S == {i \in 1..Len(r.calls) : r.calls[i].id = id}
                   IN IF S = {} THEN [id |-> -1, outcome |-> "absent", gen |-> 0, script |-> ""] ELSE r.calls[CHOOSE i \in S : TRUE]
Slack(r) == 8 + r.max_jitter_ms
EndsGeneration(r) == r.kind \in {"drop", "gen", "close"}

(* ------------------------------------------------------------------ C06 *)
TxnOutcomeKinds(r) ==              \* exactly one of the five outcomes; never (nil, nil)
    \A i \in 1..Len(r.calls) : LET c == r.calls[i] IN
        \/ c.outcome \in {"reply", "t3", "closed", "ctx"}
        \/ IsReject(c.outcome)
        \/ c.outcome = "not-selected" /\ (EndsGeneration(r) \/ r.kind = "b2")   \* refused: the session was no longer Selected
        \/ c.outcome = "nilnil"                                  \* judged by TxnNeverNilNil
        \/ c.outcome = "write-error" /\ EndsGeneration(r)        \* the write itself failed on the dying socket (connection-closed family)

TxnNeverNilNil(r) == \A i \in 1..Len(r.calls) : r.calls[i].outcome /= "nilnil"

TxnOwnReply(r) ==                  \* a reply is a secondary data message with the primary's system bytes: its OWN reply
    \A i \in 1..Len(r.calls) : LET c == r.calls[i] IN
        c.outcome = "reply" => /\ c.rsb = c.sb /\ ~c.rw /\ c.rf % 2 = 0
                               /\ c.rtok = Tok("r", c.id)
                               /\ \E j \in 1..Len(r.peer_tx) : /\ r.peer_tx[j].kind = "secondary" /\ r.peer_tx[j]["for"] = c.id
                                                                /\ r.peer_tx[j].sb = c.sb /\ r.peer_tx[j].gen = c.gen

TxnReject(r) ==                    \* a reject error carries the peer's reason code
    \A i \in 1..Len(r.calls) : LET c == r.calls[i] IN
        IsReject(c.outcome) => /\ c.script = "reject"
                               /\ c.outcome = Tok("reject:", RejReason(c.id))
                               /\ \E j \in 1..Len(r.peer_tx) : r.peer_tx[j].kind = "reject" /\ r.peer_tx[j].sb = c.sb
                                                                /\ r.peer_tx[j].b3 = RejReason(c.id)

TxnT3NotEarly(r) ==                \* the T3 error comes no earlier than T3 after the primary was written
    \A i \in 1..Len(r.calls) : LET c == r.calls[i] IN
        c.outcome = "t3" => /\ c.total_ms >= r.t3_ms - 2          \* the call started no later than its write
                            \* measured from the peer's receipt -- which can lag the write by scheduling noise, so this
                            \* half is only judged where the write is deliberately delayed (writer parked under the write
                            \* lock: a timer armed before the write would be early by the whole stall) and with a wide slack
                            /\ (r.kind = "stall" /\ c.dt_ms >= 0) => c.dt_ms >= r.t3_ms - 30 - 2 * r.max_jitter_ms

TxnAnswered(r) ==                  \* a primary the peer answered promptly returns that reply (no lost / misrouted reply)
    r.kind \in {"plain", "cancel", "lt"} =>
        \A i \in 1..Len(r.calls) : LET c == r.calls[i] IN
            c.script \in {"reply", "dup", "reorder", "unsolicited", "collide-primary", "collide-ctl"} => c.outcome = "reply"

TxnUniqueSb(r) ==                  \* library-generated system bytes are unique among concurrently open transactions
    /\ \A i, j \in 1..Len(r.calls) : (i /= j /\ r.calls[i].sb /= <<>> /\ r.calls[j].sb /= <<>>) => r.calls[i].sb /= r.calls[j].sb
    \* ... including the library's own control transactions (Linktest.req), as seen open by the peer
    /\ \A i, j \in 1..Len(r.open_txns) : LET a == r.open_txns[i] b == r.open_txns[j]
                                              aEnd == IF a.ans_ms < 0 THEN 1000000 ELSE a.ans_ms
                                              bEnd == IF b.ans_ms < 0 THEN 1000000 ELSE b.ans_ms
                                          IN (i /= j /\ a.rx_ms <= bEnd /\ b.rx_ms <= aEnd) => a.sb /= b.sb

(* inbound data messages: consumed by exactly one waiting sender, or delivered to the handlers once, in order *)
Consumed(r, j) ==                  \* the first secondary answering a call that returned a reply is that call's reply
    LET m == r.peer_tx[j] IN
    /\ m.kind = "secondary" /\ m["for"] > 0
    /\ CallById(r, m["for"]).outcome = "reply"
    /\ \A k \in 1..(j - 1) : ~(r.peer_tx[k].kind = "secondary" /\ r.peer_tx[k]["for"] = m["for"])
Duplicate(r, j) ==                 \* a further copy of a reply that was consumed: may be discarded
    LET m == r.peer_tx[j] IN
    /\ m.kind = "secondary" /\ m["for"] > 0 /\ CallById(r, m["for"]).outcome = "reply"
    /\ \E k \in 1..(j - 1) : r.peer_tx[k].kind = "secondary" /\ r.peer_tx[k]["for"] = m["for"]
DataIdx(r) == SelectSeq([j \in 1..Len(r.peer_tx) |-> j],
                        LAMBDA j : r.peer_tx[j].st = 0 /\ r.peer_tx[j].sel /\ ~Consumed(r, j))
RECURSIVE MatchDeliveries(_, _, _)
MatchDeliveries(r, idx, ds) ==
    IF idx = <<>> THEN ds = <<>>
    ELSE LET m == r.peer_tx[Head(idx)] IN
         \/ ds /= <<>> /\ Head(ds).sb = m.sb /\ Head(ds).s = m.s /\ Head(ds).f = m.f /\ MatchDeliveries(r, Tail(idx), Tail(ds))
         \/ Duplicate(r, Head(idx)) /\ MatchDeliveries(r, Tail(idx), ds)
TxnOneRecipient(r) ==
    r.kind \in {"plain", "cancel", "stall", "edge"} => MatchDeliveries(r, DataIdx(r), r.delivered)
SameMsg(d, m) == m.st = 0 /\ m.sb = d.sb /\ m.s = d.s /\ m.f = d.f
TxnNoDoubleDelivery(r) ==          \* in every kind: nothing reaches the handlers twice, nothing a sender consumed is also delivered
    \A i \in 1..Len(r.delivered) : LET d == r.delivered[i] IN
        /\ \E k \in 1..Len(r.peer_tx) : SameMsg(d, r.peer_tx[k]) /\ ~Consumed(r, k)
        /\ Cardinality({j \in 1..Len(r.delivered) : r.delivered[j].sb = d.sb /\ r.delivered[j].s = d.s /\ r.delivered[j].f = d.f})
             <= Cardinality({k \in 1..Len(r.peer_tx) : SameMsg(d, r.peer_tx[k]) /\ ~Consumed(r, k)})

(* ------------------------------------------------------------------ C09 *)
CallOfTok(r, tok) == LET S == {i \in 1..Len(r.calls) : Tok("c", r.calls[i].id) = tok} IN
                     IF S = {} THEN 0 ELSE r.calls[CHOOSE i \in S : TRUE].gen
GenNoStaleFrame(r) ==              \* a message accepted on one generation is never transmitted on a later generation's connection
    \A i \in 1..Len(r.peer_rx) : LET x == r.peer_rx[i] IN
        /\ CallOfTok(r, x.tok) /= 0 => CallOfTok(r, x.tok) = x.gen
        /\ (\E k \in 1..Len(r.async_tokens) : r.async_tokens[k] = x.tok) => x.gen = 1
GenNoStaleReply(r) ==              \* a reply received on one generation never completes a send started on another
    \A i \in 1..Len(r.calls) : LET c == r.calls[i] IN
        c.outcome = "reply" => \A j \in 1..Len(r.peer_tx) :
            (r.peer_tx[j].st = 0 /\ r.peer_tx[j].sb = c.sb /\ r.peer_tx[j].gen /= c.gen) => r.peer_tx[j].tok /= c.rtok
GenPromptRelease(r) ==             \* when a generation ends, every send still waiting on it completes promptly
    EndsGeneration(r) =>
        \A i \in 1..Len(r.calls) : LET c == r.calls[i] IN
            /\ c.outcome /= "hung"
            /\ (c.gen = 1 /\ c.outcome = "closed" /\ c.end_ms >= 0) => c.end_ms <= 150 + Slack(r)
            /\ (c.gen = 1 /\ c.outcome = "t3") => c.total_ms <= r.t3_ms + 150 + Slack(r)
            /\ (c.gen = 1 /\ c.script = "none") => c.outcome \in {"closed", "t3", "ctx", "not-selected"}
GenFreshWorks(r) ==                \* the next generation is a fully working session
    r.kind \in {"drop", "gen"} => \A i \in 1..Len(r.calls) : r.calls[i].gen = 2 => r.calls[i].outcome = "reply"

(* ------------------------------------------------------------------ C20 *)
CountOutcome(r, o) == Cardinality({i \in 1..Len(r.calls) : r.calls[i].outcome = o})
MetGauges(r) == /\ r.m1.Inflight = 0 /\ r.min_inflight >= 0 /\ r.min_reconnecting >= 0
                /\ r.end_state \in {"S", "NC"} => r.m1.Reconnecting = 0
MetSendMatchesWire(r) ==           \* the data-sent counter equals the number of data frames the peer actually received
    r.kind \in {"plain", "cancel", "stall"} => r.m1.Send - r.m0.Send = r.peer_data_rx
MetRecvMatchesWire(r) ==           \* the data-received counter equals the well-formed data frames the peer sent while Selected
    r.kind \in {"plain", "cancel", "stall"} => r.m1.Recv - r.m0.Recv = r.peer_data_tx_sel
MetOutcomeDeltas(r) ==             \* each outcome changes exactly its documented counters (reject: none; T3: error +1; refused: drop +1)
    r.kind \in {"plain", "cancel", "stall", "b2"} =>
        /\ r.m1.Err - r.m0.Err = CountOutcome(r, "t3")
        /\ r.m1.Drop - r.m0.Drop = CountOutcome(r, "not-selected")
        /\ r.m1.AsyncErr - r.m0.AsyncErr = 0
        /\ r.kind = "b2" => r.m1.Send - r.m0.Send = r.peer_data_rx

Clauses(r) == << <<"TxnOutcomeKinds", TxnOutcomeKinds(r)>>, <<"TxnNeverNilNil", TxnNeverNilNil(r)>>,
                 <<"TxnOwnReply", TxnOwnReply(r)>>, <<"TxnReject", TxnReject(r)>>, <<"TxnT3NotEarly", TxnT3NotEarly(r)>>,
                 <<"TxnAnswered", TxnAnswered(r)>>, <<"TxnUniqueSb", TxnUniqueSb(r)>>, <<"TxnOneRecipient", TxnOneRecipient(r)>>,
                 <<"TxnNoDoubleDelivery", TxnNoDoubleDelivery(r)>>,
                 <<"GenNoStaleFrame", GenNoStaleFrame(r)>>, <<"GenNoStaleReply", GenNoStaleReply(r)>>,
                 <<"GenPromptRelease", GenPromptRelease(r)>>, <<"GenFreshWorks", GenFreshWorks(r)>>,
                 <<"MetGauges", MetGauges(r)>>, <<"MetSendMatchesWire", MetSendMatchesWire(r)>>,
                 <<"MetRecvMatchesWire", MetRecvMatchesWire(r)>>, <<"MetOutcomeDeltas", MetOutcomeDeltas(r)>> >>
Failing(r) == SelectSeq(Clauses(r), LAMBDA c : ~c[2])
RECURSIVE Join(_)
Join(cs) == IF cs = <<>> THEN "" ELSE IF Len(cs) = 1 THEN cs[1][1] ELSE cs[1][1] \o "_" \o Join(Tail(cs))
=============================================================================
