--------------------------- MODULE TraceSendReply ---------------------------
(***************************************************************************)
(* Trace validation of the real send / reply machinery against             *)
(* impl/SendReply (repaired variant).  The trace is the totally ordered    *)
(* log of a scripted raw peer -- "rx": a W-bit primary of one of the calls *)
(* arrived; "tx": the peer wrote a secondary / control response / reject / *)
(* primary with given system bytes -- plus, per SendDataMessage call, its  *)
(* system bytes and how it ended, and the sequence of messages the data    *)
(* handlers received.  Everything the library does in between (register,   *)
(* write, receive-side routing, take, T3, cancel) is a silent step TLC     *)
(* infers.  A behaviour must:                                              *)
(*   rx b    -> b is the next frame written on the epoch's socket (frames  *)
(*              reach the peer in write order)                             *)
(*   tx k b  -> the frame is put in flight; the receive goroutine routes   *)
(*              in-flight frames in order                                  *)
(*   end     -> every call returned the recorded outcome (a reply carries  *)
(*              the call's own system bytes), nothing is left in flight,   *)
(*              and the handlers saw exactly the recorded messages in that *)
(*              order                                                      *)
(* Accepted traces violate NotAccepted (inverted invariant).               *)
(***************************************************************************)
EXTENDS SendReply, Json, IOUtils

Tr == ndJsonDeserialize(IOEnv.VERIF_IN)[1]
TrSenders == 1..Tr.ncalls
TrMaxSb == Tr.nsb

VARIABLES l, inq, rxn, ended, held, dying
tvars == <<vars, l, inq, rxn, ended, held, dying>>
Ev == Tr.events[l]
More == l <= Len(Tr.events)

TInit == TLCSet(1, 0) /\ Init /\ l = 1 /\ inq = <<>> /\ rxn = 0 /\ ended = FALSE /\ held = FALSE /\ dying = FALSE

(* Begin + Write of a call, with the system bytes the call really used (the library's allocator is not part of the
   model's claim).  The two steps are taken together at the moment the peer sees the frame: the peer never sends anything
   with a call's system bytes before it has received that call's primary, so an earlier registration is unobservable, and
   frames reach the peer in write order, so the write order is the rx order. *)
TBeginWrite(s, b) ==
    /\ pc[s] = "idle" /\ out[s] = NoOut /\ cur > 0 /\ sel /\ live[cur]
    /\ reg[cur][b].kind = "none"
    /\ call' = [call EXCEPT ![s] = [e |-> cur, sb |-> b]]
    /\ reg' = [reg EXCEPT ![cur][b] = Empty]
    /\ wire' = [wire EXCEPT ![cur] = Append(@, b)]
    /\ sendCnt' = sendCnt + 1 /\ inflight' = inflight + 1
    /\ pc' = [pc EXCEPT ![s] = "written"]
    /\ UNCHANGED <<cur, live, sel, out, handled, nextSb, peerBudget, errCnt, dropCnt, lostReply>>
Quiet == UNCHANGED <<l, inq, rxn, ended, held, dying>>
(* Routing a frame commutes with every log event that does not carry the same system bytes, so in-flight frames are routed
   EAGERLY -- before the next log event is consumed -- unless the behaviour commits to losing them: "held" frames (and everything
   queued behind them) are never routed and disappear when the generation ends. *)
MayConsume == inq = <<>> \/ held
EndStillAhead == ended \/ \E i \in l..Len(Tr.events) : Tr.events[i].d = "end"
THold == /\ inq /= <<>> /\ ~held /\ cur = 1 /\ EndStillAhead /\ held' = TRUE /\ UNCHANGED <<vars, l, inq, rxn, ended, dying>>
(* Calls interact only through the registry slot of their own system bytes and the order of in-flight frames, so the ways a
   wait can end without a reply (T3, cancel, released) are tried just in time: right before the receive goroutine routes a frame
   with that call's system bytes, or once the whole log has been consumed.  Actions of different calls commute. *)
Waiting == {t \in TrSenders : pc[t] = "written"}
FinalTurn(s) == l > Len(Tr.events) /\ inq = <<>> /\ s \in Waiting /\ \A t \in Waiting : s <= t     \* at the very end: one canonical order
JustInTime(s) == (inq /= <<>> /\ Head(inq).sb = Tr.call_sbi[s]) \/ FinalTurn(s)
TTake(s) == JustInTime(s) /\ Take(s) /\ Quiet
TTimeout(s) == Tr.outcomes[s] = "t3" /\ JustInTime(s) /\ Timeout(s) /\ Quiet
TCancel(s) == Tr.outcomes[s] = "ctx" /\ JustInTime(s) /\ Cancel(s) /\ Quiet
TReleased(s) == Tr.outcomes[s] = "closed" /\ JustInTime(s) /\ Released(s) /\ Quiet
TRecv == /\ inq /= <<>> /\ ~held /\ ~dying /\ Recv(Head(inq).k, Head(inq).sb) /\ inq' = Tail(inq) /\ UNCHANGED <<l, rxn, ended, held, dying>>
(* The end of a generation is not one instant: its context is cancelled first (waiting senders start to leave with the
   connection-closed error) while the receive goroutine may still be working through frames it had already read.  In that
   DYING phase a frame for a slot that is still registered is routed as usual; a frame nobody waits for any more goes to the
   handlers of a generation that is being torn down and may or may not be seen by them. *)
TBeginDying == /\ ended /\ ~dying /\ cur > 0 /\ live[cur] /\ dying' = TRUE /\ UNCHANGED <<vars, l, inq, rxn, ended, held>>
TReleasedDying(s) == /\ dying /\ Tr.outcomes[s] = "closed" /\ pc[s] = "written" /\ call[s].e = cur /\ MayGiveUp(s) /\ JustInTime(s)
                     /\ Finish(s, <<"closed", 0, 0>>)
                     /\ UNCHANGED <<cur, live, sel, call, wire, handled, nextSb, peerBudget, sendCnt, errCnt, dropCnt>> /\ Quiet
TRecvDying == /\ dying /\ inq /= <<>>          \* (frames held back during the live phase are worked through now, or lost)
              /\ LET f == Head(inq) IN
                 IF f.k \in {"secondary", "ctl", "reject"} /\ reg[cur][f.sb].kind /= "none"
                 THEN Recv(f.k, f.sb)
                 ELSE \/ Recv(f.k, f.sb)                         \* the handlers still got it
                      \/ UNCHANGED vars                          \* ... or it went down with the generation
              /\ inq' = Tail(inq) /\ UNCHANGED <<l, rxn, ended, held, dying>>
(* generations: the harness ended generation 1 (peer close / reset, or Close()); the library notices at some later point;
   whatever was still in flight to the dead generation is lost *)
TEndEpoch == /\ ended /\ EndEpoch /\ inq' = <<>> /\ held' = FALSE /\ dying' = FALSE /\ UNCHANGED <<l, rxn, ended>>
TNewEpoch == /\ NewEpoch /\ rxn' = 0 /\ UNCHANGED <<l, inq, ended, held, dying>>
TReselect == /\ cur = 2 /\ Reselect /\ Quiet

TraceRx == /\ More /\ Ev.d = "rx" /\ MayConsume
           /\ \E s \in TrSenders : Tr.call_sbi[s] = Ev.sbi /\ TBeginWrite(s, Ev.sbi)
           /\ cur = Ev.gen
           /\ rxn' = rxn + 1 /\ l' = l + 1 /\ UNCHANGED <<inq, ended, held, dying>>
(* a frame written on a generation the library has already left (or is leaving) never arrives *)
TraceTx == /\ More /\ Ev.d = "tx" /\ MayConsume
           /\ inq' = IF Ev.gen = cur /\ live[cur] THEN Append(inq, [k |-> Ev.k, sb |-> Ev.sbi]) ELSE inq
           /\ l' = l + 1 /\ UNCHANGED <<vars, rxn, ended, held, dying>>
TraceEnd == /\ More /\ Ev.d = "end" /\ MayConsume /\ ended' = TRUE /\ l' = l + 1 /\ UNCHANGED <<vars, inq, rxn, held, dying>>
TraceNew == /\ More /\ Ev.d = "new" /\ MayConsume /\ cur = 2 /\ live[2] /\ sel           \* the peer has seen the new generation selected
            /\ l' = l + 1 /\ UNCHANGED <<vars, inq, rxn, ended, held, dying>>

TNext == \/ \E s \in TrSenders : TTake(s) \/ TTimeout(s) \/ TCancel(s) \/ TReleased(s) \/ TReleasedDying(s)
         \/ TRecv \/ TRecvDying \/ TBeginDying \/ THold \/ TEndEpoch \/ TNewEpoch \/ TReselect \/ TraceRx \/ TraceTx \/ TraceEnd \/ TraceNew
TSpec == TInit /\ [][TNext]_tvars

OutKind(o) == IF o[1] = "-" THEN "pending" ELSE o[1]
Accepted ==
    /\ l = Len(Tr.events) + 1 /\ inq = <<>>
    /\ \A s \in TrSenders : /\ pc[s] = "idle" /\ OutKind(out[s]) = Tr.outcomes[s]
                            /\ (Tr.outcomes[s] \in {"reply", "reject"} => out[s][2] = Tr.call_sbi[s])
    /\ [i \in 1..Len(handled) |-> handled[i].sb] = Tr.delivered
NotAccepted == ~Accepted
(* dead ends are cut as soon as they are certain: a reply sits in the slot of a call that did not end with a reply (only Take
   empties a slot), or the handlers have received something that is not the next recorded delivery *)
Doomed == \E s \in TrSenders : /\ pc[s] = "written" /\ Tr.outcomes[s] \notin {"reply", "reject"}
                                /\ reg[call[s].e][call[s].sb].kind \in {"secondary", "reject"}
HandledIsPrefix == /\ Len(handled) <= Len(Tr.delivered)
                   /\ \A i \in 1..Len(handled) : handled[i].sb = Tr.delivered[i]
Prune == ~Doomed /\ HandledIsPrefix
HighWater == IF l > TLCGet(1) THEN TLCSet(1, l) /\ PrintT(<<"HW", l - 1, Len(Tr.events)>>) ELSE TRUE
=============================================================================
