--------------------------- MODULE TraceSendReply ---------------------------
(***************************************************************************)
(* Trace validation of the real send / reply machinery against             *)
(* impl/SendReply (repaired variant).  The trace is the totally ordered    *)
(* log of a scripted raw peer -- "rx": a W-bit primary of one of the calls *)
(* arrived; "tx": the peer wrote a secondary / control response / reject / *)
(* primary with given system bytes -- plus, per SendDataMessage call, its  *)
(* system bytes and how it ended, and the sequence of messages the data    *)
(* handlers received.  Everything the library does in between (register,   *)
(* write, receive-side routing, take, T3, cancel) is a silent step TLC     *)
(* infers.  A behaviour must:                                              *)
(*   rx b    -> b is the next frame written on the epoch's socket (frames  *)
(*              reach the peer in write order)                             *)
(*   tx k b  -> the frame is put in flight; the receive goroutine routes   *)
(*              in-flight frames in order                                  *)
(*   end     -> every call returned the recorded outcome (a reply carries  *)
(*              the call's own system bytes), nothing is left in flight,   *)
(*              and the handlers saw exactly the recorded messages in that *)
(*              order                                                      *)
(* Accepted traces violate NotAccepted (inverted invariant).               *)
(***************************************************************************)
EXTENDS SendReply, Json, IOUtils

Tr == ndJsonDeserialize(IOEnv.VERIF_IN)[1]
TrSenders == 1..Tr.ncalls
TrMaxSb == Tr.nsb

VARIABLES l, inq, rxn, ended
tvars == <<vars, l, inq, rxn, ended>>
Ev == Tr.events[l]
More == l <= Len(Tr.events)

TInit == TLCSet(1, 0) /\ Init /\ l = 1 /\ inq = <<>> /\ rxn = 0 /\ ended = FALSE

(* Begin + Write of a call, with the system bytes the call really used (the library's allocator is not part of the
   model's claim).  The two steps are taken together at the moment the peer sees the frame: the peer never sends anything
   with a call's system bytes before it has received that call's primary, so an earlier registration is unobservable, and
   frames reach the peer in write order, so the write order is the rx order. *)
TBeginWrite(s, b) ==
    /\ pc[s] = "idle" /\ out[s] = NoOut /\ cur > 0 /\ sel /\ live[cur]
    /\ reg[cur][b].kind = "none"
    /\ call' = [call EXCEPT ![s] = [e |-> cur, sb |-> b]]
    /\ reg' = [reg EXCEPT ![cur][b] = Empty]
    /\ wire' = [wire EXCEPT ![cur] = Append(@, b)]
    /\ sendCnt' = sendCnt + 1 /\ inflight' = inflight + 1
    /\ pc' = [pc EXCEPT ![s] = "written"]
    /\ UNCHANGED <<cur, live, sel, out, handled, nextSb, peerBudget, errCnt, dropCnt>>
Quiet == UNCHANGED <<l, inq, rxn, ended>>
TTake(s) == Take(s) /\ Quiet
TTimeout(s) == Tr.outcomes[s] = "t3" /\ Timeout(s) /\ Quiet
TCancel(s) == Tr.outcomes[s] = "ctx" /\ Cancel(s) /\ Quiet
TReleased(s) == Tr.outcomes[s] = "closed" /\ Released(s) /\ Quiet
TRecv == /\ inq /= <<>> /\ Recv(Head(inq).k, Head(inq).sb) /\ inq' = Tail(inq) /\ UNCHANGED <<l, rxn, ended>>
(* generations: the harness ended generation 1 (peer close / reset, or Close()); the library notices at some later point;
   whatever was still in flight to the dead generation is lost *)
TEndEpoch == /\ ended /\ EndEpoch /\ inq' = <<>> /\ UNCHANGED <<l, rxn, ended>>
TNewEpoch == /\ NewEpoch /\ rxn' = 0 /\ UNCHANGED <<l, inq, ended>>
TReselect == /\ cur = 2 /\ Reselect /\ Quiet

TraceRx == /\ More /\ Ev.d = "rx"
           /\ \E s \in TrSenders : Tr.call_sbi[s] = Ev.sbi /\ TBeginWrite(s, Ev.sbi)
           /\ cur = Ev.gen
           /\ rxn' = rxn + 1 /\ l' = l + 1 /\ UNCHANGED <<inq, ended>>
(* a frame written on a generation the library has already left (or is leaving) never arrives *)
TraceTx == /\ More /\ Ev.d = "tx"
           /\ inq' = IF Ev.gen = cur /\ live[cur] THEN Append(inq, [k |-> Ev.k, sb |-> Ev.sbi]) ELSE inq
           /\ l' = l + 1 /\ UNCHANGED <<vars, rxn, ended>>
TraceEnd == /\ More /\ Ev.d = "end" /\ ended' = TRUE /\ l' = l + 1 /\ UNCHANGED <<vars, inq, rxn>>
TraceNew == /\ More /\ Ev.d = "new" /\ cur = 2 /\ live[2] /\ sel           \* the peer has seen the new generation selected
            /\ l' = l + 1 /\ UNCHANGED <<vars, inq, rxn, ended>>

TNext == \/ \E s \in TrSenders : TTake(s) \/ TTimeout(s) \/ TCancel(s) \/ TReleased(s)
         \/ TRecv \/ TEndEpoch \/ TNewEpoch \/ TReselect \/ TraceRx \/ TraceTx \/ TraceEnd \/ TraceNew
TSpec == TInit /\ [][TNext]_tvars

OutKind(o) == IF o[1] = "-" THEN "pending" ELSE o[1]
Accepted ==
    /\ l = Len(Tr.events) + 1 /\ inq = <<>>
    /\ \A s \in TrSenders : /\ pc[s] = "idle" /\ OutKind(out[s]) = Tr.outcomes[s]
                            /\ (Tr.outcomes[s] \in {"reply", "reject"} => out[s][2] = Tr.call_sbi[s])
    /\ [i \in 1..Len(handled) |-> handled[i].sb] = Tr.delivered
NotAccepted == ~Accepted
HighWater == IF l > TLCGet(1) THEN TLCSet(1, l) /\ PrintT(<<"HW", l - 1, Len(Tr.events)>>) ELSE TRUE
=============================================================================
