---------------------------- MODULE OracleAlias ----------------------------
(***************************************************************************)
(* C12 acceptor.  "alias": one caller-side mutation (of a slice handed to a *)
(* constructor or copying decoder, or of a slice / array handed out by an  *)
(* accessor, serializer or append helper) bracketed by two complete        *)
(* observations of the item / message -- they must be identical.  "conc":  *)
(* 12 goroutines performing the FIRST observations of a fresh item /       *)
(* message / its re-stamped copies at once: each must equal the sequential *)
(* observation, and (impl/LazyBody: AtMostOnce, SameForAll) every caller   *)
(* and copy must have been handed the same decoded body object.            *)
(***************************************************************************)
EXTENDS Json, IOUtils, TLC, Sequences, Naturals

T == ndJsonDeserialize(IOEnv.VERIF_IN)
VARIABLE l
InitO == l = 0
Why(r) ==
    IF r.panic /= "" THEN "Panicked"
    ELSE IF r.t = "alias" THEN (IF r.same THEN "" ELSE "ObservationChangedByCallerSideMutation")
    ELSE IF r.t = "conc" THEN (IF r.mismatches > 0 THEN "ConcurrentObservationDiffers"
                               ELSE IF r.distinct_item_pointers > 1 THEN "LazyDecodeRanMoreThanOnce" ELSE "")
    ELSE "UnknownLine"
NextO == /\ l < Len(T) /\ l' = l + 1
         /\ LET w == Why(T[l + 1]) IN IF w = "" THEN TRUE ELSE PrintT(<<"REJECT", l + 1, w>>)
Judged == TRUE
=============================================================================
