SPECIFICATION TSpec
CONSTANTS MaxOps = 100000 HoldLockWhileWaiting = FALSE
CONSTANT Callers <- TrCallers
CONSTANT MaxEpochs <- TrMaxEpochs
CONSTANT MaxDrops <- TrMaxDrops
INVARIANT NotAccepted
CONSTRAINT HighWater
CHECK_DEADLOCK FALSE
