----------------------------- MODULE OracleCtor -----------------------------
(***************************************************************************)
(* C16 acceptor: recorded constructor calls (argument lists over Go types, *)
(* widths and boundary values, in scalar / slice / numeric-string form)    *)
(* and recorded fates of errored items (Equal, message constructors, send  *)
(* calls, the wire) judged against fn/Ctor.                                *)
(***************************************************************************)
EXTENDS Ctor, E5Codec, Json, IOUtils, TLC

T == ndJsonDeserialize(IOEnv.VERIF_IN)
VARIABLE l
InitO == l = 0

Flat(args) == Flatten([i \in 1..Len(args) |-> args[i].vals])
IntGo == {"int", "int8", "int16", "int32", "int64", "uint", "uint8", "uint16", "uint32", "uint64"}
(* r.family: "I" | "U" | "F" | "B" | "BOOL" *)
ArgBad(r, a) ==
    CASE r.family \in {"I", "U"} -> ~(a.gt \in IntGo \/ a.gt = "string") \/ \E i \in 1..Len(a.vals) : a.vals[i].bad
      [] r.family = "F"          -> ~(a.gt \in IntGo \/ a.gt \in {"string", "float32", "float64"}) \/ \E i \in 1..Len(a.vals) : a.vals[i].bad
      [] r.family = "B"          -> ~(a.gt \in {"int", "uint8", "string"}) \/ (a.gt = "int" /\ a.form = "slice") \/ \E i \in 1..Len(a.vals) : a.vals[i].bad
      [] r.family = "BOOL"       -> a.gt /= "bool"
MustErr(r) == ~r.size_valid \/ \E i \in 1..Len(r.args) : ArgBad(r, r.args[i])
(* outcomes that may be an error OR a clamped value: a negative into an unsigned item, an integer beyond 2^53 into a float *)
MayErr(r) == \/ r.family = "U" /\ \E i \in 1..Len(Flat(r.args)) : Flat(r.args)[i].neg /\ ~IsZero(Flat(r.args)[i].mag)
             \/ r.family = "F" /\ \E i \in 1..Len(Flat(r.args)) : Flat(r.args)[i].inexact
             \/ r.family = "B" /\ \E i \in 1..Len(Flat(r.args)) : Flat(r.args)[i].neg \/ ~LexLE(Flat(r.args)[i].mag, MaxUnsignedMag(1))
Expect(r) ==
    LET vs == Flat(r.args) IN
    CASE r.family = "I" -> [i \in 1..Len(vs) |-> ClampSigned(vs[i], r.w)]
      [] r.family = "U" -> [i \in 1..Len(vs) |-> ClampUnsigned(vs[i], r.w)]
      [] r.family = "B" -> [i \in 1..Len(vs) |-> SubSeq(LexMin(vs[i].mag, MaxUnsignedMag(1)), 2, 9)]
      [] r.family = "BOOL" -> [i \in 1..Len(vs) |-> SubSeq(vs[i].mag, 2, 9)]
      [] r.family = "F" -> [i \in 1..Len(vs) |->
                              IF r.w = 8 THEN vs[i].f64
                              ELSE IF F4Overflows(vs[i].f64) THEN SignedMaxF32(vs[i].f64) ELSE vs[i].f32]
SameF(a, b) == a = b \/ (IsNaN(a) /\ IsNaN(b))
CtorWhy(r) ==
    IF r.panicked THEN "CtorPanicked"
    ELSE IF MustErr(r) THEN (IF r.err THEN "" ELSE "NoErrorForUnsupportedArgument")
    ELSE IF r.err THEN (IF MayErr(r) THEN "" ELSE "ErrorForValidArguments")
    ELSE IF Len(r.got) /= Len(Expect(r)) THEN "WrongElementCount"
    ELSE IF r.family = "F" THEN (IF \A i \in 1..Len(r.got) : SameF(r.got[i], Expect(r)[i]) THEN "" ELSE "FloatNotClampedOrAltered")
    ELSE IF r.got /= Expect(r) THEN "NotClampedToNearestBound"
    ELSE IF ~r.accessors_agree THEN "AccessorsDisagree"
    ELSE IF r.wire /= Encode([k |-> r.kind, v |-> (IF r.family \in {"B", "BOOL"} THEN [i \in 1..Len(r.got) |-> r.got[i][8]] ELSE r.got)]) THEN "WireNotTheClampedValues"
    ELSE ""

(* the fate of an errored item *)
GateWhy(r) ==
    IF r.panicked THEN "GatePanicked"
    ELSE IF ~r.has_error THEN "ErrorNotAggregated"
    ELSE IF r.equal_self \/ r.equal_clean \/ r.equal_rebuilt THEN "ErroredItemEqualToSomething"
    ELSE IF ~r.newmsg_refused THEN "NewDataMessageAcceptedErroredItem"
    ELSE IF ~r.derive_refused THEN "DeriveBuildAcceptedErroredItem"
    ELSE IF ~r.secs2msg_refused THEN "SECS2MessageSendAcceptedErroredItem"
    ELSE IF \E i \in 1..Len(r.sends) : ~r.sends[i].refused THEN "SendCallAcceptedErroredItem"
    ELSE IF r.frames_on_wire > 0 THEN "ErroredItemReachedTheWire"
    ELSE ""

Why(r) == CASE r.t = "ctor" -> CtorWhy(r) [] r.t = "errgate" -> GateWhy(r) [] OTHER -> "UnknownLine"
NextO == /\ l < Len(T) /\ l' = l + 1
         /\ LET w == Why(T[l + 1]) IN IF w = "" THEN TRUE ELSE PrintT(<<"REJECT", l + 1, w>>)
Judged == TRUE
=============================================================================
