----------------------------- MODULE OracleHsms -----------------------------
(***************************************************************************)
(* Spec-as-oracle pass (B4) for HSMS message framing: C03 (construct /     *)
(* serialize / decode / re-stamp) and the decode half of C04 (arbitrary    *)
(* byte strings offered to the frame decoders).                            *)
(***************************************************************************)
EXTENDS E5Codec, HsmsFrame, Json, IOUtils, TLC

T == ndJsonDeserialize(IOEnv.VERIF_IN)

VARIABLE l
Init == l = 0

(* one re-stamp / derive step: header before -> header after *)
StepHdr(prev, st) ==
    CASE st.op = "sid" -> WithSid(prev, st.sid)
      [] st.op \in {"sb", "id"} -> WithSb(prev, st.sb)
      [] st.op = "derive" -> IF ValidData(st.s, st.f, st.w)
                             THEN DataHdr(HSid(prev), st.s, st.f, st.w, HSb(prev)) ELSE prev
StepOK(prev, st) == IF st.op = "derive" THEN st.ok = ValidData(st.s, st.f, st.w) ELSE st.ok

RECURSIVE ChainOK(_, _, _)
ChainOK(prev, chain, body) ==
    IF chain = <<>> THEN TRUE
    ELSE LET st == Head(chain) h == StepHdr(prev, st)
         IN /\ StepOK(prev, st)
            /\ st.hdr = h
            /\ st.frame = Frame(h, body)
            /\ ChainOK(h, Tail(chain), body)

JudgeData(r) ==
    LET valid == ValidData(r.s, r.f, r.w) /\ ~r.errored /\ (r.has_item => Valid(r.item, 0))
        body  == SubSeq(r.frame, 15, Len(r.frame))      \* judged by Matches: a NaN element may be any NaN pattern
        h     == DataHdr(r.sid, r.s, r.f, r.w, r.sb)
    IN /\ r.panic = ""
       /\ r.ctor_ok = valid
       /\ valid => /\ r.hdr = h
                   /\ Len(r.frame) >= 14
                   /\ IF r.has_item THEN Matches(r.item, body) ELSE body = <<>>
                   /\ r.frame = Frame(h, body)
                   /\ r.acc_ok
                   /\ LET d == DecodeFrame(r.frame)
                      IN /\ d.ok /\ r.dec_ok
                         /\ r.dec_hdr = d.hdr /\ d.hdr = h
                         /\ r.dec_body = d.body /\ d.body = body
                   /\ r.has_item => r.dec_item = r.item
                   /\ r.refr = r.frame
                   /\ r.equal
                   /\ ChainOK(h, r.chain, body)

CtlHdr(r) ==
    CASE r.kind = "SelectReq"   -> SelectReq(r.sid, r.sb)
      [] r.kind = "SelectRsp"   -> SelectRsp(r.ref, r.status)
      [] r.kind = "DeselectReq" -> DeselectReq(r.sid, r.sb)
      [] r.kind = "DeselectRsp" -> DeselectRsp(r.ref, r.status)
      [] r.kind = "LinktestReq" -> LinktestReq(r.sb)
      [] r.kind = "LinktestRsp" -> LinktestRsp(r.ref)
      [] r.kind = "SeparateReq" -> SeparateReq(r.sid, r.sb)
      [] r.kind \in {"RejectReq", "RejectReqRaw"} -> RejectReq(r.ref, r.status)

(* a .rsp constructor applied to the wrong request kind must refuse *)
CtlValid(r) ==
    CASE r.kind = "SelectRsp"   -> HSType(r.ref) = SSelectReq
      [] r.kind = "DeselectRsp" -> HSType(r.ref) = SDeselectReq
      [] r.kind = "LinktestRsp" -> HSType(r.ref) = SLinktestReq
      [] OTHER -> TRUE

JudgeCtl(r) ==
    /\ r.panic = ""
    /\ r.ctor_ok = CtlValid(r)
    /\ CtlValid(r) =>
         LET h == CtlHdr(r) d == DecodeFrame(r.frame)
         IN /\ r.hdr = h
            /\ r.frame = Frame(h, <<>>)
            /\ r.acc_ok
            /\ d.ok /\ r.dec_ok /\ r.dec_hdr = h /\ r.dec_type = HSType(h)
            /\ r.refr = r.frame
            /\ ChainOK(h, r.chain, <<>>)

(* C04 decode half: any byte string offered to the frame decoder *)
JudgeFrameDecode(r) ==
    LET d == DecodeFrame(r["in"])
    IN /\ r.panic = ""
       /\ r.ok = d.ok
       /\ r.payload_ok = d.ok                       \* payload entry points agree with the framed one
       /\ d.ok => /\ r.hdr = d.hdr
                  /\ r.type = HSType(d.hdr)
                  /\ HSType(d.hdr) = SData => /\ r.body = d.body
                                             /\ r.refr = r["in"]
                                             /\ LET b == Decode(d.body)     \* body validity per E5
                                                IN /\ r.body_ok = (d.body = <<>> \/ b.ok)
                                                   /\ r.body_stable          \* same answer on every call / holder
                                                   /\ (b.ok /\ d.body /= <<>>) => r.item = b.item
                  /\ HSType(d.hdr) /= SData => r.refr = Frame(d.hdr, <<>>)

(* C03: what a connection writes to the socket for a message is exactly its serialized frame *)
JudgeWire(r) == /\ r.err = ""
                /\ r.wire = r.frame
                /\ DecodeFrame(r.wire).ok

(* C04: the size cap, on frames too long to hand to TLC as sequences *)
JudgeCap(r) == /\ r.panic = ""
               /\ r.ok = (r.len_field = r.actual - 4 /\ r.len_field >= 10 /\ r.len_field <= MaxMsgLen)
               /\ r.payload_ok = r.ok

(* C04 stream half: the same frame stream under one segmentation / pause pattern, against a live connection *)
Prefix(n, s) == SubSeq(s, 1, n)
JudgeStream(r) ==
    /\ r.fault = ""
    /\ CASE r.kind \in {"cut", "gap-boundary"} ->        \* any segmentation, any idle gap: same messages, same order, link up
              r.alive /\ r.delivered = r.expected
         [] r.kind = "gap-inframe" ->                     \* a gap longer than T8 inside frame k drops the link; frames before k were delivered
              /\ ~r.alive /\ r.gap_frame >= 0
              /\ r.delivered = Prefix(r.gap_frame, r.expected)
         [] r.kind = "badlen" ->                          \* length outside [10, cap]: link dropped, nothing like the claimed size allocated
              /\ ~r.alive /\ r.delivered = r.expected /\ r.alloc_kb < 1024
         [] OTHER -> FALSE

Judge(r) == CASE r.t = "c03d" -> JudgeData(r)
              [] r.t = "c04cap" -> JudgeCap(r)
              [] r.t = "c04s" -> JudgeStream(r)
              [] r.t = "c03w" -> JudgeWire(r)
              [] r.t = "c03c" -> JudgeCtl(r)
              [] r.t = "c04f" -> JudgeFrameDecode(r)

Next == /\ l < Len(T) /\ l' = l + 1
        /\ IF Judge(T[l + 1]) THEN TRUE ELSE PrintT(<<"REJECT", l + 1>>)   \* report and keep walking

Judged == TRUE
=============================================================================
