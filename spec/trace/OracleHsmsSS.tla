---------------------------- MODULE OracleHsmsSS ----------------------------
(***************************************************************************)
(* Acceptor for recorded peer-frame scenarios against a live hsmsss        *)
(* connection (binding B2): each ndjson line is one TCP generation --       *)
(* the frames the raw peer wrote (step by step, each step closed by a      *)
(* Linktest barrier), the frames it read back, the handler deliveries and   *)
(* State() after the barrier.  impl/HsmsSS!Burst is folded over the steps   *)
(* from the OBSERVED starting point and must reproduce every observation.   *)
(***************************************************************************)
EXTENDS HsmsSS, Json, IOUtils

T == ndJsonDeserialize(IOEnv.VERIF_IN)

VARIABLE l
Init == l = 0

(* expected frame e vs observed frame g; an expected sb of <<>> is "library-generated, any value" *)
FrameEq(e, g) == /\ e.sid = g.sid /\ e.b2 = g.b2 /\ e.b3 = g.b3 /\ e.pt = g.pt /\ e.st = g.st
                 /\ (e.sb = <<>> \/ e.sb = g.sb) /\ e.body = g.body
SeqEq(es, gs) == Len(es) = Len(gs) /\ \A i \in 1..Len(es) : FrameEq(es[i], gs[i])
PrefixEq(es, gs) == Len(gs) <= Len(es) /\ \A i \in 1..Len(gs) : FrameEq(es[i], gs[i])

(* The responder's outputs and the S9F1 notices travel through the same FIFO; rebuild the merged order.
   An S9F1 notice is a DATA message: the sender re-checks Selected when it finally writes it (C07), so a
   notice queued before a later Deselect / drop of the same burst may legitimately be discarded: opt. *)
RECURSIVE LeavesSelected(_, _, _)
LeavesSelected(cfg, s, fs) ==
    IF s.sel /= "S" \/ ~s.up THEN TRUE
    ELSE IF fs = <<>> THEN FALSE
    ELSE LeavesSelected(cfg, Respond(cfg, s, Head(fs)).s, Tail(fs))

RECURSIVE Expected(_, _, _)
Expected(cfg, s, fs) ==
    IF fs = <<>> THEN <<>>
    ELSE LET r == Respond(cfg, s, Head(fs))
             mine == IF r.s9f1
                     THEN << [f |-> [sid |-> cfg.cutSid, b2 |-> 9, b3 |-> 1, pt |-> 0, st |-> 0, sb |-> <<>>,
                                     body |-> S9F1Body(Head(fs))],
                              opt |-> LeavesSelected(cfg, r.s, Tail(fs))] >>
                     ELSE [i \in 1..Len(r.out) |-> [f |-> r.out[i], opt |-> FALSE]]
         IN mine \o Expected(cfg, r.s, Tail(fs))

(* observed frames gs match the expected ones es (optional ones may be missing); with prefixOK the
   observation may also stop early *)
RECURSIVE Match(_, _, _)
Match(es, gs, prefixOK) ==
    IF gs = <<>> THEN prefixOK \/ \A i \in 1..Len(es) : es[i].opt
    ELSE IF es = <<>> THEN FALSE
    ELSE \/ FrameEq(Head(es).f, Head(gs)) /\ Match(Tail(es), Tail(gs), prefixOK)
         \/ Head(es).opt /\ Match(Tail(es), gs, prefixOK)

AnswersOK(cfg, s, st) ==
    LET b == Burst(cfg, s, st.tx)
    IN \* when the burst itself ends the connection (Separate while Selected, rejected Select), answers still
       \* queued behind it may be discarded with the generation: a prefix is then all that is required
       /\ Match(Expected(cfg, s, st.tx), st.rx, ~b.s.up)
       /\ st.delivered = b.delivered
       \* a second TCP connection during a live session is refused without a frame and disturbs nothing
       /\ st.second >= 0 => (st.second = 0 /\ st.second_closed)
       /\ st.alive = b.s.up
StateOK(cfg, s, st) ==
    LET b == Burst(cfg, s, st.tx)
    IN \* after a drop an active endpoint may already have re-dialled (NotSelected again)
       IF b.s.up THEN st.state = b.s.sel ELSE st.state \in {"NC", "NS"}
StepOK(cfg, s, st) == AnswersOK(cfg, s, st) /\ StateOK(cfg, s, st)
(* every frame, delivery and liveness observation of the step is right and only State() is wrong: it still says Selected
   although the deselection was accepted and answered (the shape of known finding F1 seen from outside) *)
StuckSelected(cfg, s, st) ==
    /\ AnswersOK(cfg, s, st) /\ Burst(cfg, s, st.tx).s.up /\ Burst(cfg, s, st.tx).s.sel = "NS" /\ st.state = "S"

RECURSIVE StepsOK(_, _, _)
StepsOK(cfg, s, steps) ==
    IF steps = <<>> THEN TRUE
    ELSE /\ StepOK(cfg, s, Head(steps))
         /\ StepsOK(cfg, Burst(cfg, s, Head(steps).tx).s, Tail(steps))

(* which step fails first (for the rejection signature) *)
RECURSIVE FirstBad(_, _, _, _)
FirstBad(cfg, s, steps, i) ==
    IF steps = <<>> THEN 0
    ELSE IF ~StepOK(cfg, s, Head(steps)) THEN i
    ELSE FirstBad(cfg, Burst(cfg, s, Head(steps).tx).s, Tail(steps), i + 1)

Start(r) == [sel |-> "NS", up |-> TRUE,
             open |-> IF r.role = "active" /\ Len(r.pre) > 0 THEN {r.pre[1].sb} ELSE {}]
Cfg(r) == [cutSid |-> r.cut_sid, validate |-> r.validate]

PreOK(r) == IF r.role = "active"
            THEN Len(r.pre) = 1 /\ r.pre[1].st = SSelectReq /\ r.pre[1].sid = r.cut_sid /\ r.pre[1].body = <<>>
            ELSE r.pre = <<>>

JudgeC08(r) == r.fault = "" /\ PreOK(r) /\ StepsOK(Cfg(r), Start(r), r.steps)
RECURSIVE StateAt(_, _, _, _)
StateAt(cfg, s, steps, i) == IF i = 1 THEN s ELSE StateAt(cfg, Burst(cfg, s, Head(steps).tx).s, Tail(steps), i - 1)
(* the same defect showing later: the deselection at step i was accepted and answered (State() may even have read NotSelected
   for a moment), but from then on the library behaves exactly as the transducer would had the session stayed Selected *)
ActsAsIfStillSelected(r, i) ==
    LET cfg == Cfg(r) si == StateAt(cfg, Start(r), r.steps, i) b == Burst(cfg, si, r.steps[i].tx) IN
    /\ si.sel = "S" /\ b.s.up /\ b.s.sel = "NS" /\ AnswersOK(cfg, si, r.steps[i])
    /\ StepsOK(cfg, Start(r), SubSeq(r.steps, 1, i - 1))
    /\ StepsOK(cfg, [b.s EXCEPT !.sel = "S"], SubSeq(r.steps, i + 1, Len(r.steps)))
WhyC08(r) == IF r.fault /= "" THEN "Fault" ELSE IF ~PreOK(r) THEN "Pre"
             ELSE LET i == FirstBad(Cfg(r), Start(r), r.steps, 1) IN
                  IF i > 0 /\ StuckSelected(Cfg(r), StateAt(Cfg(r), Start(r), r.steps, i), r.steps[i])
                  THEN "StuckSelected" \o ToString(i)
                  ELSE IF \E k \in 1..Len(r.steps) : ActsAsIfStillSelected(r, k) THEN "StuckSelectedLater" \o ToString(i)
                  ELSE "Step" \o ToString(i)

Judge(r) == CASE r.t = "c08" -> JudgeC08(r)
Why(r) == CASE r.t = "c08" -> WhyC08(r)

Next == /\ l < Len(T) /\ l' = l + 1
        /\ IF Judge(T[l + 1]) THEN TRUE ELSE PrintT(<<"REJECT", l + 1, Why(T[l + 1])>>)
Judged == TRUE
=============================================================================
