INIT Init
NEXT Next
INVARIANT Judged
CHECK_DEADLOCK FALSE
