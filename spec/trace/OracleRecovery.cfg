INIT Init
NEXT Next_
INVARIANT Judged
CHECK_DEADLOCK FALSE
