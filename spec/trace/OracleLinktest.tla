---------------------------- MODULE OracleLinktest ----------------------------
(***************************************************************************)
(* C19 acceptor.  (1) The exported real accounting rules must equal the    *)
(* transcription in impl/LinktestLoop on every grid point (binding B1).    *)
(* (2) End to end, a live connection with auto-linktest faces seven peer   *)
(* personalities x threshold 1..3 x suppression on/off; the verdict is     *)
(* stated on COUNTS seen by the raw peer (probes after the last sign of    *)
(* life, total probes, probes near traffic / while a reply is outstanding, *)
(* whether and when the socket was closed).                                *)
(***************************************************************************)
EXTENDS LinktestRules, Sequences, Json, IOUtils, TLC

T == ndJsonDeserialize(IOEnv.VERIF_IN)
VARIABLE l
InitO == l = 0

StepOK(r) == LET e == FailureStep(r.suppress, r.recv_now, r.sent_at, r.inflight, r.fails, r.ralf)
             IN r.got_fails = e.fails /\ r.got_ralf = e.ralf /\ r.got_credited = e.credited
RecheckOK(r) == r.got = DisconnectRecheck(r.suppress, r.inflight, r.recv_now, r.sent_at)

Slk(r) == 60 + r.max_jitter_ms
DropsAtThreshold(r) == r.dropped /\ r.probes_total = r.threshold
NeverDropped(r) == ~r.dropped /\ r.state = "S"

Persona(r) ==
    CASE r.persona = "silent" ->            \* dead peer: exactly `threshold` probes after the last sign of life, then the drop
            /\ r.dropped /\ r.probes_after_last_life = r.threshold
            /\ r.drop_ms >= r.threshold * r.t6_ms
            /\ r.drop_ms <= r.threshold * (r.interval_ms + r.t6_ms) + 100 + Slk(r)
      [] r.persona = "silent-own-sends" ->  \* our own writes suppress probes for an interval but never forgive failures
            /\ r.dropped /\ r.probes_after_last_life = r.threshold
      [] r.persona = "answering" ->
            /\ NeverDropped(r)
            /\ r.probes_total * (r.interval_ms + 25) >= r.duration_ms - 3 * r.interval_ms
      [] r.persona \in {"slow", "intermittent"} ->   \* life shown BETWEEN probe timeouts
            IF r.suppress /\ r.threshold >= 2 THEN NeverDropped(r) ELSE DropsAtThreshold(r)
      [] r.persona = "chatty" ->            \* continuous inbound traffic, probes never answered
            IF r.suppress THEN NeverDropped(r) /\ r.probes_total = 0 ELSE DropsAtThreshold(r)
      [] r.persona = "inflight" ->          \* a reply is outstanding for the whole observation
            IF r.suppress THEN NeverDropped(r) /\ r.probes_total = 0 ELSE DropsAtThreshold(r)
      [] OTHER -> FALSE

E2EOK(r) == /\ r.fault = ""
            /\ Persona(r)
            /\ r.suppress => (r.probes_near_traffic = 0 /\ r.probes_while_inflight = 0)     \* no probe while traffic flowed / a reply is outstanding
            /\ (~r.suppress /\ r.probes_total >= 2) => r.max_probe_gap_ms <= r.interval_ms + r.t6_ms + Slk(r)   \* every interval is probed

Judge(r) == CASE r.t = "ltstep" -> StepOK(r) [] r.t = "ltrecheck" -> RecheckOK(r) [] r.t = "lte2e" -> E2EOK(r)
NextO == /\ l < Len(T) /\ l' = l + 1
         /\ IF Judge(T[l + 1]) THEN TRUE ELSE PrintT(<<"REJECT", l + 1>>)
Judged == TRUE
=============================================================================
