------------------------------ MODULE TraceE37 ------------------------------
(***************************************************************************)
(* prop/E37State as a trace acceptor: what C05 demands of the observable   *)
(* behaviour of the connection-state machine, judged step by step over a   *)
(* recorded run of the REAL supervisor (binding B1+B3: the schedule came   *)
(* from TLC's exploration of impl/Supervisor, the observations from the    *)
(* real code, the verdict from this module).                               *)
(*                                                                         *)
(* A line records one critical section that the driver let run:            *)
(*   a     action (cause) name         pre/post  State() before / after    *)
(*   ev    event dequeued (SupBegin/SupFinish)    arm  T7 timer identity   *)
(*   cas_ok, parked, n_ok/n_prev/n_next, dropped (library-reported drops)  *)
(* History kept here is observable-level only: which T7 timers were armed  *)
(* (one per entry into NotSelected) and whether a Select completed since,  *)
(* whether the close was processed / Close returned, the last notification.*)
(***************************************************************************)
EXTENDS Integers, Sequences, Json, IOUtils, TLC

T == ndJsonDeserialize(IOEnv.VERIF_IN)

VARIABLES l, ok,
          cur,          \* State() after the previous line
          armCount,     \* T7 timers armed so far in this TCP generation
          armSel,       \* armSel[a]: a Select completed after timer a was armed
          pend,         \* commit whose CAS succeeded and whose completion is pending: "none"|"conn"|"sel"|"lost"
          t7q,          \* arm ids of T7 expiries injected and not yet dequeued
          beg,          \* <<event, State() at dequeue, arm id, commits since dequeue>> of the event being processed
          closedDone, closeRet, lastN

vars == <<l, ok, cur, armCount, armSel, pend, t7q, beg, closedDone, closeRet, lastN>>
NoArms == [i \in 1..8 |-> FALSE]
Echo == {"tup", "sacc", "slost"}

Fresh == /\ cur' = "NC" /\ armCount' = 0 /\ armSel' = NoArms /\ pend' = "none" /\ t7q' = <<>>
         /\ beg' = <<"-", "-", 0, 0>> /\ closedDone' = FALSE /\ closeRet' = FALSE /\ lastN' = <<>>

Init == l = 0 /\ ok = TRUE /\ cur = "NC" /\ armCount = 0 /\ armSel = NoArms /\ pend = "none" /\ t7q = <<>>
        /\ beg = <<"-", "-", 0, 0>> /\ closedDone = FALSE /\ closeRet = FALSE /\ lastN = <<>>

Legal == {<<"NC","NS">>, <<"NS","S">>, <<"S","NS">>, <<"NS","NC">>, <<"S","NC">>}

(* the history as seen by record r: a record with i = 1 starts a fresh supervisor *)
H(r) == IF r.i = 1
        THEN [cur |-> "NC", armCount |-> 0, armSel |-> NoArms, pend |-> "none", t7q |-> <<>>,
              beg |-> <<"-", "-", 0, 0>>, closedDone |-> FALSE, closeRet |-> FALSE, lastN |-> <<>>]
        ELSE [cur |-> cur, armCount |-> armCount, armSel |-> armSel, pend |-> pend, t7q |-> t7q,
              beg |-> beg, closedDone |-> closedDone, closeRet |-> closeRet, lastN |-> lastN]

Same(r) == r.post = r.pre

(* ---- the judgement of one line against the history h: named clauses of C05 ---- *)
T7Names == {"InjectT71", "InjectT72", "InjectT73", "InjectT74"}

NoHiddenChange(r, h) == r.pre = h.cur                      \* State() never moves between critical sections
EdgeLegal(r, h) == r.post /= r.pre => <<r.pre, r.post>> \in Legal
ClosedStays(r, h) == /\ r.a = "CloseReturn" => r.post = "NC"        \* after Close returns: NotConnected ...
                     /\ h.closeRet => r.post = r.pre                \* ... and stays so
CommitTakesEffect(r, h) ==                                  \* TCP up / select / deselect take effect exactly at the commit
    CASE r.a = "CommitBeginConn" ->
              IF r.pre = "NC" /\ ~h.closedDone THEN r.post = "NS" /\ r.cas_ok
              ELSE IF r.pre /= "NC" THEN Same(r) /\ ~r.cas_ok
              ELSE r.cas_ok = (r.post = "NS")               \* close already processed: judged by ClosedStays
      [] r.a = "CommitBeginSel" -> IF r.pre = "NS" THEN r.post = "S" /\ r.cas_ok ELSE Same(r) /\ ~r.cas_ok
      [] r.a = "CommitBeginLost" -> IF r.pre = "S" THEN r.post = "NS" /\ r.cas_ok ELSE Same(r) /\ ~r.cas_ok
      [] OTHER -> TRUE
OnlyCausesMove(r, h) ==                                     \* enqueueing / dequeueing / delivering never moves State()
    r.a \in ({"CommitFinish", "InjectDisc", "InjectStaleDisc", "RequestClose", "SupBegin", "NotifierTake", "Quiesce"} \cup T7Names)
        => Same(r)
NoEchoReplay(r, h) ==                                       \* processing the echo of an earlier commit never moves State()
    (r.a = "SupFinish" /\ h.beg[1] \in Echo) => Same(r)
DisconnectTakesEffect(r, h) ==
    (r.a = "SupFinish" /\ h.beg[1] = "disc") => IF r.pre \in {"NS", "S"} THEN r.post = "NC" ELSE Same(r)
CloseTakesEffect(r, h) == (r.a = "SupFinish" /\ h.beg[1] = "close") => r.post = "NC"
T7Safe(r, h) ==                                             \* never disconnected by a T7 armed before a Select
    (r.a = "SupFinish" /\ h.beg[1] = "t7" /\ r.post /= r.pre)
        => (r.pre = "NS" /\ r.post = "NC" /\ ~h.armSel[h.beg[3]])
T7TakesEffect(r, h) ==
    (r.a = "SupFinish" /\ h.beg[1] = "t7" /\ r.pre = "NS" /\ h.beg[2] = "NS" /\ h.beg[4] = 0 /\ ~h.armSel[h.beg[3]])
        => r.post = "NC"
NotifyChain(r, h) ==
    (r.a = "NotifierTake" /\ r.n_ok) =>
        /\ ~h.closeRet                                      \* nothing is delivered after Close returned
        /\ r.n_prev /= r.n_next                             \* no self-transition
        /\ IF h.lastN = <<>> THEN r.n_prev = "NC" \/ r.dropped > 0
           ELSE r.n_prev = h.lastN[2] \/ r.dropped > h.lastN[3]
FinalAgrees(r, h) ==
    (r.a = "Quiesce" /\ r.qlen = 0 /\ r.nlen = 0) =>
        /\ h.lastN /= <<>> => h.lastN[2] = r.post
        /\ (h.lastN = <<>> /\ r.dropped = 0) => r.post = "NC"
KnownAction(r, h) == r.a \in ({"CommitBeginConn", "CommitBeginSel", "CommitBeginLost", "CommitFinish", "InjectDisc",
                               "InjectStaleDisc", "RequestClose", "SupBegin", "SupFinish", "NotifierTake", "CloseReturn",
                               "Quiesce"} \cup T7Names)

Clauses(r, h) == << <<"KnownAction", KnownAction(r, h)>>, <<"NoHiddenChange", NoHiddenChange(r, h)>>,
                    <<"EdgeLegal", EdgeLegal(r, h)>>, <<"NoEchoReplay", NoEchoReplay(r, h)>>, <<"T7Safe", T7Safe(r, h)>>,
                    <<"ClosedStays", ClosedStays(r, h)>>, <<"CommitTakesEffect", CommitTakesEffect(r, h)>>,
                    <<"OnlyCausesMove", OnlyCausesMove(r, h)>>, <<"DisconnectTakesEffect", DisconnectTakesEffect(r, h)>>,
                    <<"CloseTakesEffect", CloseTakesEffect(r, h)>>, <<"T7TakesEffect", T7TakesEffect(r, h)>>,
                    <<"NotifyChain", NotifyChain(r, h)>>, <<"FinalAgrees", FinalAgrees(r, h)>> >>
Judge(r, h) == \A i \in 1..Len(Clauses(r, h)) : Clauses(r, h)[i][2]
Why(r, h) == LET c == Clauses(r, h) IN c[CHOOSE i \in 1..Len(c) : ~c[i][2] /\ \A j \in 1..(i - 1) : c[j][2]][1]

ArmId(a) == CASE a = "InjectT71" -> 1 [] a = "InjectT72" -> 2 [] a = "InjectT73" -> 3 [] OTHER -> 4

(* ---- history update ---- *)
Update(r, h) ==
    /\ cur' = r.post
    /\ pend' = CASE r.a = "CommitBeginConn" /\ r.cas_ok -> "conn"
                 [] r.a = "CommitBeginSel" /\ r.cas_ok -> "sel"
                 [] r.a = "CommitBeginLost" /\ r.cas_ok -> "lost"
                 [] r.a = "CommitFinish" -> "none"
                 [] OTHER -> h.pend
    /\ armCount' = CASE r.a = "CommitFinish" /\ h.pend = "conn" -> 1
                     [] r.a = "CommitFinish" /\ h.pend = "lost" -> h.armCount + 1
                     [] OTHER -> h.armCount
    /\ armSel' = CASE r.a = "CommitFinish" /\ h.pend = "conn" -> NoArms
                   [] r.a = "CommitBeginSel" /\ r.cas_ok -> [i \in 1..8 |-> IF i <= h.armCount THEN TRUE ELSE h.armSel[i]]
                   [] OTHER -> h.armSel
    /\ t7q' = CASE r.a \in {"InjectT71", "InjectT72", "InjectT73", "InjectT74"} -> Append(h.t7q, ArmId(r.a))
                [] r.a = "SupBegin" /\ r.ev = "t7" /\ h.t7q /= <<>> -> Tail(h.t7q)
                [] OTHER -> h.t7q
    /\ beg' = CASE r.a = "SupBegin" /\ r.parked ->
                     <<r.ev, r.pre, IF r.ev = "t7" /\ h.t7q /= <<>> THEN Head(h.t7q) ELSE 8, 0>>
                [] r.a = "SupFinish" -> <<"-", "-", 0, 0>>
                [] r.a \in {"CommitBeginConn", "CommitBeginSel", "CommitBeginLost"} /\ r.cas_ok ->
                     <<h.beg[1], h.beg[2], h.beg[3], h.beg[4] + 1>>
                [] OTHER -> h.beg
    /\ closedDone' = (h.closedDone \/ (r.a = "SupFinish" /\ h.beg[1] = "close"))
    /\ closeRet' = (h.closeRet \/ r.a = "CloseReturn")
    /\ lastN' = IF r.a = "NotifierTake" /\ r.n_ok THEN <<r.n_prev, r.n_next, r.dropped>> ELSE h.lastN

Next == /\ l < Len(T)
        /\ l' = l + 1
        /\ LET r == T[l + 1] h == H(r)
           IN /\ ok' = Judge(r, h)
              /\ IF Judge(r, h) THEN TRUE ELSE PrintT(<<"REJECT", l + 1, Why(r, h)>>)    \* report and keep walking
              /\ Update(r, h)

Accepted == TRUE
=============================================================================
