--------------------------- MODULE TraceConnection ---------------------------
(***************************************************************************)
(* Trace validation of the real Open / Close / reconnect machinery against *)
(* impl/Connection (repaired variant: Open(wait) releases lifeMu).  The    *)
(* trace is one scenario-wide, mutex-ordered event log of a concurrent     *)
(* history (2..3 API goroutines against a misbehaving peer):               *)
(*   call c op     an API goroutine is about to call Open(bg) / Open(wait) *)
(*                 / Close (it may then block on lifeMu)                   *)
(*   ret c op res  the call returned res                                   *)
(*   start-ok / start-fail   a dial / Listen of the library returned, as   *)
(*                 seen by the harness-owned net                           *)
(*   selected      the peer is about to complete a selection               *)
(*   peerdrop      the peer is about to close / reset its socket           *)
(* Everything else (lock acquisition, guard, fence, join, supervisor and   *)
(* reconnect-loop steps, teardown, drops the library decides itself --     *)
(* T6/T7/linktest) is a silent step TLC infers, depth-first.  The trace is *)
(* accepted iff some behaviour consumes every event; acceptance shows as   *)
(* the violation of NotAccepted.                                           *)
(***************************************************************************)
EXTENDS Connection, Json, IOUtils

Tr == ndJsonDeserialize(IOEnv.VERIF_IN)[1]
TrCallers == {Tr.events[i].c : i \in {j \in 1..Len(Tr.events) : Tr.events[j].k = "call"}}
NStarts == Cardinality({i \in 1..Len(Tr.events) : Tr.events[i].k \in {"start-ok", "start-fail"}})
TrMaxEpochs == NStarts + 2
TrMaxDrops == NStarts + Cardinality({i \in 1..Len(Tr.events) : Tr.events[i].k = "peerdrop"}) + 1

VARIABLES l, pending
tvars == <<vars, l, pending>>
Ev == Tr.events[l]
More == l <= Len(Tr.events)
ModeOf(o) == CASE o = "Open(bg)" -> "open-bg" [] o = "Open(wait)" -> "open-wait" [] OTHER -> "close"
ResOf(r) == CASE r = "nil" -> "ok" [] OTHER -> r          \* the model calls success "ok"

TInit == TLCSet(1, 0) /\ Init /\ l = 1 /\ pending = [c \in TrCallers |-> "-"]

Q == UNCHANGED <<l, pending>>
(* ---- events ---- *)
TCall == /\ More /\ Ev.k = "call" /\ pending[Ev.c] = "-" /\ pc[Ev.c] = "idle"
         /\ pending' = [pending EXCEPT ![Ev.c] = ModeOf(Ev.op)] /\ l' = l + 1 /\ UNCHANGED vars
TRet == /\ More /\ Ev.k = "ret" /\ pending[Ev.c] = "-" /\ pc[Ev.c] = "idle"
        /\ op[Ev.c] = ModeOf(Ev.op) /\ ret[Ev.c] = ResOf(Ev.res)
        /\ l' = l + 1 /\ UNCHANGED <<vars, pending>>
TStartOK == /\ More /\ Ev.k = "start-ok" /\ ((\E c \in TrCallers : OStartOK(c)) \/ (\E x \in loops : LStartOK(x)))
            /\ l' = l + 1 /\ UNCHANGED pending
TStartFail == /\ More /\ Ev.k = "start-fail"
              /\ ((\E c \in TrCallers : OStartFailCold(c) \/ OStartFailRollback(c)) \/ (\E x \in loops : LStartFail(x)))
              /\ l' = l + 1 /\ UNCHANGED pending
SelGuard == cur > 0 /\ ep[cur] = "live" /\ tcp[cur] /\ ~selected /\ ~latched
TSelected == /\ More /\ Ev.k = "selected" /\ (IF SelGuard THEN PeerSelects ELSE UNCHANGED vars)
             /\ l' = l + 1 /\ UNCHANGED pending
DropGuard == cur > 0 /\ ep[cur] = "live" /\ tcp[cur] /\ drops < TrMaxDrops /\ sup = "alive"
TPeerDrop == /\ More /\ Ev.k = "peerdrop" /\ (IF DropGuard THEN PeerDrops ELSE UNCHANGED vars)
             /\ l' = l + 1 /\ UNCHANGED pending
(* ---- silent steps ---- *)
TStartOp(c) == /\ pending[c] /= "-"
               /\ IF pending[c] = "close" THEN StartClose(c) ELSE StartOpen(c, pending[c])
               /\ pending' = [pending EXCEPT ![c] = "-"] /\ UNCHANGED l
TInternalDrop == PeerDrops /\ Q                  \* T6 / T7 / T8 / linktest expiry, write failure: the library drops the link itself
CallerStep(c) == OGuard(c) \/ OJoin(c) \/ OColdWait(c) \/ ORollbackWait(c) \/ OWaitDone(c) \/ CShortcut(c) \/ CFence(c) \/ CWait(c)
LoopSilent(x) == LWaitPrev(x) \/ LSleep(x) \/ LFence(x) \/ LPublish(x) \/ LWaitOwn(x)
Silent == \/ \E c \in TrCallers : TStartOp(c)
          \/ \E c \in TrCallers : (CallerStep(c) /\ Q)
          \/ (SupStep /\ Q)
          \/ \E x \in loops : (LoopSilent(x) /\ Q)
          \/ \E e \in Epochs : (JoinDone(e) /\ Q)
          \/ TInternalDrop
TNext == TCall \/ TRet \/ TStartOK \/ TStartFail \/ TSelected \/ TPeerDrop \/ Silent
TSpec == TInit /\ [][TNext]_tvars

Accepted == l = Len(Tr.events) + 1
NotAccepted == ~Accepted
HighWater == IF l > TLCGet(1) THEN TLCSet(1, l) /\ PrintT(<<"HW", l - 1, Len(Tr.events)>>) ELSE TRUE
=============================================================================
