----------------------------- MODULE OracleSml -----------------------------
(***************************************************************************)
(* C13 / C14 / C15 acceptor over recorded SML renderings and parses.       *)
(*   smlrender  C15: ToSML vs default encoder, reference text, read-back   *)
(*   smlrt      C13: strict encoder (all option combinations) -> strict    *)
(*                   parser; reference text                                *)
(*   smlacc     C13: parser-accepted text -> encode -> parse               *)
(*   smltotal   C14: one parse of one arbitrary text in a child process    *)
(*   smlconc    C14: concurrent vs sequential use of parsers / encoders    *)
(***************************************************************************)
EXTENDS SmlText, Json, IOUtils, TLC

T == ndJsonDeserialize(IOEnv.VERIF_IN)
VARIABLE l
InitO == l = 0

RenderWhy(r) ==
    IF r.panic /= "" THEN "RendererPanicked"
    ELSE IF r.tosml /= r.enc THEN "EncoderDiffersFromToSML"
    ELSE IF ~r.enc_instances_agree THEN "EncoderInstancesDisagree"
    ELSE IF Renderable(r.item) /\ r.enc /= Render(DefaultOpts, r.item, 0) THEN "RenderingNotTheReferenceText"
    ELSE IF NumericOnly(r.item) /\ ~r.parsed_ok THEN "RenderingNotParsedBack"
    ELSE IF NumericOnly(r.item) /\ ~Same(r.parsed, r.item) THEN "ParserReadsBackOtherValues"
    ELSE ""

Opts(o) == [strict |-> o.strict, quote |-> o.quote, bin |-> o.bin, indent |-> o.indent, sfq |-> o.sfq]
RtWhy(r) ==
    IF r.panic /= "" THEN "StrictRoundTripPanicked"
    ELSE IF r.enc_err /= "" THEN "StrictEncoderFailed"
    ELSE IF Renderable(r.msg.item) /\ r.text /= RenderMsg(Opts(r.opts), r.msg.s, r.msg.f, r.msg.w, r.msg.item) THEN "StrictTextNotTheReferenceText"
    ELSE IF r.parse_err /= "" THEN "StrictParserRejectsStrictEncoding"
    ELSE IF r.nmsgs /= 1 THEN "StrictParseMessageCount"
    ELSE IF r.parsed.s /= r.msg.s \/ r.parsed.f /= r.msg.f \/ r.parsed.w /= r.msg.w THEN "HeaderNotPreserved"
    ELSE IF ~Same(r.parsed.item, r.msg.item) THEN "BodyNotPreserved"
    ELSE IF ~r.has_nan /\ ~r.has_loc /\ ~r.equal_api THEN "EqualDisagrees"
    ELSE ""

MsgSame(a, b) == a.s = b.s /\ a.f = b.f /\ a.w = b.w /\ a.item.k = b.item.k /\ (a.item.k = "EMPTY" \/ Same(a.item, b.item))
AccWhy(r) ==
    IF r.panic /= "" THEN "ParserOrEncoderPanicked"
    ELSE IF ~r.accepted \/ ~r.in_scope THEN ""
    ELSE IF r.re_err /= "" THEN "AcceptedTextDoesNotReEncodeAndReParse"
    ELSE IF Len(r.first) /= Len(r.second) THEN "ReParseMessageCount"
    ELSE IF \E i \in 1..Len(r.first) : ~MsgSame(r.first[i], r.second[i]) THEN "ReParsedMessageDiffers"
    ELSE ""

(* position of a syntax error, recomputed from the input bytes when they were recorded (n <= 2048) *)
NlBefore(s, off) == Len(SelectSeq(SubSeq(s, 1, off), LAMBDA c : c = 10))
RECURSIVE LastNl(_, _)
LastNl(s, off) == IF off = 0 THEN 0 ELSE IF s[off] = 10 THEN off ELSE LastNl(s, off - 1)      \* 1-based position, 0 if none
(* generous resource envelope: quadratic time, linear memory -- in ms / KiB so that everything stays inside TLC's 32-bit integers *)
Kq(kb) == IF kb > 65536 THEN 2048 ELSE kb \div 32
TimeBoundMs(kb) == 1000 + kb \div 4 + (Kq(kb) * Kq(kb)) * 150
AllocBoundKB(kb) == 4096 + 256 * kb
TotalWhy(r) ==
    IF r.outcome = "harness" THEN ""
    ELSE IF r.outcome = "panic" THEN "ParserPanicked"
    ELSE IF r.outcome = "crash" THEN "ParserCrashedTheProcess"
    ELSE IF r.outcome = "hang" THEN "ParserDidNotTerminate"
    ELSE IF r.dur_ms > TimeBoundMs(r.n_kb) THEN "TimeNotPolynomiallyBounded"
    ELSE IF r.alloc_kb > AllocBoundKB(r.n_kb) THEN "MemoryNotBoundedByInput"
    ELSE IF ~r.msgs_valid THEN "ReturnedInvalidMessages"
    ELSE IF r.outcome = "error" /\ r.is_parse_error
         THEN IF r.offset < 0 \/ r.offset > r.n THEN "OffsetOutsideInput"
              ELSE IF r.line /= r.nl_before + 1 \/ r.col /= r.offset - r.last_nl THEN "LineColInconsistentWithOffset"
              ELSE IF r.n <= 2048 /\ (r.nl_before /= NlBefore(r.input, r.offset) \/ r.last_nl /= LastNl(r.input, r.offset) - 1) THEN "HarnessPositionAccountingWrong"
              ELSE ""
    ELSE ""

ConcWhy(r) == IF r.hung THEN "ConcurrentUseDidNotTerminate" ELSE IF r.crashed THEN "ConcurrentUseCrashed" ELSE IF r.panics > 0 THEN "ConcurrentUsePanicked" ELSE IF r.mismatches > 0 THEN "ConcurrentUseDiffersFromSequential" ELSE ""

Why(r) == CASE r.t = "smlrender" -> RenderWhy(r) [] r.t = "smlrt" -> RtWhy(r) [] r.t = "smlacc" -> AccWhy(r)
            [] r.t = "smltotal" -> TotalWhy(r) [] r.t = "smlconc" -> ConcWhy(r) [] OTHER -> "UnknownLine"
NextO == /\ l < Len(T) /\ l' = l + 1
         /\ LET w == Why(T[l + 1]) IN IF w = "" THEN TRUE ELSE PrintT(<<"REJECT", l + 1, w>>)
Judged == TRUE
=============================================================================
