----------------------------- MODULE OracleGate -----------------------------
(* Walks recorded send-gate probes (vh c07) and judges each with prop/Gate. *)
EXTENDS Gate, Sequences, Json, IOUtils, TLC

T == ndJsonDeserialize(IOEnv.VERIF_IN)
VARIABLE l
Init == l = 0
(* "c07p": the peer's Select.req is committed while the supervisor sits between the state load and the store of an OLDER
   event (TCP-up echo / Deselect echo); the data frames pipelined behind the Select.req must be delivered, never rejected *)
PipelinedOK(r) == /\ r.supervisor_parked /\ r.commit_in_window          \* the interleaving was really produced
                  /\ r.select_rsp_status = 0 /\ r.rejects = 0 /\ r.delivered = r.data_sent /\ r.state_after = "S"
Judge(r) == r.fault = "" /\ r.panic = "" /\ (IF r.t = "c07p" THEN PipelinedOK(r) ELSE GateOK(r))
Next == /\ l < Len(T) /\ l' = l + 1
        /\ IF Judge(T[l + 1]) THEN TRUE ELSE PrintT(<<"REJECT", l + 1>>)
Judged == TRUE
=============================================================================
