----------------------------- MODULE OracleGate -----------------------------
(* Walks recorded send-gate probes (vh c07) and judges each with prop/Gate. *)
EXTENDS Gate, Sequences, Json, IOUtils, TLC

T == ndJsonDeserialize(IOEnv.VERIF_IN)
VARIABLE l
Init == l = 0
Judge(r) == r.fault = "" /\ r.panic = "" /\ GateOK(r)
Next == /\ l < Len(T) /\ l' = l + 1
        /\ IF Judge(T[l + 1]) THEN TRUE ELSE PrintT(<<"REJECT", l + 1>>)
Judged == TRUE
=============================================================================
