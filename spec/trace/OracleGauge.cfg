INIT InitO
NEXT NextO
INVARIANT Judged
CHECK_DEADLOCK FALSE
