--------------------------- MODULE OracleRecovery ---------------------------
(* Walks recorded recovery scenarios (vh recov) and pure backoff steps (vh backoff); judged by prop/Recovery. *)
EXTENDS Recovery, Json, IOUtils

T == ndJsonDeserialize(IOEnv.VERIF_IN)
VARIABLE l
Init == l = 0
Next_ == /\ l < Len(T) /\ l' = l + 1
         /\ LET r == T[l + 1] IN
            IF r.t = "backoff"
            THEN IF BackoffStepOK(r) THEN TRUE ELSE PrintT(<<"REJECT", l + 1, "BackoffStep">>)
            ELSE IF Failing(r) = <<>> THEN TRUE ELSE PrintT(<<"REJECT", l + 1, Join(Failing(r))>>)
Judged == TRUE
=============================================================================
