-------------------------- MODULE OracleLifecycle --------------------------
(* Walks recorded lifecycle histories (vh life); judged by prop/Lifecycle. *)
EXTENDS Lifecycle, Json, IOUtils

T == ndJsonDeserialize(IOEnv.VERIF_IN)
VARIABLE l
Init == l = 0
Next == /\ l < Len(T) /\ l' = l + 1
        /\ LET r == T[l + 1] IN
           IF r.fault /= "" THEN PrintT(<<"REJECT", l + 1, "Fault">>)
           ELSE IF Failing(r) = <<>> THEN TRUE ELSE PrintT(<<"REJECT", l + 1, Join(Failing(r))>>)
Judged == TRUE
=============================================================================
