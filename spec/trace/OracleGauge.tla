---------------------------- MODULE OracleGauge ----------------------------
(***************************************************************************)
(* C20, last sentence, on a COLD START: an active connection is opened     *)
(* while its peer refuses r.refused dials, then the session is selected    *)
(* and closed.  The reconnecting gauge is never negative, is positive      *)
(* while a reconnect loop runs (read inside the dialer at every dial from  *)
(* the second on: a loop is certainly running then), and is zero at the    *)
(* quiescent Selected point and after Close.                               *)
(***************************************************************************)
EXTENDS Json, IOUtils, TLC, Sequences, Integers

T == ndJsonDeserialize(IOEnv.VERIF_IN)
VARIABLE l
InitO == l = 0
(* C09, second sentence (t = "parked"): fire-and-forget sends parked on a full queue when their generation ends
   complete promptly with the connection-closed error -- no caller cancelled anything, so "ctx" is not an answer --
   and none of them is flushed into the next generation *)
Allowed == {"nil", "closed", "not-selected"}
WhyParked(r) ==
    IF r.fault /= "" THEN "HarnessFault"
    ELSE IF r.unreturned > 0 THEN "GenParkedSendNeverReturned"
    ELSE IF \E i \in 1..Len(r.results) : r.results[i] \notin Allowed THEN "GenParkedSendNotClosedError"
    ELSE IF \E i \in 1..Len(r.late_ms) : r.late_ms[i] > 1000 THEN "GenParkedSendNotPrompt"
    ELSE IF r.next_gen_data > 0 THEN "GenQueuedMessageFlushedLater"
    ELSE ""
Why(r) ==
    IF r.t = "parked" THEN WhyParked(r) ELSE
    IF r.fault /= "" THEN "HarnessFault"
    ELSE IF r.min_gauge < 0 THEN "MetReconnectingNegative"
    ELSE IF \E i \in 1..Len(r.gauge_at_redial) : r.gauge_at_redial[i] <= 0 THEN "MetReconnectingNotPositiveWhileLoopRuns"
    ELSE IF r.gauge_at_selected /= 0 THEN "MetReconnectingNotZeroAtQuiescentSelected"
    ELSE IF r.gauge_after_close /= 0 THEN "MetReconnectingNotZeroAfterClose"
    ELSE IF r.refused >= 1 /\ r.dials < r.refused + 1 THEN "HarnessFault"
    ELSE ""
NextO == /\ l < Len(T) /\ l' = l + 1
         /\ LET w == Why(T[l + 1]) IN IF w = "" THEN TRUE ELSE PrintT(<<"REJECT", l + 1, w>>)
Judged == TRUE
=============================================================================
