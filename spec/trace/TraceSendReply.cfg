SPECIFICATION TSpec
CONSTANTS MaxEpoch = 2 MaxPeer = 100000 CtlCompletesData = FALSE DropsLateReply = FALSE
CONSTANT Senders <- TrSenders
CONSTANT MaxSb <- TrMaxSb
INVARIANT NotAccepted
CONSTRAINT HighWater
CONSTRAINT Prune
CHECK_DEADLOCK FALSE
