------------------------------ MODULE OracleE5 ------------------------------
(***************************************************************************)
(* Spec-as-oracle pass (binding B4) for the SECS-II codec properties.      *)
(* The Go harness records one observation of the REAL code per ndjson      *)
(* line; TLC walks the file (one state per line) and the invariant Judged  *)
(* evaluates the E5Codec reference on the recorded input and compares it   *)
(* with the recorded output.  A violated invariant names the line.         *)
(***************************************************************************)
EXTENDS E5Gen, Json, IOUtils

T == ndJsonDeserialize(IOEnv.VERIF_IN)

VARIABLE l
(* l = 0 is a dummy first state: TLC evaluates initial states on the JVM main thread,
   whose stack -Xss does not enlarge; every judgement must happen on a worker thread. *)
Init == l = 0

(* C01: item built by the public constructors -> bytes, length, decode back *)
JudgeC01(r) ==
    /\ r.panic = "" /\ r.err = ""
    /\ Valid(r.item, 0)
    /\ Matches(r.item, r.bytes)
    /\ r.enclen = Len(r.bytes)
    /\ r.append_ok /\ r.det
    /\ r.dec_ok /\ r.dec = r.item
    /\ r.equal /\ r.owned_same

JudgeC01RL(r) ==
    /\ r.panic = "" /\ r.err = ""
    /\ r.hdr = RLHeader(r.rl)
    /\ r.unit = RLUnit(r.rl)
    /\ r.uniform
    /\ r.total = Len(r.hdr) + (IF r.rl.k = "LOC" THEN r.rl.n + 2 ELSE r.rl.n * Width(r.rl.k))
    /\ r.rl.k = "LOC" => r.lsh = <<1, 2>>
    /\ r.enclen = r.total
    /\ r.det /\ r.dec_eq

(* C02: arbitrary bytes -> decode outcome *)
JudgeC02(r) ==
    LET d == Decode(r["in"])
    IN /\ r.panic = ""
       /\ r.ok = d.ok
       /\ r.owned_same
       /\ r.alloc <= 64 * Len(r["in"]) + 262144      \* memory bounded by the input, whatever it claims
       /\ d.ok => /\ r.item = d.item
                  /\ r.reenc = SubSeq(r["in"], 1, d.n)

Judge(r) == CASE r.t = "c01"   -> JudgeC01(r)
              [] r.t = "c01rl" -> JudgeC01RL(r)
              [] r.t = "c02"   -> JudgeC02(r)

Next == /\ l < Len(T) /\ l' = l + 1
        /\ IF Judge(T[l + 1]) THEN TRUE ELSE PrintT(<<"REJECT", l + 1>>)   \* report and keep walking

Judged == TRUE
=============================================================================
