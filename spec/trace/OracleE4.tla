------------------------------ MODULE OracleE4 ------------------------------
(***************************************************************************)
(* C17 / C18 acceptor over what an independent E4 reference peer recorded  *)
(* on the line of a live secs1 connection.                                 *)
(***************************************************************************)
EXTENDS Secs1Assembler, Json, IOUtils

T == ndJsonDeserialize(IOEnv.VERIF_IN)
VARIABLE l
InitO == l = 0

(* send half: the blocks the library put on the line for one message *)
SendWhy(r) ==
    IF r.fault /= "" \/ r.send_err /= "" THEN "SendFailed"
    ELSE IF \E i \in 1..Len(r.blocks) : ~WellFormed(r.blocks[i]) THEN "BlockMalformed"
    ELSE IF \E i \in 1..Len(r.blocks) : Len(BBody(r.blocks[i])) > MaxBody THEN "BlockTooLong"
    ELSE IF r.blocks /= Split(r.device, IF r.is_equip THEN 1 ELSE 0, r.s, IF r.w THEN 1 ELSE 0, r.f, r.sb, r.body) THEN "BlocksNotSplitOfMessage"
    ELSE ""

(* receive half: what was delivered for a history of blocks sent by the peer.
   T4 is judged with a tolerance: a history is accepted if it matches the model for T4 - Tol or for T4 + Tol *)
Tol == 60
Good(r) == SelectSeq(r.sent, LAMBDA x : x.good)
Hist(r) == [i \in 1..Len(Good(r)) |-> [img |-> Good(r)[i].raw, at |-> Good(r)[i].at_ms]]
MsgEq(e, d) == /\ d.s = e.mh[3] % 128 /\ d.w = (e.mh[3] >= 128) /\ d.f = e.mh[4] /\ d.sb = SubSeq(e.mh, 5, 8) /\ d.body = e.body
NoticeEq(cfg, v, n) ==
    /\ WellFormed(n) /\ BDevice(n) = cfg.device /\ BRbit(n) = 1 /\ BStream(n) = 9 /\ BWbit(n) = 0
    /\ BFunction(n) = (IF v.kind = "device" THEN 1 ELSE 7)
    /\ BEbit(n) = 1 /\ BNo(n) \in {0, 1}
    /\ BBody(n) = <<33, 10>> \o v.hdr                       \* <B[10] offending header>
Matches(r, t4) ==
    LET cfg == [device |-> r.device, isEquip |-> r.is_equip, t4 |-> t4]
        a == Assemble(cfg, Hist(r)) IN
    /\ Len(a.out) = Len(r.delivered) /\ \A i \in 1..Len(a.out) : MsgEq(a.out[i], r.delivered[i])
MatchesNotices(r, t4) ==
    LET cfg == [device |-> r.device, isEquip |-> r.is_equip, t4 |-> t4]
        a == Assemble(cfg, Hist(r)) IN
    IF r.is_equip THEN Len(a.viol) = Len(r.notices) /\ \A i \in 1..Len(a.viol) : NoticeEq(cfg, a.viol[i], r.notices[i])
    ELSE r.notices = <<>>
RecvWhy(r) ==
    IF r.fault /= "" THEN "HarnessFault"
    ELSE IF \E i \in 1..Len(r.sent) : ~r.sent[i].good /\ r.sent[i].reply /= "nak" THEN "CorruptBlockNotNaked"
    ELSE IF \E i \in 1..Len(r.sent) : r.sent[i].good /\ r.sent[i].reply /= "ack" THEN "GoodBlockNotAcked"
    ELSE IF ~(r.alive /\ r.state = "S") THEN "LinkTakenDown"
    ELSE IF ~(Matches(r, r.t4_ms - Tol) \/ Matches(r, r.t4_ms + Tol)) THEN "DeliveredNotWhatAssemblyRulesGive"
    ELSE IF ~(  (Matches(r, r.t4_ms - Tol) /\ MatchesNotices(r, r.t4_ms - Tol))
             \/ (Matches(r, r.t4_ms + Tol) /\ MatchesNotices(r, r.t4_ms + Tol))) THEN "S9NoticesNotWhatRulesGive"
    ELSE ""

(* C18: one message sent by the library over a faulty line (the peer misbehaves per attempt) *)
LineWhy(r) ==
    IF r.fault /= "" THEN "HarnessFault"
    ELSE IF r.attempts > r.retry + 1 THEN "MoreThanRetryPlusOneAttempts"
    ELSE IF r.peer_got_good > 1 THEN "BlockAcceptedTwice"
    ELSE IF r.faults_in_a_row > r.retry
         THEN IF r.send_result = "nil" THEN "SendSucceededThoughNeverAcked"
              ELSE IF r.attempts /= r.retry + 1 THEN "GaveUpEarly"
              ELSE IF ~r.relinked THEN "NoRelinkAfterRetryExhaustion"
              ELSE ""
         ELSE IF r.send_result /= "nil" THEN "SendFailedWithinRetryLimit"
              ELSE IF r.peer_got_good /= 1 THEN "SucceededButNotReceivedOnce"
              ELSE IF r.attempts /= r.faults_in_a_row + 1 THEN "AttemptCountWrong"
              ELSE ""

(* C18: messages sent BY the peer over a line where the library's ACKs get lost / blocks are retransmitted *)
OnceWhy(r) ==
    IF r.fault /= "" THEN "HarnessFault"
    ELSE IF Len(r.delivered) > Len(r.expected) THEN "DeliveredMoreThanSent"
    ELSE IF Len(r.delivered) < Len(r.expected) THEN "MessageLost"
    ELSE IF \E i \in 1..Len(r.expected) : r.delivered[i] /= r.expected[i] THEN "AlteredOrReordered"
    ELSE IF ~r.alive THEN "LinkTakenDown"
    ELSE ""

(* C18: both ends request to send at once *)
ContWhy(r) ==
    IF r.fault /= "" THEN "HarnessFault"
    ELSE IF r.send_result /= "nil" THEN "ContendedSendFailed"
    ELSE IF r.peer_got_good /= r.want_peer_good \/ Len(r.delivered) /= 1 THEN "ContentionLostOrDuplicatedAMessage"
    ELSE IF Len(r.delivered[1].body) /= r.want_len THEN "ContentionDeliveredATornMessage"
    ELSE IF r.first_on_line /= "equipment" THEN "MasterDidNotSendFirst"
    ELSE ""

(* C09 on SECS-I: a generation ends while sends are acked-and-waiting, on the line, queued behind the line engine *)
GenWhy(r) ==
    IF r.fault /= "" THEN "HarnessFault"
    ELSE IF \E i \in 1..Len(r.sends) : ~r.sends[i].returned THEN "GenSendNeverReturned"
    ELSE IF \E i \in 1..Len(r.sends) : r.sends[i].latency_ms > 1000 + r.max_jitter_ms THEN "GenSendReturnedLate"
    ELSE IF \E i \in 1..Len(r.sends) : r.sends[i].kind /= "async" /\ r.sends[i].name /= "old-W-acked" /\ r.sends[i].err = "" THEN "GenSendReportedSuccess"
    ELSE IF r.sends[1].err = "" THEN "GenReplyFromNowhere"
    ELSE IF ~r.next_gen_up THEN "GenNoNextGeneration"
    ELSE IF r.stale_blocks > 0 THEN "GenStaleBlockOnNewGeneration"
    ELSE IF ~r.fresh_send_ok THEN "GenFreshSendLost"
    ELSE ""

(* C17: a malformed inbound block while the application floods fire-and-forget sends must not stop the line *)
WedgeWhy(r) ==
    IF r.fault /= "" THEN "HarnessFault"
    ELSE IF r.blocks_after_violation = 0 THEN "MalformedBlockWedgedTheLine"
    ELSE IF r.probe_send_result /= "nil" THEN "SendAfterMalformedBlockNeverCompleted"
    ELSE IF ~r.alive \/ r.state /= "S" THEN "LinkTakenDown"
    ELSE ""

(* C20 on SECS-I: counters and gauges at the quiescent points of a two-generation scenario *)
MetWhy(r) ==
    IF r.fault /= "" THEN "HarnessFault"
    ELSE IF r.min_inflight < 0 \/ r.min_reconnecting < 0 THEN "MetGaugeNegative"
    ELSE IF r.m1.Inflight /= 0 \/ r.m2.Inflight /= 0 THEN "MetInflightNotZeroAtQuiescence"
    ELSE IF r.m1.Reconnecting /= 0 \/ (r.gen2_selected /\ r.m2.Reconnecting /= 0) THEN "MetReconnectingNotZeroAtQuiescence"
    ELSE IF r.m1.Send - r.m0.Send /= r.peer_got_msgs THEN "MetSentCounterNotWhatThePeerReceived"
    ELSE IF r.m1.Recv - r.m0.Recv /= r.peer_sent_msgs THEN "MetRecvCounterNotWhatThePeerSent"
    ELSE IF r.m1.Err - r.m0.Err /= r.sends_t3 THEN "MetErrCounterNotTheTimedOutSends"
    ELSE IF r.m1.Drop /= r.m0.Drop THEN "MetDropCounterMoved"
    ELSE IF r.m2.Send /= r.m1.Send \/ r.m2.Recv /= r.m1.Recv THEN "MetCountersMovedAcrossTheReconnect"
    ELSE ""
(* C11 on SECS-I: the active role's reconnect counter moves by exactly one per successful re-dial *)
GenReconnWhy(r) ==
    IF r.fault = "" /\ ~r.passive /\ r.mode /= "handler-busy-close" /\ r.next_gen_up /\ r.reconnects_delta /= 1 THEN "RecReconnectCounterNotOnePerRedial"
    ELSE ""

Why(r) == CASE r.t = "e4send" -> SendWhy(r) [] r.t = "e4recv" -> RecvWhy(r) [] r.t = "e4line" -> LineWhy(r)
            [] r.t = "e4once" -> OnceWhy(r) [] r.t = "e4cont" -> ContWhy(r) [] r.t = "e4gen" -> (IF GenWhy(r) /= "" THEN GenWhy(r) ELSE GenReconnWhy(r)) [] r.t = "e4met" -> MetWhy(r) [] r.t = "e4wedge" -> WedgeWhy(r) [] OTHER -> "UnknownLine"
NextO == /\ l < Len(T) /\ l' = l + 1
         /\ LET w == Why(T[l + 1]) IN IF w = "" THEN TRUE ELSE PrintT(<<"REJECT", l + 1, w>>)
Judged == TRUE
=============================================================================
