---------------------------- MODULE OracleStale ----------------------------
(***************************************************************************)
(* C05, environment assumption MaxStale = 0 of impl/Supervisor.tla made an *)
(* observation: a receive goroutine of generation N that was abandoned by  *)
(* the bounded teardown (its data handler was blocked past the close       *)
(* timeout) and returns only after generation N+1 reached Selected must    *)
(* not inject anything into the successor: State() stays Selected, no      *)
(* notification is delivered, the successor's socket stays open and keeps  *)
(* answering.  (prop clause: a state change has a cause in ITS generation; *)
(* it is never produced by the library's late processing of an earlier     *)
(* generation's event.)                                                    *)
(***************************************************************************)
EXTENDS Json, IOUtils, TLC, Sequences, Naturals

T == ndJsonDeserialize(IOEnv.VERIF_IN)
VARIABLE l
InitO == l = 0
(* t = "stale_t7": generation N ended by the peer shortly before its T7 dwell expires, generation N+1 silent again: the
   successor gets its whole dwell (measured by the peer from before its connect to the EOF: errs on the long side only)
   and IS dropped by its own T7 *)
WhyT7(r) ==
    IF r.fault /= "" THEN "HarnessFault"
    ELSE IF r.dwell2_us < r.t7_ms * 1000 THEN "SuccessorDwellCutShortByOldT7"
    ELSE IF ~r.dropped2 THEN "SuccessorT7NeverFired"
    ELSE ""
Why(r) ==
    IF r.t = "stale_t7" THEN WhyT7(r) ELSE
    IF r.fault /= "" \/ ~r.wedged \/ ~r.gen2_selected THEN "HarnessFault"
    ELSE IF r.state_after_release /= "S" THEN "SuccessorLeftSelectedWithoutCause"
    ELSE IF r.notes_after_release /= <<>> THEN "NotificationWithoutCause"
    ELSE IF r.peer2_closed THEN "SuccessorSocketClosed"
    ELSE IF ~r.gen2_round_trip THEN "SuccessorNotServing"
    ELSE ""
NextO == /\ l < Len(T) /\ l' = l + 1
         /\ LET w == Why(T[l + 1]) IN IF w = "" THEN TRUE ELSE PrintT(<<"REJECT", l + 1, w>>)
Judged == TRUE
=============================================================================
