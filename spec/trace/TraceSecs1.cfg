SPECIFICATION TSpec
CONSTANTS MaxFaults = 1000
CONSTANT Retry <- TrRetry
CONSTANT NMsgE <- TrNE
CONSTANT NMsgH <- TrNH
CONSTANT NBlocks <- TrNBlocks
INVARIANT NotAccepted
CONSTRAINT HighWater
CHECK_DEADLOCK FALSE
