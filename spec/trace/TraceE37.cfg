INIT Init
NEXT Next
INVARIANT Accepted
CHECK_DEADLOCK FALSE
