----------------------------- MODULE TraceSecs1 -----------------------------
(***************************************************************************)
(* Trace validation of the real secs1 line engine against impl/Secs1Line.  *)
(* The trace is the sequence of characters and blocks an independent E4    *)
(* peer wrote to ("tx") and read from ("rx") a live secs1 connection.  The *)
(* library end is one node of Secs1Line taking its own actions (silently,  *)
(* TLC infers them); the peer end is driven by the trace:                  *)
(*    tx c    -> c is put in flight toward the library                     *)
(*    rx c    -> c must be the next character the library's node wrote     *)
(*    closed  -> the library's node must have given up (retry exhaustion)  *)
(* The trace is accepted iff some behaviour consumes every event and ends  *)
(* with the recorded handler deliveries and send results.  Acceptance is   *)
(* signalled as the violation of NotAccepted.                              *)
(***************************************************************************)
EXTENDS Secs1Line, Json, IOUtils

Tr == ndJsonDeserialize(IOEnv.VERIF_IN)[1]
C == IF Tr.is_equip THEN "E" ELSE "H"          \* the library's node
P == Peer(C)
TrRetry == Tr.retry
TrNE == IF Tr.is_equip THEN Len(Tr.nblocks) ELSE 0
TrNH == IF Tr.is_equip THEN 0 ELSE Len(Tr.nblocks)
TrNBlocks == [m \in AllMsgs |-> Tr.nblocks[IF m > 100 THEN m - 100 ELSE m]]

VARIABLE l
tvars == <<vars, l>>
Ev == Tr.events[l]
EvCh == Ch(Ev.k, Ev.m, Ev.no, Ev.e, Ev.ok)
More == l <= Len(Tr.events)

TInit == TLCSet(1, 0) /\ Init /\ l = 1
TraceTx == /\ More /\ Ev.d = "tx" /\ chan' = [chan EXCEPT ![C] = Append(@, EvCh)] /\ l' = l + 1
           /\ UNCHANGED <<pc, retry, outbox, blk, asm, delivered, result, faults, cont, masterFirstBroken>>
TraceRx == /\ More /\ Ev.d = "rx" /\ chan[P] /= <<>> /\ Head(chan[P]) = EvCh
           /\ chan' = [chan EXCEPT ![P] = Tail(@)] /\ l' = l + 1
           /\ UNCHANGED <<pc, retry, outbox, blk, asm, delivered, result, faults, cont, masterFirstBroken>>
TraceClosed == /\ More /\ Ev.d = "closed" /\ pc[C] = "failed" /\ chan[P] = <<>> /\ Relink /\ l' = l + 1
(* a T1/T2 expiry of the library is only a candidate explanation where the peer's log shows the silence it needs:
   the next thing the peer saw from the library came at least MinTO ms after the peer's previous event *)
MinTO == 40
Quiet == More /\ Ev.d \in {"rx", "closed"} /\ Ev.dt_ms >= MinTO
CutStep == /\ \/ StartSend(C) \/ IdleRead(C) \/ WaitEOT(C) \/ WaitACK(C) \/ RecvBlock(C)
              \/ (Quiet /\ Timeout(C))
           /\ UNCHANGED l
TNext == TraceTx \/ TraceRx \/ TraceClosed \/ CutStep
TSpec == TInit /\ [][TNext]_tvars

IdOK == \A i \in 1..Len(Tr.results) :
           result[(IF Tr.is_equip THEN 0 ELSE 100) + i] = Tr.results[i]
Accepted == /\ l = Len(Tr.events) + 1 /\ chan[P] = <<>>          \* everything the library wrote was seen by the peer
            /\ delivered[C] = Tr.delivered /\ IdOK
            /\ (pc[C] \in {"idle"})
NotAccepted == ~Accepted
(* how far the best behaviour got, for the rejection report *)
HighWater == IF l > TLCGet(1) THEN TLCSet(1, l) /\ PrintT(<<"HW", l - 1, Len(Tr.events)>>) ELSE TRUE
=============================================================================
