---------------------------- MODULE LinktestRules ----------------------------
(* The two pure linktest failure-accounting rules of hsmsss/transport_procedures.go, transcribed. *)
EXTENDS Integers

(* ---- the pure rules, as coded ---- *)
FailureStep(suppress, recvNow, sAt, infl, f, rALF) ==
    IF suppress /\ (recvNow > sAt \/ infl > 0) THEN [fails |-> 0, ralf |-> rALF, credited |-> TRUE]
    ELSE IF suppress /\ f > 0 /\ recvNow > rALF THEN [fails |-> 1, ralf |-> recvNow, credited |-> FALSE]
    ELSE [fails |-> f + 1, ralf |-> recvNow, credited |-> FALSE]
DisconnectRecheck(suppress, infl, recvNow, sAt) == IF ~suppress THEN TRUE ELSE infl <= 0 /\ recvNow <= sAt

=============================================================================
