------------------------------ MODULE Backoff ------------------------------
(***************************************************************************)
(* The reconnect backoff of C11, in integer microseconds with a rational   *)
(* multiplier num/den >= 1:  the first sleep is the configured initial     *)
(* value, each following one is the previous multiplied, capped at T5.     *)
(***************************************************************************)
EXTENDS Integers, Sequences

Min(a, b) == IF a < b THEN a ELSE b
(* one step of the schedule (what nextBackoffDelay computes) *)
Next(cur, num, den, ceil) == LET n == (cur * num) \div den IN IF n <= 0 \/ n > ceil THEN ceil ELSE n
(* the k-th delay, k = 0, 1, ... *)
RECURSIVE Delay(_, _, _, _, _)
Delay(k, init, num, den, ceil) == IF k = 0 THEN init ELSE Next(Delay(k - 1, init, num, den, ceil), num, den, ceil)
(* the k-th actual sleep: never above T5 *)
Sleep(k, init, num, den, ceil) == Min(Delay(k, init, num, den, ceil), ceil)
=============================================================================
