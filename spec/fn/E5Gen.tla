------------------------------- MODULE E5Gen -------------------------------
(***************************************************************************)
(* Bounded, boundary-rich enumeration of the E5 item space (C01 / C15 /    *)
(* C12 share it).  Cases are abstract items; RLCases are run-length        *)
(* described leaves whose payload is too long for a TLC sequence (the      *)
(* 255/256, 65535/65536 and 2^24-1 length-field boundaries).               *)
(***************************************************************************)
EXTENDS E5Codec, FiniteSets, TLC, SequencesExt

Pos8(n) == ZeroExtend8(BE(n, 4))                       \* 0 <= n < 2^31
Neg8(m) == [i \in 1..8 |-> 255 - Pos8(m)[i]]           \* the value -(m+1)

Landmarks(k) ==
    CASE k = "I1" -> {Pos8(0), Pos8(1), Neg8(0), Pos8(127), Neg8(127)}
      [] k = "I2" -> {Pos8(0), Neg8(0), Pos8(128), Neg8(128), Pos8(255), Pos8(256), Pos8(32767), Neg8(32767)}
      [] k = "I4" -> {Pos8(0), Neg8(0), Pos8(32768), Pos8(65536), Pos8(2147483647), Neg8(2147483647), Pos8(16909060)}
      [] k = "I8" -> {Pos8(0), Neg8(0), <<0,0,0,0,128,0,0,0>>, <<0,0,0,1,0,0,0,0>>,
                      <<127,255,255,255,255,255,255,255>>, <<128,0,0,0,0,0,0,0>>, <<1,2,3,4,5,6,7,8>>}
      [] k = "U1" -> {Pos8(0), Pos8(1), Pos8(127), Pos8(128), Pos8(255)}
      [] k = "U2" -> {Pos8(0), Pos8(255), Pos8(256), Pos8(32768), Pos8(65535), Pos8(258)}
      [] k = "U4" -> {Pos8(0), Pos8(65536), Pos8(2147483647), <<0,0,0,0,128,0,0,0>>, <<0,0,0,0,255,255,255,255>>, Pos8(16909060)}
      [] k = "U8" -> {Pos8(0), <<0,0,0,1,0,0,0,0>>, <<127,255,255,255,255,255,255,255>>,
                      <<128,0,0,0,0,0,0,0>>, <<255,255,255,255,255,255,255,255>>, <<1,2,3,4,5,6,7,8>>}
      [] k = "F4" -> {<<0,0,0,0>>, <<128,0,0,0>>, <<63,128,0,0>>, <<127,127,255,255>>, <<0,0,0,1>>,
                      <<127,128,0,0>>, <<255,128,0,0>>, <<>>, <<192,73,15,219>>}
      [] k = "F8" -> {<<0,0,0,0,0,0,0,0>>, <<128,0,0,0,0,0,0,0>>, <<63,240,0,0,0,0,0,0>>,
                      <<127,239,255,255,255,255,255,255>>, <<0,0,0,0,0,0,0,1>>,
                      <<127,240,0,0,0,0,0,0>>, <<255,240,0,0,0,0,0,0>>, <<>>, <<64,9,33,251,84,68,45,24>>}
      [] k = "BOOL" -> {0, 1}
      [] OTHER -> {0, 34, 65, 127, 128, 255}             \* B, A, J, LOC text bytes

(* Everything below is built as SEQUENCES, never sets: TLC cannot compare a
   byte with a byte string, so heterogeneous items must never meet in a set. *)
ElemKinds == <<"B","BOOL","A","J","I8","I1","I2","I4","F8","F4","U8","U1","U2","U4">>

Pairs(sq) == LET n == Len(sq) IN [p \in 1..(n * n) |-> <<sq[((p - 1) \div n) + 1], sq[((p - 1) % n) + 1]>>]
Cross(a, b) == LET n == Len(b) IN [p \in 1..(Len(a) * n) |-> <<a[((p - 1) \div n) + 1], b[((p - 1) % n) + 1]>>]

LeafSeq(k) == LET lm == SetToSeq(Landmarks(k)) pr == Pairs(lm)
              IN <<[k |-> k, v |-> <<>>]>>
                 \o [i \in 1..Len(lm) |-> [k |-> k, v |-> <<lm[i]>>]]
                 \o [i \in 1..Len(pr) |-> [k |-> k, v |-> pr[i]]]
LocSeq == LET cr == Cross(<<0, 1, 10, 255, 256, 65535>>, << <<>>, <<65>>, <<227,129,130>> >>)
          IN [i \in 1..Len(cr) |-> [k |-> "LOC", lsh |-> cr[i][1], v |-> cr[i][2]]]
LeafCases == Flatten([i \in 1..Len(ElemKinds) |-> LeafSeq(ElemKinds[i])]) \o LocSeq

(* a handful of representative leaves used as list children *)
Rep == << [k |-> "A", v |-> <<72,105>>], [k |-> "U1", v |-> <<Pos8(7)>>], [k |-> "I2", v |-> <<Neg8(0), Pos8(256)>>],
          [k |-> "BOOL", v |-> <<1>>], [k |-> "B", v |-> <<>>], [k |-> "F4", v |-> <<<<63,128,0,0>>>>],
          [k |-> "LOC", lsh |-> 10, v |-> <<65>>], [k |-> "U8", v |-> <<<<255,255,255,255,255,255,255,255>>>>] >>

L(cs) == [k |-> "L", v |-> cs]
Map1(sq, Op(_)) == [i \in 1..Len(sq) |-> Op(sq[i])]
L1(x) == L(<<x>>)
L2(p) == L(<<p[1], p[2]>>)
L3(p) == L(<<L(<<p[1]>>), p[2]>>)
Lists1 == <<L(<<>>)>> \o Map1(Rep, L1) \o Map1(Pairs(Rep), L2)
Inner == << L(<<>>), L(<<[k |-> "A", v |-> <<72,105>>]>>), L(<<[k |-> "U1", v |-> <<Pos8(7)>>], [k |-> "B", v |-> <<>>]>>) >>
Lists2 == Map1(Inner, L1) \o Map1(Cross(Inner \o Rep, Inner), L2) \o Map1(Cross(Inner, Rep), L3)

RECURSIVE Nest(_, _)
Nest(n, leaf) == IF n = 0 THEN leaf ELSE L(<<Nest(n - 1, leaf)>>)
U1one == [k |-> "U1", v |-> <<Pos8(1)>>]
(* list depth of Nest(n, L()) is n+1, of Nest(n, leaf) is n *)
Deep == << Nest(1, L(<<>>)), Nest(2, L(<<>>)), Nest(62, L(<<>>)), Nest(63, L(<<>>)),
           Nest(1, U1one), Nest(3, U1one), Nest(63, U1one), Nest(64, U1one) >>
DeepBad == << Nest(64, L(<<>>)), Nest(65, U1one) >>

(* wide lists straddling the decoder's slab chunk boundaries 1,5,21,85,213,341 and the 255/256 child-count boundary *)
WideN == <<4, 5, 6, 20, 21, 22, 84, 85, 86, 212, 213, 214, 255, 256, 257, 340, 341, 342>>
WideM == <<9, 10, 41, 42, 43, 170, 171>>
Wide == [j \in 1..Len(WideN) |-> L([i \in 1..WideN[j] |-> U1one])]
        \o [j \in 1..Len(WideN) |-> L([i \in 1..WideN[j] |-> [k |-> "A", v |-> <<65>>]])]
        \o [j \in 1..Len(WideM) |-> L([i \in 1..WideM[j] |-> IF i % 2 = 0 THEN [k |-> "I2", v |-> <<Neg8(0)>>]
                                                                 ELSE [k |-> "F8", v |-> <<<<63,240,0,0,0,0,0,0>>>>]])]

Cases == LeafCases \o Lists1 \o Lists2 \o Deep \o Wide

(* run-length leaves: n elements all equal to x;  payload length n * Width(k) *)
RLCounts(k) == SetToSeq({ c \in { 254 \div Width(k), 255 \div Width(k), 255 \div Width(k) + 1,
                         65535 \div Width(k), 65535 \div Width(k) + 1, 65536 \div Width(k) + 1,
                         (MaxLen \div Width(k)) - 1, MaxLen \div Width(k) } : c > 2 })
RLElem(k) == CASE k = "F4" -> <<63,128,0,0>> [] k = "F8" -> <<63,240,0,0,0,0,0,0>>
               [] k = "BOOL" -> 1 [] k \in {"B", "A", "J"} -> 65
               [] k = "I1" -> Neg8(0) [] k = "I4" -> Neg8(2147483647) [] k = "I8" -> <<1,2,3,4,5,6,7,8>>
               [] k = "U2" -> Pos8(258) [] OTHER -> <<255,255,255,255,255,255,255,255>>
RLKinds == <<"B", "A", "J", "BOOL", "I1", "U2", "I4", "F4", "U8", "F8", "I8">>
RLOf(k) == LET cs == RLCounts(k) IN [i \in 1..Len(cs) |-> [k |-> k, n |-> cs[i], x |-> RLElem(k)]]
(* localized strings: the 2-byte LSH counts towards the length field, so the text lengths that put the
   payload on a length-byte boundary are 2 less than for the other kinds *)
LocCounts == <<252, 253, 254, 255, 65532, 65533, 65534, 65535, 16777212, 16777213>>
RLLoc == [i \in 1..Len(LocCounts) |-> [k |-> "LOC", n |-> LocCounts[i], x |-> 65]]
RLCases == Flatten([i \in 1..Len(RLKinds) |-> RLOf(RLKinds[i])]) \o RLLoc
RLHeader(c) == Header(c.k, IF c.k = "LOC" THEN c.n + 2 ELSE c.n * Width(c.k))
RLUnit(c) == ElemBytes(c.k, c.x)

(* ---- self-consistency of the transcription over the enumerated space ---- *)
SelfConsistent(it) ==
    /\ Valid(it, 0)
    /\ NaNFree(it) => /\ Len(Encode(it)) = EncodedLen(it)
                      /\ Matches(it, Encode(it))
=============================================================================
