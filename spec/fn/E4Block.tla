------------------------------ MODULE E4Block ------------------------------
(***************************************************************************)
(* SEMI E4 (SECS-I) block format and message splitting, transcribed:       *)
(*   block on the line = length byte (10 + body length)                    *)
(*                       10-byte header                                    *)
(*                       body (at most 244 bytes)                          *)
(*                       2-byte checksum = 16-bit sum of header and body   *)
(*   header = [R|device hi] [device lo] [W|stream] [function]              *)
(*            [E|block no hi] [block no lo] [4 system bytes]               *)
(* A message of n body bytes travels as ceil(n/244) blocks numbered 1..N   *)
(* with the E-bit on the last; an empty body is one header-only block.     *)
(***************************************************************************)
EXTENDS Bytes

MaxBody == 244
Hdr(dev, r, s, w, f, blk, e, sb) ==
    <<r * 128 + dev \div 256, dev % 256, w * 128 + s, f, e * 128 + blk \div 256, blk % 256>> \o sb
Image(hdr, body) == <<10 + Len(body)>> \o hdr \o body \o BE(Sum16(hdr \o body), 2)
NBlocks(n) == IF n = 0 THEN 1 ELSE (n + MaxBody - 1) \div MaxBody
MinI(a, b) == IF a < b THEN a ELSE b
(* the sequence of block images of one message *)
Split(dev, r, s, w, f, sb, body) ==
    LET n == Len(body) N == NBlocks(n)
    IN [i \in 1..N |-> Image(Hdr(dev, r, s, w, f, i, IF i = N THEN 1 ELSE 0, sb),
                             SubSeq(body, (i - 1) * MaxBody + 1, MinI(i * MaxBody, n)))]

(* accessors on a block image *)
BHdr(img) == SubSeq(img, 2, 11)
BBody(img) == SubSeq(img, 12, Len(img) - 2)
BDevice(img) == (img[2] % 128) * 256 + img[3]
BRbit(img) == img[2] \div 128
BStream(img) == img[4] % 128
BWbit(img) == img[4] \div 128
BFunction(img) == img[5]
BEbit(img) == img[6] \div 128
BNo(img) == (img[6] % 128) * 256 + img[7]
BSb(img) == SubSeq(img, 8, 11)
(* the block-invariant part of the header: everything but the block number / E-bit *)
BMsgHdr(img) == <<img[2], img[3], img[4], img[5]>> \o BSb(img)
WellFormed(img) == /\ Len(img) >= 13 /\ img[1] >= 10 /\ img[1] <= 254 /\ Len(img) = img[1] + 3
                   /\ SubSeq(img, Len(img) - 1, Len(img)) = BE(Sum16(SubSeq(img, 2, Len(img) - 2)), 2)
=============================================================================
