----------------------------- MODULE E5GenOut -----------------------------
(* One-shot generator: writes the enumerated C01 case tables as ndjson and  *)
(* model-checks the self-consistency of the E5 transcription over them.     *)
EXTENDS E5Gen, Json, IOUtils

OutDir == IOEnv.VERIF_OUT

ASSUME PrintT(<<"cases", Len(Cases), "rl", Len(RLCases), "deepbad", Len(DeepBad)>>)
ASSUME ndJsonSerialize(OutDir \o "/e5_cases.ndjson", [i \in 1..Len(Cases) |-> [id |-> i, item |-> Cases[i]]])
ASSUME ndJsonSerialize(OutDir \o "/e5_rl.ndjson", [i \in 1..Len(RLCases) |-> [id |-> i, rl |-> RLCases[i]]])
ASSUME ndJsonSerialize(OutDir \o "/e5_deepbad.ndjson", [i \in 1..Len(DeepBad) |-> [id |-> i, item |-> DeepBad[i]]])

VARIABLE i
Init == i \in 1..Len(Cases)
Next == UNCHANGED i
Inv == SelfConsistent(Cases[i])
=============================================================================
