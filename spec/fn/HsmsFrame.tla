----------------------------- MODULE HsmsFrame -----------------------------
(***************************************************************************)
(* SEMI E37 (HSMS) message framing, transcribed from the standard:         *)
(*   frame  = 4-byte big-endian length (= 10 + body length)                *)
(*            10-byte header  [sid_hi sid_lo b2 b3 PType SType sb1..sb4]   *)
(*            body (SECS-II item encoding, data messages only)             *)
(* Data message:  b2 = W*128 + stream, b3 = function, PType = 0, SType = 0 *)
(* Control:       SType 1 Select.req 2 Select.rsp 3 Deselect.req           *)
(*                4 Deselect.rsp 5 Linktest.req 6 Linktest.rsp             *)
(*                7 Reject.req 9 Separate.req;  b3 = status / reason,      *)
(*                Reject.req b2 = PType (reason 2) or SType of the culprit *)
(***************************************************************************)
EXTENDS Bytes

MaxMsgLen == 16777215
SData == 0  SSelectReq == 1  SSelectRsp == 2  SDeselectReq == 3  SDeselectRsp == 4
SLinktestReq == 5  SLinktestRsp == 6  SRejectReq == 7  SSeparateReq == 9
DefinedSTypes == {0, 1, 2, 3, 4, 5, 6, 7, 9}

RejSTypeNotSupported == 1  RejPTypeNotSupported == 2  RejTransactionNotOpen == 3  RejNotSelected == 4

(* header from its E37 fields;  sid in 0..65535, sb a 4-byte sequence *)
Hdr(sid, b2, b3, ptype, stype, sb) == BE(sid, 2) \o <<b2, b3, ptype, stype>> \o sb

ValidData(stream, function, w) == stream \in 0..127 /\ function \in 0..255 /\ w \in {0, 1}
                                  /\ ~(w = 1 /\ function % 2 = 0)

DataHdr(sid, stream, function, w, sb) == Hdr(sid, w * 128 + stream, function, 0, SData, sb)

Len4(n) == <<0>> \o BE(n, 3)                      \* n <= 2^24-1
Frame(hdr, body) == Len4(10 + Len(body)) \o hdr \o body

(* ---- control message constructors (E37 tables) ---- *)
SelectReq(sid, sb)        == Hdr(sid, 0, 0, 0, SSelectReq, sb)
SelectRsp(reqhdr, status) == Hdr(reqhdr[1] * 256 + reqhdr[2], 0, status, 0, SSelectRsp, SubSeq(reqhdr, 7, 10))
DeselectReq(sid, sb)      == Hdr(sid, 0, 0, 0, SDeselectReq, sb)
DeselectRsp(reqhdr, st)   == Hdr(reqhdr[1] * 256 + reqhdr[2], 0, st, 0, SDeselectRsp, SubSeq(reqhdr, 7, 10))
LinktestReq(sb)           == Hdr(65535, 0, 0, 0, SLinktestReq, sb)
LinktestRsp(reqhdr)       == Hdr(65535, 0, 0, 0, SLinktestRsp, SubSeq(reqhdr, 7, 10))
SeparateReq(sid, sb)      == Hdr(sid, 0, 0, 0, SSeparateReq, sb)
(* Reject.req for the message whose header is h *)
RejectReq(h, reason) ==
    Hdr(h[1] * 256 + h[2], IF reason = RejPTypeNotSupported THEN h[5] ELSE h[6], reason, 0, SRejectReq, SubSeq(h, 7, 10))

(* ---- header field accessors ---- *)
HSid(h) == h[1] * 256 + h[2]
HStream(h) == h[3] % 128
HW(h) == h[3] \div 128
HFunction(h) == h[4]
HPType(h) == h[5]
HSType(h) == h[6]
HSb(h) == SubSeq(h, 7, 10)

(* ---- re-stamping touches only the named bytes ---- *)
WithSid(h, sid) == BE(sid, 2) \o SubSeq(h, 3, 10)
WithSb(h, sb) == SubSeq(h, 1, 6) \o sb

(* ---- frame decoding: total on byte strings ---- *)
FrameLenField(bs) == bs[1] * 16777216 + FromBE(SubSeq(bs, 2, 4))     \* only evaluated when bs[1] < 128
DecodeFrame(bs) ==
    IF Len(bs) < 14 THEN [ok |-> FALSE, why |-> "too-short", hdr |-> <<>>, body |-> <<>>]
    ELSE IF bs[1] /= 0 THEN [ok |-> FALSE, why |-> "length-above-cap", hdr |-> <<>>, body |-> <<>>]
    ELSE LET n == FromBE(SubSeq(bs, 2, 4)) h == SubSeq(bs, 5, 14)
         IN IF n < 10 THEN [ok |-> FALSE, why |-> "length-below-10", hdr |-> <<>>, body |-> <<>>]
            ELSE IF n /= Len(bs) - 4 THEN [ok |-> FALSE, why |-> "length-mismatch", hdr |-> <<>>, body |-> <<>>]
            ELSE IF HPType(h) /= 0 THEN [ok |-> FALSE, why |-> "ptype", hdr |-> <<>>, body |-> <<>>]
            ELSE IF HSType(h) \notin DefinedSTypes THEN [ok |-> FALSE, why |-> "stype", hdr |-> <<>>, body |-> <<>>]
            ELSE [ok |-> TRUE, why |-> "", hdr |-> h, body |-> SubSeq(bs, 15, Len(bs))]
=============================================================================
