------------------------------- MODULE Bytes -------------------------------
(***************************************************************************)
(* Byte-sequence arithmetic shared by every function module.               *)
(*                                                                         *)
(* TLC integers are 32-bit, so 64-bit quantities never appear as numbers:  *)
(* an integer element is its 8-byte big-endian two's complement image and  *)
(* width truncation / sign extension is done on the bytes.                 *)
(***************************************************************************)
EXTENDS Integers, Sequences

Byte == 0..255

IsBytes(s) == \A i \in 1..Len(s) : s[i] \in Byte

Pow256(k) == CASE k = 0 -> 1 [] k = 1 -> 256 [] k = 2 -> 65536 [] k = 3 -> 16777216

(* Big-endian image of a natural n < 2^31 on w <= 4 bytes (w = 4 only for n < 2^31). *)
BE(n, w) == [i \in 1..w |-> (n \div Pow256(w - i)) % 256]

(* Value of a big-endian byte string of at most 3 bytes (or 4 below 2^31). *)
RECURSIVE FromBE(_)
FromBE(bs) == IF bs = <<>> THEN 0
              ELSE FromBE(SubSeq(bs, 1, Len(bs) - 1)) * 256 + bs[Len(bs)]

(* 16-bit big-endian sum of bytes, modulo 65536 (the E4 block checksum). *)
RECURSIVE Sum16(_)
Sum16(bs) == IF bs = <<>> THEN 0
             ELSE (Sum16(SubSeq(bs, 1, Len(bs) - 1)) + bs[Len(bs)]) % 65536

Repeat(b, n) == [i \in 1..n |-> b]

RECURSIVE Flatten(_)
Flatten(ss) == IF ss = <<>> THEN <<>> ELSE Head(ss) \o Flatten(Tail(ss))

(* ---- 8-byte two's complement images ---- *)
LastN(b8, w) == SubSeq(b8, Len(b8) - w + 1, Len(b8))
SignFill(bs) == IF bs[1] >= 128 THEN 255 ELSE 0
SignExtend8(bs) == Repeat(SignFill(bs), 8 - Len(bs)) \o bs
ZeroExtend8(bs) == Repeat(0, 8 - Len(bs)) \o bs
FitsSigned(b8, w)   == SignExtend8(LastN(b8, w)) = b8
FitsUnsigned(b8, w) == ZeroExtend8(LastN(b8, w)) = b8

(* Lexicographic order on equal-length byte strings = unsigned numeric order. *)
RECURSIVE LexLE(_, _)
LexLE(a, b) == IF a = <<>> THEN TRUE
               ELSE IF a[1] < b[1] THEN TRUE
               ELSE IF a[1] > b[1] THEN FALSE
               ELSE LexLE(Tail(a), Tail(b))

(* Signed order on 8-byte two's complement images. *)
SignedLE(a, b) ==
    LET na == a[1] >= 128  nb == b[1] >= 128
    IN IF na /= nb THEN na ELSE LexLE(a, b)
=============================================================================
