------------------------------- MODULE Ctor -------------------------------
(***************************************************************************)
(* What the SECS-II numeric item constructors owe for one argument value:  *)
(* clamp to the nearest bound of the target width, never wrap.             *)
(*                                                                         *)
(* A mathematical integer argument is [neg |-> BOOLEAN, mag |-> 9 bytes]   *)
(* (big-endian magnitude; 9 bytes hold everything up to 2^72 so numeric    *)
(* strings beyond 64 bits are representable).  The result is the 8-byte    *)
(* two's complement image used by E5Codec.                                 *)
(***************************************************************************)
EXTENDS Bytes

Zeros(n) == Repeat(0, n)
FFs(n) == Repeat(255, n)
MaxSignedMag(w)   == Zeros(9 - w) \o <<127>> \o FFs(w - 1)      \*  2^(8w-1) - 1
MinSignedMag(w)   == Zeros(9 - w) \o <<128>> \o Zeros(w - 1)    \*  2^(8w-1)
MaxUnsignedMag(w) == Zeros(9 - w) \o FFs(w)                     \*  2^(8w) - 1
LexMin(a, b) == IF LexLE(a, b) THEN a ELSE b
IsZero(m) == \A i \in 1..Len(m) : m[i] = 0

(* two's complement negation of an 8-byte image *)
RECURSIVE AddOne(_)
AddOne(b) == IF b = <<>> THEN <<>>
             ELSE IF b[Len(b)] = 255 THEN AddOne(SubSeq(b, 1, Len(b) - 1)) \o <<0>>
             ELSE SubSeq(b, 1, Len(b) - 1) \o <<b[Len(b)] + 1>>
Negate8(b) == AddOne([i \in 1..8 |-> 255 - b[i]])

ClampSigned(v, w) ==
    IF v.neg /\ ~IsZero(v.mag) THEN Negate8(SubSeq(LexMin(v.mag, MinSignedMag(w)), 2, 9))
    ELSE SubSeq(LexMin(v.mag, MaxSignedMag(w)), 2, 9)
(* a negative argument to an unsigned item: the documented outcome is a deferred error; 0 would also be "clamped" *)
ClampUnsigned(v, w) == SubSeq(LexMin(v.mag, MaxUnsignedMag(w)), 2, 9)

(* ---- floats: on IEEE bit patterns ---- *)
MaxF32AsF64 == <<71, 239, 255, 255, 224, 0, 0, 0>>     \* 0x47EFFFFFE0000000
MaxF32 == <<127, 127, 255, 255>>                      \* 0x7F7FFFFF
Abs8(b) == <<b[1] % 128>> \o Tail(b)
IsInfOrNaN8(b) == b[1] % 128 = 127 /\ b[2] >= 240
(* |v| > MaxFloat32 and finite: the F4 constructor clamps to +-MaxFloat32 *)
F4Overflows(f64) == ~IsInfOrNaN8(f64) /\ ~LexLE(Abs8(f64), MaxF32AsF64)
SignedMaxF32(f64) == <<(IF f64[1] >= 128 THEN 128 ELSE 0) + 127>> \o Tail(MaxF32)
=============================================================================
