------------------------------ MODULE E5Codec ------------------------------
(***************************************************************************)
(* SEMI E5 (SECS-II) item encoding, transcribed from the standard and      *)
(* independent of go-secs.  It is the reference encoder/decoder that the   *)
(* C01/C02 checks (and every module that needs a message body) use as the  *)
(* oracle.                                                                 *)
(*                                                                         *)
(* Abstract items (JSON-friendly):                                         *)
(*   [k |-> "L",    v |-> <<item, ...>>]                                   *)
(*   [k |-> "B" | "A" | "J", v |-> <<byte, ...>>]                          *)
(*   [k |-> "BOOL", v |-> <<0|1, ...>>]                                    *)
(*   [k |-> "LOC",  lsh |-> 0..65535, v |-> <<byte, ...>>]                   *)
(*   [k |-> "I1".."I8" | "U1".."U8", v |-> << b8, ... >>]  b8 = 8-byte     *)
(*        big-endian two's complement image of the element value           *)
(*   [k |-> "F4" | "F8", v |-> << bits | <<>> , ... >>]    bits = IEEE     *)
(*        pattern on 4/8 bytes; <<>> stands for "some NaN"                 *)
(***************************************************************************)
EXTENDS Bytes

MaxLen   == 16777215      \* 2^24 - 1, the 3-length-byte cap
MaxDepth == 64            \* list nesting limit of the decoder (C01/C02 quantifier)

Kinds == {"L","B","BOOL","A","J","LOC","I8","I1","I2","I4","F8","F4","U8","U1","U2","U4"}

FC(k) == CASE k = "L"    -> 0  [] k = "B"  -> 8  [] k = "BOOL" -> 9
           [] k = "A"    -> 16 [] k = "J"  -> 17 [] k = "LOC"  -> 18
           [] k = "I8"   -> 24 [] k = "I1" -> 25 [] k = "I2"   -> 26 [] k = "I4" -> 28
           [] k = "F8"   -> 32 [] k = "F4" -> 36
           [] k = "U8"   -> 40 [] k = "U1" -> 41 [] k = "U2"   -> 42 [] k = "U4" -> 44

KindOf(fc) == IF \E k \in Kinds : FC(k) = fc THEN CHOOSE k \in Kinds : FC(k) = fc ELSE "?"

Width(k) == CASE k \in {"I8","U8","F8"} -> 8 [] k \in {"I4","U4","F4"} -> 4
              [] k \in {"I2","U2"} -> 2 [] OTHER -> 1

IsSigned(k)   == k \in {"I1","I2","I4","I8"}
IsUnsigned(k) == k \in {"U1","U2","U4","U8"}
IsFloat(k)    == k \in {"F4","F8"}
IsText(k)     == k \in {"B","A","J"}

(* ---- header: format byte + minimal number of length bytes ---- *)
LenBytes(n) == IF n <= 255 THEN <<n>> ELSE IF n <= 65535 THEN BE(n, 2) ELSE BE(n, 3)
Header(k, n) == <<FC(k) * 4 + Len(LenBytes(n))>> \o LenBytes(n)
HeaderLen(n) == 1 + Len(LenBytes(n))

(* ---- IEEE 754 NaN recognition on bit patterns ---- *)
IsNaN4(b) == /\ b[1] % 128 = 127 /\ b[2] >= 128
             /\ (b[2] % 128 /= 0 \/ b[3] /= 0 \/ b[4] /= 0)
IsNaN8(b) == /\ b[1] % 128 = 127 /\ b[2] >= 240
             /\ (b[2] % 16 /= 0 \/ \E i \in 3..8 : b[i] /= 0)
IsNaN(b) == IF Len(b) = 4 THEN IsNaN4(b) ELSE IsNaN8(b)

(* ---- validity of an abstract item (what "error-free, encodable" means) ---- *)
ElemOK(k, x) ==
    CASE IsSigned(k)   -> Len(x) = 8 /\ IsBytes(x) /\ FitsSigned(x, Width(k))
      [] IsUnsigned(k) -> Len(x) = 8 /\ IsBytes(x) /\ FitsUnsigned(x, Width(k))
      [] IsFloat(k)    -> x = <<>> \/ (Len(x) = Width(k) /\ IsBytes(x) /\ ~IsNaN(x))
      [] k = "BOOL"    -> x \in {0, 1}
      [] OTHER         -> x \in Byte

PayloadLen(it) == IF it.k = "LOC" THEN 2 + Len(it.v) ELSE Len(it.v) * Width(it.k)

RECURSIVE Valid(_, _)
Valid(it, depth) ==
    IF it.k = "L"
    THEN /\ depth + 1 <= MaxDepth /\ Len(it.v) <= MaxLen
         /\ \A i \in 1..Len(it.v) : Valid(it.v[i], depth + 1)
    ELSE /\ PayloadLen(it) <= MaxLen
         /\ \A i \in 1..Len(it.v) : ElemOK(it.k, it.v[i])
         /\ it.k = "LOC" => it.lsh \in 0..65535

RECURSIVE NaNFree(_)
NaNFree(it) == IF it.k = "L" THEN \A i \in 1..Len(it.v) : NaNFree(it.v[i])
               ELSE IsFloat(it.k) => \A i \in 1..Len(it.v) : it.v[i] /= <<>>

(* ---- encoder ---- *)
ElemBytes(k, x) == CASE IsSigned(k) \/ IsUnsigned(k) -> LastN(x, Width(k))
                     [] IsFloat(k) -> x
                     [] OTHER -> <<x>>

Payload(it) == IF it.k = "LOC" THEN BE(it.lsh, 2) \o it.v
               ELSE IF Width(it.k) = 1 /\ ~IsSigned(it.k) /\ ~IsUnsigned(it.k) THEN it.v
               ELSE Flatten([i \in 1..Len(it.v) |-> ElemBytes(it.k, it.v[i])])

RECURSIVE Encode(_)
Encode(it) == IF it.k = "L"
              THEN Header("L", Len(it.v)) \o Flatten([i \in 1..Len(it.v) |-> Encode(it.v[i])])
              ELSE Header(it.k, PayloadLen(it)) \o Payload(it)

RECURSIVE EncodedLen(_)
RECURSIVE SumLens(_)
SumLens(cs) == IF cs = <<>> THEN 0 ELSE EncodedLen(Head(cs)) + SumLens(Tail(cs))
EncodedLen(it) == IF it.k = "L" THEN HeaderLen(Len(it.v)) + SumLens(it.v)
                  ELSE HeaderLen(PayloadLen(it)) + PayloadLen(it)

(* ---- decoder: total on byte strings ---- *)
Err(why) == [ok |-> FALSE, item |-> <<>>, n |-> 0, canon |-> FALSE, why |-> why]
Ok(item, n, canon) == [ok |-> TRUE, item |-> item, n |-> n, canon |-> canon, why |-> ""]

Chunks(bs, w) == [i \in 1..(Len(bs) \div w) |-> SubSeq(bs, (i - 1) * w + 1, i * w)]

LeafItem(k, pl) ==
    CASE k = "LOC"     -> [k |-> k, lsh |-> pl[1] * 256 + pl[2], v |-> SubSeq(pl, 3, Len(pl))]
      [] k = "BOOL"    -> [k |-> k, v |-> [i \in 1..Len(pl) |-> IF pl[i] = 0 THEN 0 ELSE 1]]
      [] IsText(k)     -> [k |-> k, v |-> pl]
      [] IsSigned(k)   -> [k |-> k, v |-> [i \in 1..(Len(pl) \div Width(k)) |-> SignExtend8(Chunks(pl, Width(k))[i])]]
      [] IsUnsigned(k) -> [k |-> k, v |-> [i \in 1..(Len(pl) \div Width(k)) |-> ZeroExtend8(Chunks(pl, Width(k))[i])]]
      [] OTHER         -> [k |-> k, v |-> [i \in 1..(Len(pl) \div Width(k)) |->
                                             LET c == Chunks(pl, Width(k))[i] IN IF IsNaN(c) THEN <<>> ELSE c]]

(* Dec(bs, p, depth): decode one item starting at 1-based position p; n = position after it. *)
RECURSIVE Dec(_, _, _)
RECURSIVE DecN(_, _, _, _, _, _)
DecN(bs, p, depth, left, acc, canon) ==
    IF left = 0 THEN [ok |-> TRUE, items |-> acc, n |-> p, canon |-> canon, why |-> ""]
    ELSE LET d == Dec(bs, p, depth)
         IN IF ~d.ok THEN [ok |-> FALSE, items |-> <<>>, n |-> 0, canon |-> FALSE, why |-> d.why]
            ELSE DecN(bs, d.n, depth, left - 1, Append(acc, d.item), canon /\ d.canon)

Dec(bs, p, depth) ==
    IF p > Len(bs) THEN Err("truncated-header")
    ELSE LET fb  == bs[p]
             fc  == fb \div 4
             nlb == fb % 4
             k   == KindOf(fc)
         IN IF nlb = 0 THEN Err("zero-length-bytes")
            ELSE IF p + nlb > Len(bs) THEN Err("truncated-header")
            ELSE LET len   == FromBE(SubSeq(bs, p + 1, p + nlb))
                     q     == p + 1 + nlb            \* first payload position
                     canon == nlb = Len(LenBytes(len))
                 IN IF k = "?" THEN Err("unknown-format")
                    ELSE IF k = "L"
                    THEN IF depth + 1 > MaxDepth THEN Err("too-deep")
                         ELSE LET r == DecN(bs, q, depth + 1, len, <<>>, canon)
                              IN IF r.ok THEN Ok([k |-> "L", v |-> r.items], r.n, r.canon)
                                 ELSE Err(r.why)
                    ELSE IF len % Width(k) /= 0 THEN Err("not-multiple-of-width")
                    ELSE IF k = "LOC" /\ len < 2 THEN Err("localized-too-short")
                    ELSE IF q + len - 1 > Len(bs) THEN Err("truncated-payload")
                    ELSE Ok(LeafItem(k, SubSeq(bs, q, q + len - 1)), q + len, canon)

(* Decode of a whole buffer: item + number of bytes consumed (trailing bytes ignored). *)
Decode(bs) == LET d == Dec(bs, 1, 0) IN IF d.ok THEN [d EXCEPT !.n = d.n - 1] ELSE d

(* bytes is THE E5 encoding of item (canonical header lengths; NaN elements match any NaN). *)
Matches(it, bytes) ==
    LET d == Decode(bytes)
    IN /\ d.ok /\ d.canon /\ d.n = Len(bytes) /\ d.item = it
       /\ NaNFree(it) => Encode(it) = bytes
=============================================================================
