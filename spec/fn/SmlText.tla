------------------------------ MODULE SmlText ------------------------------
(***************************************************************************)
(* Reference SML rendering of an abstract SECS-II item (E5Codec's AItem)   *)
(* and of a message, written from the SML grammar the go-secs parser       *)
(* documents -- independent of sml/encoder.go and of secs2's ToSML.        *)
(* Floats and localized strings have no reference rendering here (decimal  *)
(* float formatting and Go string quoting are outside TLA+'s reach): items *)
(* containing them are judged by differential and read-back clauses only.  *)
(*                                                                         *)
(* Text is a sequence of byte values.                                      *)
(* opts: [strict, quote (34 or 39), bin ("hex" | "bin"), indent (bytes),   *)
(*        sfq (0, 34 or 39)]                                               *)
(***************************************************************************)
EXTENDS E5Codec, Ctor

RECURSIVE DecNat(_)
DecNat(n) == IF n < 10 THEN <<48 + n>> ELSE DecNat(n \div 10) \o <<48 + (n % 10)>>

(* decimal of an unsigned 8-byte big-endian image: long division by 10 on the bytes *)
RECURSIVE DivStep(_, _, _)
DivStep(bs, rem, acc) ==      \* -> <<quotient bytes, remainder>>
    IF bs = <<>> THEN <<acc, rem>>
    ELSE LET cur == rem * 256 + Head(bs) IN DivStep(Tail(bs), cur % 10, Append(acc, cur \div 10))
RECURSIVE DecU8(_)
DecU8(b8) == IF IsZero(b8) THEN <<48>>
             ELSE LET d == DivStep(b8, 0, <<>>) IN
                  IF IsZero(d[1]) THEN <<48 + d[2]>> ELSE DecU8(d[1]) \o <<48 + d[2]>>
DecI8(b8) == IF b8[1] >= 128 THEN <<45>> \o DecU8(Negate8(b8)) ELSE DecU8(b8)

HexD(n) == IF n < 10 THEN 48 + n ELSE 55 + n                  \* upper-case hex digit
RECURSIVE Bin(_)
Bin(n) == IF n < 2 THEN <<48 + n>> ELSE Bin(n \div 2) \o <<48 + (n % 2)>>

Tag(k) == CASE k = "L" -> <<76>> [] k = "A" -> <<65>> [] k = "J" -> <<74>> [] k = "B" -> <<66>>
            [] k = "BOOL" -> <<66, 79, 79, 76, 69, 65, 78>>
            [] IsSigned(k) -> <<73, 48 + Width(k)>> [] IsUnsigned(k) -> <<85, 48 + Width(k)>>
            [] IsFloat(k) -> <<70, 48 + Width(k)>>
Open(k, n) == <<60>> \o Tag(k) \o <<91>> \o DecNat(n) \o <<93>>       \* "<TAG[n]"

Printable(c) == c >= 32 /\ c < 127
RECURSIVE SA(_, _, _, _, _)
SA(v, i, first, inRun, q) ==
    IF i > Len(v) THEN (IF inRun THEN <<q>> ELSE <<>>)
    ELSE LET c == v[i] IN
         IF Printable(c)
         THEN (IF inRun THEN <<>> ELSE (IF first THEN <<>> ELSE <<32>>) \o <<q>>)
              \o (IF c = q \/ c = 92 \/ c = 62 THEN <<92>> ELSE <<>>) \o <<c>> \o SA(v, i + 1, FALSE, TRUE, q)   \* quote, backslash, ">" escaped
         ELSE (IF inRun THEN <<q>> ELSE <<>>) \o (IF first THEN <<>> ELSE <<32>>)
              \o <<48, 120, HexD(c \div 16), HexD(c % 16)>> \o SA(v, i + 1, FALSE, FALSE, q)
StrictASCII(v, q) == IF v = <<>> THEN <<q, q>> ELSE SA(v, 1, TRUE, FALSE, q)

RECURSIVE Ind(_, _)
Ind(o, level) == IF level = 0 THEN <<>> ELSE o.indent \o Ind(o, level - 1)

RECURSIVE Render(_, _, _)
Render(o, it, level) ==
    CASE it.k = "L" ->
           IF it.v = <<>> THEN Ind(o, level) \o Open("L", 0) \o <<62>>
           ELSE Ind(o, level) \o Open("L", Len(it.v)) \o <<10>>
                \o Flatten([i \in 1..Len(it.v) |->
                       (IF it.v[i].k = "L" THEN <<>> ELSE Ind(o, level + 1)) \o Render(o, it.v[i], level + 1) \o <<10>>])
                \o Ind(o, level) \o <<62>>
      [] it.k = "A" -> Open("A", Len(it.v)) \o <<32>>
                       \o (IF o.strict THEN StrictASCII(it.v, o.quote) ELSE <<o.quote>> \o it.v \o <<o.quote>>) \o <<62>>
      [] it.k = "J" -> Open("J", Len(it.v)) \o <<32, o.quote>> \o it.v \o <<o.quote, 62>>
      [] it.k = "B" -> Open("B", Len(it.v))
                       \o Flatten([i \in 1..Len(it.v) |->
                              IF o.bin = "bin" THEN <<32, 48, 98>> \o Bin(it.v[i])
                              ELSE <<32, 48, 120, HexD(it.v[i] \div 16), HexD(it.v[i] % 16)>>]) \o <<62>>
      [] it.k = "BOOL" -> Open("BOOL", Len(it.v))
                          \o Flatten([i \in 1..Len(it.v) |-> IF it.v[i] = 1 THEN <<32, 84, 114, 117, 101>> ELSE <<32, 70, 97, 108, 115, 101>>])
                          \o <<62>>
      [] IsSigned(it.k) -> Open(it.k, Len(it.v)) \o Flatten([i \in 1..Len(it.v) |-> <<32>> \o DecI8(it.v[i])]) \o <<62>>
      [] IsUnsigned(it.k) -> Open(it.k, Len(it.v)) \o Flatten([i \in 1..Len(it.v) |-> <<32>> \o DecU8(it.v[i])]) \o <<62>>

RECURSIVE Renderable(_)
Renderable(it) == IF it.k = "L" THEN \A i \in 1..Len(it.v) : Renderable(it.v[i]) ELSE ~IsFloat(it.k) /\ it.k /= "LOC"
RECURSIVE NumericOnly(_)
NumericOnly(it) == IF it.k = "L" THEN \A i \in 1..Len(it.v) : NumericOnly(it.v[i]) ELSE it.k \notin {"A", "J", "LOC"}

Sfq(o) == IF o.sfq = 0 THEN <<>> ELSE <<o.sfq>>
RenderMsg(o, s, f, w, it) ==
    Sfq(o) \o <<83>> \o DecNat(s) \o <<70>> \o DecNat(f) \o Sfq(o) \o (IF w THEN <<32, 87>> ELSE <<>>) \o <<10>>
    \o Render(o, it, 0) \o <<10, 46>>

DefaultOpts == [strict |-> FALSE, quote |-> 34, bin |-> "hex", indent |-> <<32, 32>>, sfq |-> 0]

(* equality of abstract items up to NaN payloads (an F element <<>> is "some NaN") and the localized-string header *)
RECURSIVE Same(_, _)
Same(a, b) ==
    /\ a.k = b.k /\ Len(a.v) = Len(b.v)
    /\ IF a.k = "L" THEN \A i \in 1..Len(a.v) : Same(a.v[i], b.v[i])
       ELSE IF IsFloat(a.k) THEN \A i \in 1..Len(a.v) : a.v[i] = b.v[i] \/ ((a.v[i] = <<>> \/ IsNaN(a.v[i])) /\ (b.v[i] = <<>> \/ IsNaN(b.v[i])))
       ELSE a.v = b.v
=============================================================================
