--------------------------- MODULE LazyBodyProof ---------------------------
(***************************************************************************)
(* TLAPS proof that the sync.Once protocol of impl/LazyBody runs the lazy  *)
(* decode at most once, hands every caller the completed result of that    *)
(* one run, and never exposes a half-built result -- for ANY set of        *)
(* callers (TLC checks the same for 4).                                    *)
(***************************************************************************)
EXTENDS LazyBody, TLAPS

ASSUME OnceAssumed == UseOnce = TRUE /\ "none" \notin Callers

PCs == {"start", "locked", "decoding", "read", "done"}
TypeOK == /\ pc \in [Callers -> PCs] /\ done \in BOOLEAN /\ lock \in Callers \cup {"none"}
          /\ item \in Int /\ runs \in Nat /\ mine \in [Callers -> Nat] /\ got \in [Callers -> Int]

Inv == /\ TypeOK
       /\ runs <= 1
       /\ (runs = 0) => (item = 0 /\ ~done /\ \A c \in Callers : pc[c] /= "decoding")
       /\ (runs = 1) => (item \in {-1, 1})
       /\ done => (runs = 1 /\ item = 1)
       /\ (item = 1) => done
       /\ \A c \in Callers : pc[c] = "decoding" => (lock = c /\ ~done /\ runs = 1 /\ mine[c] = 1 /\ item = -1)
       /\ \A c \in Callers : pc[c] = "locked" => lock = c
       /\ \A c \in Callers : pc[c] \in {"read", "done"} => done
       /\ \A c \in Callers : got[c] \in {0, 1}
       /\ \A c \in Callers : pc[c] = "done" => got[c] = 1
       /\ (item = -1) => (\E c \in Callers : pc[c] = "decoding")

THEOREM InitInv == Init => Inv
  BY OnceAssumed DEF Init, Inv, TypeOK, PCs

THEOREM NextInv == Inv /\ [Next]_vars => Inv'
<1> SUFFICES ASSUME Inv, [Next]_vars PROVE Inv'
  OBVIOUS
<1>1. CASE UNCHANGED vars
  BY <1>1 DEF Inv, TypeOK, vars, PCs
<1>2. ASSUME NEW c \in Callers, FastPath(c) PROVE Inv'
  BY <1>2, OnceAssumed DEF Inv, TypeOK, FastPath, PCs
<1>3. ASSUME NEW c \in Callers, Lock(c) PROVE Inv'
  BY <1>3, OnceAssumed DEF Inv, TypeOK, Lock, PCs
<1>4. ASSUME NEW c \in Callers, Recheck(c) PROVE Inv'
  BY <1>4, OnceAssumed DEF Inv, TypeOK, Recheck, PCs
<1>5. ASSUME NEW c \in Callers, Finish(c) PROVE Inv'
  BY <1>5, OnceAssumed DEF Inv, TypeOK, Finish, PCs
<1>6. ASSUME NEW c \in Callers, NaiveCheck(c) PROVE Inv'
  BY <1>6, OnceAssumed DEF Inv, TypeOK, NaiveCheck, PCs
<1>7. ASSUME NEW c \in Callers, Read(c) PROVE Inv'
  BY <1>7, OnceAssumed DEF Inv, TypeOK, Read, PCs
<1> QED
  BY <1>1, <1>2, <1>3, <1>4, <1>5, <1>6, <1>7 DEF Next

THEOREM Safety == Inv => (AtMostOnce /\ NoTornRead /\ SameForAll)
  BY DEF Inv, TypeOK, AtMostOnce, NoTornRead, SameForAll

THEOREM Correct == Spec => [](AtMostOnce /\ NoTornRead /\ SameForAll)
<1>1. Init => Inv
  BY InitInv
<1>2. Inv /\ [Next]_vars => Inv'
  BY NextInv
<1>3. Inv => (AtMostOnce /\ NoTornRead /\ SameForAll)
  BY Safety
<1> QED
  BY <1>1, <1>2, <1>3, PTL DEF Spec
=============================================================================
