------------------------------- MODULE HsmsSS -------------------------------
(***************************************************************************)
(* The HSMS-SS receive-path dispatcher and control responders             *)
(* (hsmsss/transport_recv.go, transport_control.go, transport_active.go)   *)
(* as a deterministic transducer over peer frames, stated with the SEMI    *)
(* E37 / E37.1 answer tables (C08) and the data gate (C07, inbound half).  *)
(*                                                                         *)
(* A frame is a record [sid, b2, b3, pt, st, sb, body] (fn/HsmsFrame       *)
(* header fields + body bytes).  The logical session state `sel` is the    *)
(* state AT THE MOMENT THE FRAME IS PROCESSED: the receive goroutine       *)
(* commits Select / Deselect synchronously, so a burst of pipelined frames *)
(* is answered exactly like the same frames sent one by one.               *)
(***************************************************************************)
EXTENDS HsmsFrame, TLC

HdrOf(f) == Hdr(f.sid, f.b2, f.b3, f.pt, f.st, f.sb)
Mk(h, body) == [sid |-> HSid(h), b2 |-> h[3], b3 |-> h[4], pt |-> h[5], st |-> h[6], sb |-> HSb(h), body |-> body]

IsRsp(st) == st \in {SSelectRsp, SDeselectRsp, SLinktestRsp}
IsS9F1(f) == f.st = SData /\ f.b2 % 128 = 9 /\ f.b3 = 1
IsSecondary(f) == f.st = SData /\ f.b2 < 128 /\ f.b3 % 2 = 0

(* S9F1 (unrecognized device id): <B[10] MHEAD> sent as a fresh primary without W-bit;
   its system bytes are library-generated, so only the rest of the frame is prescribed *)
S9F1Body(f) == <<33, 10>> \o HdrOf(f)

(* cfg: [cutSid |-> session id of the connection under test, validate |-> BOOLEAN]
   s:   [sel |-> "NS" | "S", open |-> set of system bytes of control transactions the library has
         open (active Select.req, its own Linktest.req), up |-> BOOLEAN]
   Result: new state, frames the library sends (in order), handler delivery, link drop.         *)
NoOut(s) == [s |-> s, out |-> <<>>, deliver |-> FALSE, s9f1 |-> FALSE]
Reply(s, h) == [s |-> s, out |-> <<Mk(h, <<>>)>>, deliver |-> FALSE, s9f1 |-> FALSE]

Respond(cfg, s, f) ==
    LET h == HdrOf(f) IN
    IF ~s.up THEN NoOut(s)
    ELSE IF f.pt /= 0 THEN Reply(s, RejectReq(h, RejPTypeNotSupported))
    ELSE IF f.st \notin DefinedSTypes THEN Reply(s, RejectReq(h, RejSTypeNotSupported))
    ELSE IF f.st /= SData /\ f.body /= <<>> THEN Reply(s, RejectReq(h, RejSTypeNotSupported))
    ELSE CASE f.st = SData ->
                IF s.sel /= "S" THEN Reply(s, RejectReq(h, RejNotSelected))
                ELSE IF cfg.validate /\ f.sid /= cfg.cutSid /\ ~IsS9F1(f)
                     THEN [s |-> s, out |-> <<>>, deliver |-> FALSE, s9f1 |-> TRUE]
                     ELSE [s |-> s, out |-> <<>>, deliver |-> TRUE, s9f1 |-> FALSE]
           [] f.st = SSelectReq ->
                IF s.sel = "NS" THEN Reply([s EXCEPT !.sel = "S"], SelectRsp(h, 0))
                ELSE Reply(s, SelectRsp(h, 1))
           [] f.st = SDeselectReq ->
                IF s.sel = "S" THEN Reply([s EXCEPT !.sel = "NS"], DeselectRsp(h, 0))
                ELSE Reply(s, DeselectRsp(h, 1))
           [] f.st = SLinktestReq -> Reply(s, LinktestRsp(h))
           [] IsRsp(f.st) ->
                IF f.sb \in s.open
                THEN IF f.st = SSelectRsp /\ f.b3 = 0 /\ s.sel = "NS"
                     THEN NoOut([s EXCEPT !.sel = "S", !.open = s.open \ {f.sb}])
                     ELSE IF f.st = SSelectRsp /\ f.b3 \notin {0, 1}
                          THEN NoOut([s EXCEPT !.up = FALSE, !.open = s.open \ {f.sb}])   \* select rejected: link dropped
                          ELSE NoOut([s EXCEPT !.open = s.open \ {f.sb}])
                ELSE Reply(s, RejectReq(h, RejTransactionNotOpen))
           [] f.st = SRejectReq -> NoOut([s EXCEPT !.open = s.open \ {f.sb}])    \* never answered, never a disconnect
           [] f.st = SSeparateReq ->
                IF s.sel = "S" THEN NoOut([s EXCEPT !.up = FALSE]) ELSE NoOut(s)

(* fold a burst of frames; returns the final state and the concatenated outputs *)
RECURSIVE Fold(_, _, _, _)
Fold(cfg, s, fs, acc) ==
    IF fs = <<>> THEN [s |-> s, out |-> acc.out, delivered |-> acc.delivered, s9f1 |-> acc.s9f1]
    ELSE LET r == Respond(cfg, s, Head(fs))
         IN Fold(cfg, r.s, Tail(fs),
                 [out |-> acc.out \o r.out,
                  delivered |-> IF r.deliver THEN Append(acc.delivered, Head(fs).sb) ELSE acc.delivered,
                  s9f1 |-> IF r.s9f1 THEN Append(acc.s9f1, S9F1Body(Head(fs))) ELSE acc.s9f1])
Burst(cfg, s, fs) == Fold(cfg, s, fs, [out |-> <<>>, delivered |-> <<>>, s9f1 |-> <<>>])
=============================================================================
