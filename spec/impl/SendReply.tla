------------------------------ MODULE SendReply ------------------------------
(***************************************************************************)
(* The synchronous send path, the per-generation reply registry and the    *)
(* receive-side routing of hsms/connection_send.go, connection_runtime.go  *)
(* and reply_registry.go, at the grain of their critical sections:         *)
(*   Begin   load the current epoch, first Selected gate (B1), allocate    *)
(*           system bytes, register the reply slot                         *)
(*   Write   under the epoch's write lock: epoch still live? second        *)
(*           Selected gate (B2), write, count, in-flight++                 *)
(*   Recv    the receive goroutine routes one inbound message: a secondary *)
(*           or a control response to the slot keyed by its system bytes   *)
(*           (capacity 1, non-blocking), anything else to the handlers     *)
(*   Take / Timeout / Released / Cancel   the four ways the wait ends      *)
(* The registry is keyed by system bytes ALONE.  CtlCompletesData selects  *)
(* the design variant: TRUE = a control response found in the slot is      *)
(* returned to a data sender as its reply (as found: nil reply, nil error);*)
(* FALSE = it is skipped and the wait continues (repaired).                *)
(***************************************************************************)
EXTENDS Integers, Sequences, FiniteSets, TLC

CONSTANTS Senders, MaxEpoch, MaxSb, MaxPeer, CtlCompletesData,
          DropsLateReply   \* TRUE = as found: a wait that ends by T3 / cancel / teardown drops a reply that was routed into its
                           \* slot concurrently; FALSE = repaired: the slot is closed first and such a reply is returned

VARIABLES cur,        \* current epoch id (0 = never opened)
          live,       \* live[e]: the epoch's ctx is not cancelled
          sel,        \* the connection is Selected
          reg,        \* reg[e]: [sb -> "none" | "empty" | message record] (the reply registry of epoch e)
          pc, call, out,
          wire,       \* wire[e]: system bytes of the data frames written on epoch e's socket, in order
          handled,    \* inbound data messages handed to the handlers (sequence)
          nextSb, peerBudget,
          inflight, sendCnt, errCnt, dropCnt,
          lostReply   \* history: a reply that was taken off the handlers' path by a registry hit was then dropped

vars == <<cur, live, sel, reg, pc, call, out, wire, handled, nextSb, peerBudget, inflight, sendCnt, errCnt, dropCnt, lostReply>>

Epochs == 1..MaxEpoch
SbVals == 1..MaxSb
NoCall == [e |-> 0, sb |-> 0]
None == [kind |-> "none", sb |-> 0, e |-> 0]
Empty == [kind |-> "empty", sb |-> 0, e |-> 0]
NoOut == <<"-", 0, 0>>

Init ==
    /\ cur = 1 /\ live = [e \in Epochs |-> e = 1] /\ sel = TRUE
    /\ reg = [e \in Epochs |-> [b \in SbVals |-> None]]
    /\ pc = [s \in Senders |-> "idle"] /\ call = [s \in Senders |-> NoCall] /\ out = [s \in Senders |-> NoOut]
    /\ wire = [e \in Epochs |-> <<>>] /\ handled = <<>>
    /\ nextSb = 1 /\ peerBudget = MaxPeer
    /\ inflight = 0 /\ sendCnt = 0 /\ errCnt = 0 /\ dropCnt = 0 /\ lostReply = FALSE

Dereg(e, b) == reg' = [reg EXCEPT ![e][b] = None]

(* ------------------------------------------------------------------ the sender *)
Begin(s) ==
    /\ pc[s] = "idle" /\ out[s] = NoOut /\ cur > 0
    /\ IF ~sel
       THEN /\ dropCnt' = dropCnt + 1 /\ out' = [out EXCEPT ![s] = <<"not-selected", 0, 0>>]
            /\ UNCHANGED <<reg, pc, call, nextSb>>
       ELSE /\ nextSb <= MaxSb
            /\ call' = [call EXCEPT ![s] = [e |-> cur, sb |-> nextSb]]
            /\ reg' = [reg EXCEPT ![cur][nextSb] = Empty]
            /\ nextSb' = nextSb + 1
            /\ pc' = [pc EXCEPT ![s] = "registered"]
            /\ UNCHANGED <<dropCnt, out>>
    /\ UNCHANGED <<cur, live, sel, wire, handled, peerBudget, inflight, sendCnt, errCnt, lostReply>>

Write(s) ==
    /\ pc[s] = "registered"
    /\ LET e == call[s].e b == call[s].sb IN
       IF ~live[e]
       THEN /\ out' = [out EXCEPT ![s] = <<"closed", 0, 0>>] /\ pc' = [pc EXCEPT ![s] = "idle"] /\ Dereg(e, b)
            /\ UNCHANGED <<wire, sendCnt, inflight, dropCnt>>
       ELSE IF ~sel
       THEN /\ out' = [out EXCEPT ![s] = <<"not-selected", 0, 0>>] /\ pc' = [pc EXCEPT ![s] = "idle"] /\ Dereg(e, b)
            /\ dropCnt' = dropCnt + 1
            /\ UNCHANGED <<wire, sendCnt, inflight>>
       ELSE /\ wire' = [wire EXCEPT ![e] = Append(@, b)]          \* the epoch's OWN socket, never "the current one"
            /\ sendCnt' = sendCnt + 1 /\ inflight' = inflight + 1
            /\ pc' = [pc EXCEPT ![s] = "written"]
            /\ UNCHANGED <<out, reg, dropCnt>>
    /\ UNCHANGED <<cur, live, sel, call, handled, nextSb, peerBudget, errCnt, lostReply>>

HasReply(s) == reg[call[s].e][call[s].sb].kind \in {"secondary", "reject"}
Finish(s, o) ==
    /\ out' = [out EXCEPT ![s] = o] /\ pc' = [pc EXCEPT ![s] = "idle"]
    /\ inflight' = inflight - 1
    /\ Dereg(call[s].e, call[s].sb)
    /\ lostReply' = (lostReply \/ (HasReply(s) /\ o[1] \notin {"reply", "reject"}))

Take(s) ==
    /\ pc[s] = "written"
    /\ LET m == reg[call[s].e][call[s].sb] IN
       /\ m.kind \notin {"none", "empty"}
       /\ IF m.kind = "ctl" /\ ~CtlCompletesData
          THEN /\ reg' = [reg EXCEPT ![call[s].e][call[s].sb] = Empty]     \* not this transaction's reply: keep waiting
               /\ UNCHANGED <<out, pc, inflight, lostReply>>
          ELSE Finish(s, CASE m.kind = "secondary" -> <<"reply", m.sb, m.e>>
                           [] m.kind = "reject" -> <<"reject", m.sb, m.e>>
                           [] OTHER -> <<"nilnil", m.sb, m.e>>)
    /\ UNCHANGED <<cur, live, sel, call, wire, handled, nextSb, peerBudget, sendCnt, errCnt, dropCnt>>

(* a wait ends without a reply: repaired, the slot is closed first and a reply that is already in it wins (the Take step) *)
MayGiveUp(s) == DropsLateReply \/ ~HasReply(s)
Timeout(s) ==
    /\ pc[s] = "written" /\ MayGiveUp(s)
    /\ Finish(s, <<"t3", 0, 0>>) /\ errCnt' = errCnt + 1
    /\ UNCHANGED <<cur, live, sel, call, wire, handled, nextSb, peerBudget, sendCnt, dropCnt>>

Released(s) ==                     \* the epoch's ctx was cancelled while waiting
    /\ pc[s] = "written" /\ ~live[call[s].e] /\ MayGiveUp(s)
    /\ Finish(s, <<"closed", 0, 0>>)
    /\ UNCHANGED <<cur, live, sel, call, wire, handled, nextSb, peerBudget, sendCnt, errCnt, dropCnt>>

Cancel(s) ==
    /\ pc[s] = "written" /\ MayGiveUp(s)
    /\ Finish(s, <<"ctx", 0, 0>>)
    /\ UNCHANGED <<cur, live, sel, call, wire, handled, nextSb, peerBudget, sendCnt, errCnt, dropCnt>>

(* ------------------------------------------------------------------ the receive goroutine of the current epoch *)
Recv(kind, b) ==
    /\ peerBudget > 0 /\ cur > 0 /\ live[cur] /\ sel
    /\ peerBudget' = peerBudget - 1
    /\ LET m == [kind |-> kind, sb |-> b, e |-> cur] IN
       IF kind \in {"secondary", "ctl", "reject"} /\ reg[cur][b].kind /= "none"
       THEN /\ reg' = [reg EXCEPT ![cur][b] = IF @.kind = "empty" THEN m ELSE @]   \* capacity 1, non-blocking: a second one is discarded
            /\ UNCHANGED handled
       ELSE /\ handled' = IF kind \in {"secondary", "primary"} THEN Append(handled, m) ELSE handled
            /\ UNCHANGED reg
    /\ UNCHANGED <<cur, live, sel, pc, call, out, wire, nextSb, inflight, sendCnt, errCnt, dropCnt, lostReply>>

(* ------------------------------------------------------------------ the environment *)
Deselect == /\ sel /\ sel' = FALSE
            /\ UNCHANGED <<cur, live, reg, pc, call, out, wire, handled, nextSb, peerBudget, inflight, sendCnt, errCnt, dropCnt, lostReply>>
Reselect == /\ ~sel /\ cur > 0 /\ live[cur] /\ sel' = TRUE
            /\ UNCHANGED <<cur, live, reg, pc, call, out, wire, handled, nextSb, peerBudget, inflight, sendCnt, errCnt, dropCnt, lostReply>>
EndEpoch == /\ cur > 0 /\ live[cur]
            /\ live' = [live EXCEPT ![cur] = FALSE] /\ sel' = FALSE
            /\ UNCHANGED <<cur, reg, pc, call, out, wire, handled, nextSb, peerBudget, inflight, sendCnt, errCnt, dropCnt, lostReply>>
NewEpoch == /\ cur > 0 /\ ~live[cur] /\ cur < MaxEpoch
            /\ cur' = cur + 1 /\ live' = [live EXCEPT ![cur + 1] = TRUE]
            /\ UNCHANGED <<sel, reg, pc, call, out, wire, handled, nextSb, peerBudget, inflight, sendCnt, errCnt, dropCnt, lostReply>>

Next == \/ \E s \in Senders : Begin(s) \/ Write(s) \/ Take(s) \/ Timeout(s) \/ Released(s) \/ Cancel(s)
        \/ \E k \in {"secondary", "ctl", "reject", "primary"}, b \in SbVals : Recv(k, b)
        \/ Deselect \/ Reselect \/ EndEpoch \/ NewEpoch

Spec == Init /\ [][Next]_vars

(* ------------------------------------------------------------------ properties (C06 / C07 / C09 / C20, design level) *)
NeverNilNil == \A s \in Senders : out[s][1] /= "nilnil"
OwnReply == \A s \in Senders : (out[s][1] \in {"reply", "reject"})
                => (out[s][2] = call[s].sb /\ out[s][3] = call[s].e)       \* own system bytes, own generation
InflightConserves == inflight = Cardinality({s \in Senders : pc[s] = "written"}) /\ inflight >= 0
SendMatchesWire == sendCnt = Len(wire[1]) + (IF MaxEpoch >= 2 THEN Len(wire[2]) ELSE 0)
NoStaleFrame == \A s \in Senders : \A e \in Epochs :
                    (call[s].e /= 0 /\ e /= call[s].e) => \A i \in 1..Len(wire[e]) : wire[e][i] /= call[s].sb
UniqueSb == \A s, t \in Senders : (s /= t /\ pc[s] /= "idle" /\ pc[t] /= "idle") => call[s].sb /= call[t].sb
NoDataWhenNotSelected == [][(~sel) => \A e \in Epochs : wire'[e] = wire[e]]_vars
RegistryClean == (\A s \in Senders : pc[s] = "idle") => \A e \in Epochs, b \in SbVals : reg[e][b] = None
(* every inbound reply reaches one recipient: one that the registry took off the handlers' path is returned to its sender *)
NoReplyLost == ~lostReply
=============================================================================
