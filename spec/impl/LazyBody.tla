------------------------------ MODULE LazyBody ------------------------------
(***************************************************************************)
(* Lazy body decode / encode shared by a message and its re-stamped copies *)
(* (hsms/data_msg.go decodeState + sync.Once; internal/wire/body.go         *)
(* treeBody.once).  Callers -- any number of goroutines holding the         *)
(* message or one of its WithSessionID / WithSystemBytes copies, which      *)
(* share ONE decodeState -- call Item().  sync.Once is modelled as in the   *)
(* Go runtime: a done flag read without the lock on the fast path, and a    *)
(* mutex around "if !done { f(); done = true }".  The decode itself is two  *)
(* steps (the result is first partial, then complete) so that a caller      *)
(* reading it in between would be visible.                                  *)
(*                                                                         *)
(* UseOnce = FALSE is the unsynchronised memoisation `if v == nil { v = f() *)
(* }` (what seeded change C12b does for ListItem.EncodedLen): it is here to *)
(* show that the invariants are not vacuous.                               *)
(***************************************************************************)
EXTENDS Integers, FiniteSets

CONSTANTS Callers, UseOnce

VARIABLES pc,      \* per caller: "start" | "locked" | "decoding" | "read" | "done"
          done,    \* the Once's done flag
          lock,    \* holder of the Once's mutex, or "none"
          item,    \* 0 = nil, negative = partially built by run -item, positive = complete result of run item
          runs,    \* how many times the decode function ran
          mine,    \* per caller: the run it is executing
          got      \* per caller: what Item() returned (0 = not yet)

vars == <<pc, done, lock, item, runs, mine, got>>

Init == /\ pc = [c \in Callers |-> "start"] /\ done = FALSE /\ lock = "none" /\ item = 0 /\ runs = 0
        /\ mine = [c \in Callers |-> 0] /\ got = [c \in Callers |-> 0]

(* once.Do fast path / slow path *)
FastPath(c) == /\ pc[c] = "start" /\ UseOnce /\ done /\ pc' = [pc EXCEPT ![c] = "read"]
               /\ UNCHANGED <<done, lock, item, runs, mine, got>>
Lock(c) == /\ pc[c] = "start" /\ UseOnce /\ ~done /\ lock = "none" /\ lock' = c /\ pc' = [pc EXCEPT ![c] = "locked"]
           /\ UNCHANGED <<done, item, runs, mine, got>>
Recheck(c) == /\ pc[c] = "locked"
              /\ IF done THEN /\ lock' = "none" /\ pc' = [pc EXCEPT ![c] = "read"] /\ UNCHANGED <<item, runs, mine>>
                 ELSE /\ runs' = runs + 1 /\ mine' = [mine EXCEPT ![c] = runs + 1] /\ item' = -(runs + 1)
                      /\ pc' = [pc EXCEPT ![c] = "decoding"] /\ UNCHANGED lock
              /\ UNCHANGED <<done, got>>
Finish(c) == /\ pc[c] = "decoding" /\ item' = mine[c]
             /\ IF UseOnce THEN done' = TRUE /\ lock' = "none" ELSE UNCHANGED <<done, lock>>
             /\ pc' = [pc EXCEPT ![c] = "read"] /\ UNCHANGED <<runs, mine, got>>
(* the unsynchronised variant: check, then act *)
NaiveCheck(c) == /\ pc[c] = "start" /\ ~UseOnce
                 /\ IF item = 0 THEN /\ runs' = runs + 1 /\ mine' = [mine EXCEPT ![c] = runs + 1] /\ item' = -(runs + 1)
                                     /\ pc' = [pc EXCEPT ![c] = "decoding"]
                    ELSE /\ pc' = [pc EXCEPT ![c] = "read"] /\ UNCHANGED <<item, runs, mine>>
                 /\ UNCHANGED <<done, lock, got>>
Read(c) == /\ pc[c] = "read" /\ got' = [got EXCEPT ![c] = item] /\ pc' = [pc EXCEPT ![c] = "done"]
           /\ UNCHANGED <<done, lock, item, runs, mine>>

Next == \E c \in Callers : FastPath(c) \/ Lock(c) \/ Recheck(c) \/ Finish(c) \/ NaiveCheck(c) \/ Read(c)
Spec == Init /\ [][Next]_vars /\ WF_vars(Next)

(* ------------------------------------------------------------------ C12 *)
AtMostOnce == runs <= 1
NoTornRead == \A c \in Callers : got[c] >= 0                          \* nobody observes a half-built result
SameForAll == \A a, b \in Callers : pc[a] = "done" /\ pc[b] = "done" => got[a] = got[b]
AllReturn == <>(\A c \in Callers : pc[c] = "done")
=============================================================================
