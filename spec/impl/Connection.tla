------------------------------ MODULE Connection ------------------------------
(***************************************************************************)
(* Open / Close / reconnect of hsms/connection_lifecycle.go with           *)
(* hsms/epoch.go and the transport Start/Stop seal, one action per         *)
(* critical section:                                                       *)
(*  callers   Open: lock lifeMu, double-open guard, fence (reconnectGen++, *)
(*            shutdown := FALSE), join old loops, new epoch + supervisor,  *)
(*            ArmStart, Start (outcome chosen by the environment), cold    *)
(*            retry / rollback / optional wait for Selected, unlock.       *)
(*            Close: lock, never-opened / already-closed shortcuts, fence  *)
(*            under publishMu (reconnectGen++, shutdown := TRUE, re-pin    *)
(*            cur), cancel backoff, requestClose, wait epoch, stop         *)
(*            supervisor, join loops, unlock.                              *)
(*  supervisor  processes disconnect / close events in order; on entering  *)
(*            NotConnected calls react (start a reconnect loop unless      *)
(*            shutdown; tear the epoch down).                              *)
(*  loop      wait previous epoch, backoff sleep (interruptible by Close),  *)
(*            fence, new epoch, publish under publishMu (re-check), Start, *)
(*            on failure tear down and retry.                              *)
(* HoldLockWhileWaiting: TRUE = Open(wait) keeps lifeMu while it waits for *)
(* Selected (as found), FALSE = it releases the lock first.                *)
(***************************************************************************)
EXTENDS Integers, Sequences, FiniteSets, TLC

CONSTANTS Callers, MaxOps, MaxEpochs, MaxDrops, HoldLockWhileWaiting

VARIABLES lifeMu,      \* "none" or the caller holding it
          pc, op, ret, \* per caller: program counter, current operation, last result
          ops,         \* operations started so far (bound)
          cur,         \* current epoch id (0 = never opened)
          ep,          \* ep[e]: "unused" | "live" | "tearing" | "done"
          tcp,         \* tcp[e]: the epoch's transport Start succeeded (a socket / listener exists)
          sup,         \* "none" | "alive" | "stopped"
          supq,        \* events for the supervisor: <<kind, epoch>>
          latched,     \* supervisor processed a close
          selected,    \* the current generation reached Selected
          shutdown, gen,
          loops,       \* reconnect loops: set of [id, gen, pc, prev, e]
          nextLoop, cancelled,
          sealed,      \* transport Stop sealed it (cleared by ArmStart)
          drops,
          closedOnce   \* history: a Close has returned and no Open has started since

vars == <<lifeMu, pc, op, ret, ops, cur, ep, tcp, sup, supq, latched, selected, shutdown, gen, loops, nextLoop, cancelled,
          sealed, drops, closedOnce>>

Epochs == 1..MaxEpochs
NextEpoch == IF \E e \in Epochs : ep[e] = "unused" THEN CHOOSE e \in Epochs : ep[e] = "unused" /\ \A f \in Epochs : f < e => ep[f] /= "unused" ELSE 0

Init ==
    /\ lifeMu = "none" /\ pc = [c \in Callers |-> "idle"] /\ op = [c \in Callers |-> "-"] /\ ret = [c \in Callers |-> "-"]
    /\ ops = 0 /\ cur = 0 /\ ep = [e \in Epochs |-> "unused"] /\ tcp = [e \in Epochs |-> FALSE]
    /\ sup = "none" /\ supq = <<>> /\ latched = FALSE /\ selected = FALSE
    /\ shutdown = FALSE /\ gen = 0 /\ loops = {} /\ nextLoop = 1 /\ cancelled = FALSE /\ sealed = FALSE /\ drops = 0
    /\ closedOnce = FALSE

Set(f, c, v) == [f EXCEPT ![c] = v]

(* teardown(e): idempotent; cancels the epoch, Stop()s the (shared) transport -- which seals it -- and joins *)
Teardown(e) == /\ ep' = IF ep[e] = "live" THEN Set(ep, e, "tearing") ELSE ep
               /\ sealed' = IF ep[e] = "live" THEN TRUE ELSE sealed
JoinDone(e) == /\ ep[e] = "tearing"
               /\ ep' = Set(ep, e, "done") /\ tcp' = Set(tcp, e, FALSE)
               /\ UNCHANGED <<lifeMu, pc, op, ret, ops, cur, sup, supq, latched, selected, shutdown, gen, loops, nextLoop, cancelled,
                              sealed, drops, closedOnce>>

(* ------------------------------------------------------------------ Open *)
StartOpen(c, mode) ==
    /\ pc[c] = "idle" /\ ops < MaxOps /\ lifeMu = "none"
    /\ lifeMu' = c /\ ops' = ops + 1 /\ op' = Set(op, c, mode) /\ pc' = Set(pc, c, "O_guard") /\ ret' = Set(ret, c, "-")
    /\ UNCHANGED <<cur, ep, tcp, sup, supq, latched, selected, shutdown, gen, loops, nextLoop, cancelled, sealed, drops, closedOnce>>

OGuard(c) ==
    /\ pc[c] = "O_guard"
    /\ IF sup = "alive" /\ ~shutdown
       THEN /\ ret' = Set(ret, c, "already-open") /\ pc' = Set(pc, c, "idle") /\ lifeMu' = "none"
            /\ UNCHANGED <<gen, shutdown, closedOnce>>
       ELSE /\ gen' = gen + 1 /\ shutdown' = FALSE /\ pc' = Set(pc, c, "O_join") /\ closedOnce' = FALSE
            /\ UNCHANGED <<ret, lifeMu>>
    /\ UNCHANGED <<op, ops, cur, ep, tcp, sup, supq, latched, selected, loops, nextLoop, cancelled, sealed, drops>>

OJoin(c) ==                        \* connectLoopWg.Wait(): loops of the previous cycle see the bumped generation and exit
    /\ pc[c] = "O_join" /\ loops = {} /\ NextEpoch /= 0
    /\ LET e == NextEpoch IN
       /\ ep' = Set(ep, e, "live") /\ cur' = e
       /\ sup' = "alive" /\ supq' = <<>> /\ latched' = FALSE /\ selected' = FALSE
       /\ cancelled' = FALSE /\ sealed' = FALSE                      \* fresh cancel channel; ArmStart
    /\ pc' = Set(pc, c, "O_start")
    /\ UNCHANGED <<lifeMu, op, ret, ops, tcp, shutdown, gen, loops, nextLoop, drops, closedOnce>>

OStartOK(c) ==                     \* transport Start succeeded
    /\ pc[c] = "O_start" /\ ~sealed
    /\ tcp' = Set(tcp, cur, TRUE)
    /\ IF op[c] = "open-wait" THEN pc' = Set(pc, c, "O_wait") /\ lifeMu' = (IF HoldLockWhileWaiting THEN c ELSE "none") /\ UNCHANGED ret
       ELSE pc' = Set(pc, c, "idle") /\ lifeMu' = "none" /\ ret' = Set(ret, c, "ok")
    /\ UNCHANGED <<op, ops, cur, ep, sup, supq, latched, selected, shutdown, gen, loops, nextLoop, cancelled, sealed, drops, closedOnce>>

OStartFailCold(c) ==               \* background open of an active endpoint: initial dial failed -> retry in the background
    /\ pc[c] = "O_start" /\ op[c] = "open-bg"
    /\ Teardown(cur)
    /\ pc' = Set(pc, c, "O_coldwait")
    /\ UNCHANGED <<lifeMu, op, ret, ops, cur, tcp, sup, supq, latched, selected, shutdown, gen, loops, nextLoop, cancelled, drops, closedOnce>>

OColdWait(c) ==
    /\ pc[c] = "O_coldwait" /\ ep[cur] = "done"
    /\ loops' = loops \cup {[id |-> nextLoop, gen |-> gen, pc |-> "L_sleep", prev |-> cur, e |-> 0]}
    /\ nextLoop' = nextLoop + 1
    /\ pc' = Set(pc, c, "idle") /\ lifeMu' = "none" /\ ret' = Set(ret, c, "ok")
    /\ UNCHANGED <<op, ops, cur, ep, tcp, sup, supq, latched, selected, shutdown, gen, cancelled, sealed, drops, closedOnce>>

OStartFailRollback(c) ==           \* Start failed and no background retry applies: roll the Open back
    /\ pc[c] = "O_start" /\ op[c] = "open-wait"
    /\ shutdown' = TRUE /\ supq' = Append(supq, <<"close", cur>>)
    /\ pc' = Set(pc, c, "O_rbwait")
    /\ UNCHANGED <<lifeMu, op, ret, ops, cur, ep, tcp, sup, latched, selected, gen, loops, nextLoop, cancelled, sealed, drops, closedOnce>>

ORollbackWait(c) ==
    /\ pc[c] = "O_rbwait" /\ ep[cur] = "done" /\ latched
    /\ sup' = "stopped"
    /\ pc' = Set(pc, c, "idle") /\ lifeMu' = "none" /\ ret' = Set(ret, c, "start-failed")
    /\ UNCHANGED <<op, ops, cur, ep, tcp, supq, latched, selected, shutdown, gen, loops, nextLoop, cancelled, sealed, drops, closedOnce>>

OWaitDone(c) ==                    \* Open(wait) returns: Selected reached, the epoch ended, or the caller's ctx expired
    /\ pc[c] = "O_wait"
    /\ \/ selected /\ ret' = Set(ret, c, "ok")
       \/ ep[cur] \in {"tearing", "done"} /\ ret' = Set(ret, c, "closed")
       \/ ret' = Set(ret, c, "ctx")                                        \* environment: the caller's context ends
    /\ pc' = Set(pc, c, "idle") /\ lifeMu' = (IF lifeMu = c THEN "none" ELSE lifeMu)
    /\ UNCHANGED <<op, ops, cur, ep, tcp, sup, supq, latched, selected, shutdown, gen, loops, nextLoop, cancelled, sealed, drops, closedOnce>>

(* ------------------------------------------------------------------ Close *)
StartClose(c) ==
    /\ pc[c] = "idle" /\ ops < MaxOps /\ lifeMu = "none"
    /\ lifeMu' = c /\ ops' = ops + 1 /\ op' = Set(op, c, "close") /\ ret' = Set(ret, c, "-")
    /\ IF cur = 0 THEN pc' = Set(pc, c, "C_ret_notopen")
       ELSE IF sup = "stopped" THEN pc' = Set(pc, c, "C_ret_idem")
       ELSE pc' = Set(pc, c, "C_fence")
    /\ UNCHANGED <<cur, ep, tcp, sup, supq, latched, selected, shutdown, gen, loops, nextLoop, cancelled, sealed, drops, closedOnce>>

CShortcut(c) ==
    /\ pc[c] \in {"C_ret_notopen", "C_ret_idem"}
    /\ ret' = Set(ret, c, IF pc[c] = "C_ret_notopen" THEN "not-open" ELSE "ok")
    /\ pc' = Set(pc, c, "idle") /\ lifeMu' = "none"
    /\ UNCHANGED <<op, ops, cur, ep, tcp, sup, supq, latched, selected, shutdown, gen, loops, nextLoop, cancelled, sealed, drops, closedOnce>>

CFence(c) ==                       \* under publishMu: fence + re-pin cur; then cancel the backoff and request the close
    /\ pc[c] = "C_fence"
    /\ gen' = gen + 1 /\ shutdown' = TRUE /\ cancelled' = TRUE
    /\ supq' = Append(supq, <<"close", cur>>)
    /\ pc' = Set(pc, c, "C_wait")
    /\ UNCHANGED <<lifeMu, op, ret, ops, cur, ep, tcp, sup, latched, selected, loops, nextLoop, sealed, drops, closedOnce>>

CWait(c) ==                        \* e.wait(), then stop + join the supervisor, then join the reconnect loops
    /\ pc[c] = "C_wait" /\ ep[cur] = "done" /\ latched /\ loops = {}
    /\ sup' = "stopped"
    /\ pc' = Set(pc, c, "idle") /\ lifeMu' = "none" /\ ret' = Set(ret, c, "ok") /\ closedOnce' = TRUE
    /\ UNCHANGED <<op, ops, cur, ep, tcp, supq, latched, selected, shutdown, gen, loops, nextLoop, cancelled, sealed, drops>>

(* ------------------------------------------------------------------ supervisor *)
SupStep ==
    /\ sup = "alive" /\ supq /= <<>>
    /\ LET ev == Head(supq) kind == ev[1] e == ev[2] IN
       /\ supq' = Tail(supq)
       /\ IF latched THEN UNCHANGED <<latched, loops, nextLoop, ep, sealed, selected>>
          ELSE IF kind = "close"
          THEN /\ latched' = TRUE /\ selected' = FALSE
               /\ Teardown(e) /\ UNCHANGED <<loops, nextLoop>>
          ELSE \* disconnect of epoch e: only meaningful for the live current epoch
               IF e = cur /\ ep[e] = "live"
               THEN /\ selected' = FALSE
                    /\ IF ~shutdown
                       THEN /\ loops' = loops \cup {[id |-> nextLoop, gen |-> gen, pc |-> "L_waitprev", prev |-> e, e |-> 0]}
                            /\ nextLoop' = nextLoop + 1
                       ELSE UNCHANGED <<loops, nextLoop>>
                    /\ Teardown(e) /\ UNCHANGED latched
               ELSE UNCHANGED <<latched, loops, nextLoop, ep, sealed, selected>>
    /\ UNCHANGED <<lifeMu, pc, op, ret, ops, cur, tcp, sup, shutdown, gen, cancelled, drops, closedOnce>>

(* ------------------------------------------------------------------ reconnect loop *)
LUnch == UNCHANGED <<lifeMu, pc, op, ret, ops, sup, supq, latched, selected, shutdown, gen, nextLoop, cancelled, drops, closedOnce>>
LWaitPrev(l) == /\ l \in loops /\ l.pc = "L_waitprev" /\ ep[l.prev] = "done"
                /\ loops' = (loops \ {l}) \cup {[l EXCEPT !.pc = "L_sleep"]}
                /\ UNCHANGED <<ep, cur, tcp, sealed>> /\ LUnch
LSleep(l) == /\ l \in loops /\ l.pc = "L_sleep"                                      \* the backoff sleep ends, or Close interrupts it
             /\ loops' = IF cancelled THEN loops \ {l} ELSE (loops \ {l}) \cup {[l EXCEPT !.pc = "L_fence"]}
             /\ UNCHANGED <<ep, cur, tcp, sealed>> /\ LUnch
LFence(l) == /\ l \in loops /\ l.pc = "L_fence"
             /\ IF shutdown \/ gen /= l.gen \/ NextEpoch = 0 THEN loops' = loops \ {l}
                ELSE loops' = (loops \ {l}) \cup {[l EXCEPT !.pc = "L_publish", !.e = NextEpoch]}
             /\ UNCHANGED <<ep, cur, tcp, sealed>> /\ LUnch
LPublish(l) == /\ l \in loops /\ l.pc = "L_publish"                             \* holding publishMu: re-check, ArmStart, publish
               /\ IF shutdown \/ gen /= l.gen
                  THEN loops' = loops \ {l} /\ UNCHANGED <<ep, cur, sealed>>
                  ELSE /\ ep' = Set(ep, l.e, "live") /\ cur' = l.e /\ sealed' = FALSE
                       /\ loops' = (loops \ {l}) \cup {[l EXCEPT !.pc = "L_start"]}
               /\ UNCHANGED tcp /\ LUnch
LStartOK(l) == /\ l \in loops /\ l.pc = "L_start" /\ ~sealed /\ ep[l.e] = "live"       \* Start succeeded: the loop is done
               /\ tcp' = Set(tcp, l.e, TRUE) /\ loops' = loops \ {l}
               /\ UNCHANGED <<ep, cur, sealed>> /\ LUnch
LStartFail(l) == /\ l \in loops /\ l.pc = "L_start"                                      \* Start failed (refused / sealed): tear down, retry
                 /\ Teardown(l.e) /\ loops' = (loops \ {l}) \cup {[l EXCEPT !.pc = "L_waitown"]}
                 /\ UNCHANGED <<cur, tcp>> /\ LUnch
LWaitOwn(l) == /\ l \in loops /\ l.pc = "L_waitown" /\ ep[l.e] = "done"
               /\ loops' = (loops \ {l}) \cup {[l EXCEPT !.pc = "L_sleep", !.e = 0]}
               /\ UNCHANGED <<ep, cur, tcp, sealed>> /\ LUnch
LoopStep(l) == LWaitPrev(l) \/ LSleep(l) \/ LFence(l) \/ LPublish(l) \/ LStartOK(l) \/ LStartFail(l) \/ LWaitOwn(l)

(* ------------------------------------------------------------------ environment *)
PeerSelects ==
    /\ cur > 0 /\ ep[cur] = "live" /\ tcp[cur] /\ ~selected /\ ~latched
    /\ selected' = TRUE
    /\ UNCHANGED <<lifeMu, pc, op, ret, ops, cur, ep, tcp, sup, supq, latched, shutdown, gen, loops, nextLoop, cancelled, sealed, drops, closedOnce>>
PeerDrops ==
    /\ cur > 0 /\ ep[cur] = "live" /\ tcp[cur] /\ drops < MaxDrops /\ sup = "alive"
    /\ drops' = drops + 1 /\ supq' = Append(supq, <<"disc", cur>>)
    /\ UNCHANGED <<lifeMu, pc, op, ret, ops, cur, ep, tcp, sup, latched, selected, shutdown, gen, loops, nextLoop, cancelled, sealed, closedOnce>>

Next == \/ \E c \in Callers : \/ StartOpen(c, "open-bg") \/ StartOpen(c, "open-wait") \/ OGuard(c) \/ OJoin(c) \/ OStartOK(c)
                              \/ OStartFailCold(c) \/ OColdWait(c) \/ OStartFailRollback(c) \/ ORollbackWait(c) \/ OWaitDone(c)
                              \/ StartClose(c) \/ CShortcut(c) \/ CFence(c) \/ CWait(c)
        \/ SupStep \/ (\E l \in loops : LoopStep(l)) \/ (\E e \in Epochs : JoinDone(e))
        \/ PeerSelects \/ PeerDrops

Spec == Init /\ [][Next]_vars
Fair == Spec /\ WF_vars(SupStep) /\ WF_vars(\E l \in loops : LoopStep(l)) /\ WF_vars(\E e \in Epochs : JoinDone(e))
             /\ \A c \in Callers : WF_vars(OGuard(c) \/ OJoin(c) \/ OStartOK(c) \/ OColdWait(c) \/ ORollbackWait(c) \/ OWaitDone(c)
                                           \/ CShortcut(c) \/ CFence(c) \/ CWait(c))

(* ------------------------------------------------------------------ C10 / C11 at design level *)
(* after Close has returned (and until the next Open starts): nothing of the library is left *)
CloseLeavesNothing == closedOnce => /\ loops = {} /\ sup = "stopped"
                                    /\ \A e \in Epochs : ep[e] \in {"unused", "done"} /\ ~tcp[e]
NoReconnectAfterClose == [][closedOnce /\ closedOnce' => (ep' = ep /\ loops' = loops)]_vars
(* at most one generation is live, and it is the published one *)
OneLiveGeneration == \A e \in Epochs : ep[e] = "live" => e = cur
(* Open on an open connection fails with already-open and changes nothing *)
OpenWhileOpenNoEffect == [][\A c \in Callers : (pc[c] = "O_guard" /\ ret'[c] = "already-open")
                              => (ep' = ep /\ loops' = loops /\ gen' = gen /\ shutdown' = shutdown /\ cur' = cur /\ sup' = sup)]_vars
(* an open connection that lost its link keeps a recovery path alive (C11): a loop exists, a Start is pending or a generation is live *)
RecoveryPending == (sup = "alive" /\ ~shutdown /\ ~latched /\ NextEpoch /= 0 /\ \A c \in Callers : pc[c] = "idle")
                      => \/ \E e \in Epochs : ep[e] = "live"
                         \/ loops /= {}
                         \/ supq /= <<>>
(* Close never has to wait for the ENVIRONMENT: the lifeMu holder is never an Open that is waiting for the peer / its ctx *)
CloseOnlyWaitsForLibrary == \A c \in Callers : ~(lifeMu = c /\ pc[c] = "O_wait")
(* every Close terminates *)
CloseTerminates == \A c \in Callers : (op[c] = "close" /\ pc[c] /= "idle") ~> (pc[c] = "idle")
=============================================================================
