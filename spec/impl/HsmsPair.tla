------------------------------ MODULE HsmsPair ------------------------------
(***************************************************************************)
(* Two HSMS-SS endpoints talking to each other: A (active: dials, starts   *)
(* the Select procedure) and P (passive: accepts), joined by one TCP       *)
(* connection per generation = two FIFO byte pipes.                        *)
(*                                                                         *)
(* Each endpoint REACTS to a frame exactly as impl/HsmsSS!Respond says --   *)
(* the operator that trace/OracleHsmsSS binds to the real receive path     *)
(* (C08) -- so this module adds only what an endpoint does on its own      *)
(* (hsmsss/transport_active.go, transport_procedures.go, transport.go):    *)
(*   Connect   dial/accept; A sends Select.req and opens the transaction   *)
(*   T6 / T7   an open control transaction / the NotSelected dwell expires *)
(*             -> the endpoint drops the link (it reconnects afterwards)   *)
(*   SendData  the application sends a primary; the gate lets it through   *)
(*             only while Selected (C07)                                   *)
(*   Linktest  a Linktest.req while Selected                               *)
(*   Close     Separate.req when Selected, then the socket is closed       *)
(*   LinkLoss  the network ends the connection under both                  *)
(* ForeignSelect = TRUE lets the passive side start a Select procedure of  *)
(* its own (not go-secs behaviour: a foreign equipment doing the           *)
(* simultaneous select of E37 7.4.3).                                      *)
(*                                                                         *)
(* What is checked: two endpoints that each follow the answer tables agree *)
(* on the session whenever the link is at rest, never reject each other's  *)
(* frames, never let data cross a generation, and -- once faults stop --   *)
(* end up Selected for good.                                               *)
(***************************************************************************)
EXTENDS HsmsSS, FiniteSets

CONSTANTS MaxGen,          \* TCP generations
          MaxData,         \* data primaries per generation (both directions together)
          MaxFaults,       \* timer expiries + link losses + closes in the whole behaviour
          MaxLinktest,     \* Linktest.req per generation
          ForeignSelect

VARIABLES ep,              \* ep[e] = [sel, open, up]: the endpoint state of HsmsSS!Respond
          ch,              \* ch[e] = frames on their way TO e
          eof,             \* eof[e]: the peer's end is closed; e notices once ch[e] is drained
          closed,          \* closed[e]: the application called Close and has not reopened
          gen, nsb, ndata, nlt, faults,
          delivered,       \* <<generation sent, generation delivered, receiver>> of every data frame handed to a handler
          rejects          \* number of Reject.req frames ever produced

vars == <<ep, ch, eof, closed, gen, nsb, ndata, nlt, faults, delivered, rejects>>

E == {"A", "P"}
Other(e) == IF e = "A" THEN "P" ELSE "A"
Sid == 258
Cfg == [cutSid |-> Sid, validate |-> FALSE]
Sb(n) == <<0, 0, gen, n>>          \* system bytes carry the generation: a stale frame is recognisable in the model
Down == [sel |-> "NS", open |-> {}, up |-> FALSE]
Fr(h) == Mk(h, <<>>)

Init ==
    /\ ep = [e \in E |-> Down] /\ ch = [e \in E |-> <<>>] /\ eof = [e \in E |-> FALSE]
    /\ closed = [e \in E |-> FALSE]
    /\ gen = 0 /\ nsb = 0 /\ ndata = 0 /\ nlt = 0 /\ faults = 0 /\ delivered = {} /\ rejects = 0

(* e leaves the connection: unread input is discarded, the peer will see EOF behind what e already sent *)
DropTo(e, extra) ==
    /\ ep' = [ep EXCEPT ![e] = Down]
    /\ ch' = [ch EXCEPT ![e] = <<>>, ![Other(e)] = IF ep[Other(e)].up THEN @ \o extra ELSE @]
    /\ eof' = [eof EXCEPT ![e] = FALSE, ![Other(e)] = ep[Other(e)].up]

Connect ==
    /\ gen < MaxGen /\ ~closed["A"] /\ ~closed["P"]
    /\ \A e \in E : ~ep[e].up /\ ch[e] = <<>> /\ ~eof[e]
    /\ gen' = gen + 1 /\ nsb' = 1 /\ ndata' = 0 /\ nlt' = 0
    /\ LET sb == <<0, 0, gen + 1, 1>>
       IN /\ ep' = [ep EXCEPT !["A"] = [sel |-> "NS", open |-> {sb}, up |-> TRUE],
                              !["P"] = [sel |-> "NS", open |-> {}, up |-> TRUE]]
          /\ ch' = [ch EXCEPT !["P"] = <<Fr(SelectReq(Sid, sb))>>]
    /\ UNCHANGED <<eof, closed, faults, delivered, rejects>>

(* the receive goroutine of e takes the next frame: HsmsSS!Respond *)
Deliver(e) ==
    /\ ep[e].up /\ ch[e] /= <<>>
    /\ LET f == Head(ch[e])  r == Respond(Cfg, ep[e], f)
           nrej == Cardinality({i \in 1..Len(r.out) : r.out[i].st = SRejectReq})
       IN /\ rejects' = rejects + nrej
          /\ delivered' = IF r.deliver THEN delivered \cup {<<f.sb[3], gen, e>>} ELSE delivered
          /\ IF r.s.up
             THEN /\ ep' = [ep EXCEPT ![e] = r.s]
                  /\ ch' = [ch EXCEPT ![e] = Tail(@), ![Other(e)] = IF ep[Other(e)].up THEN @ \o r.out ELSE @]
                  /\ UNCHANGED eof
             ELSE DropTo(e, r.out)
    /\ UNCHANGED <<closed, gen, nsb, ndata, nlt, faults>>

SeeEOF(e) ==
    /\ ep[e].up /\ ch[e] = <<>> /\ eof[e]
    /\ DropTo(e, <<>>)
    /\ UNCHANGED <<closed, gen, nsb, ndata, nlt, faults, delivered, rejects>>

T6(e) ==
    /\ faults < MaxFaults /\ ep[e].up /\ ep[e].open /= {}
    /\ faults' = faults + 1 /\ DropTo(e, <<>>)
    /\ UNCHANGED <<closed, gen, nsb, ndata, nlt, delivered, rejects>>

T7(e) ==
    /\ faults < MaxFaults /\ ep[e].up /\ ep[e].sel = "NS"
    /\ faults' = faults + 1 /\ DropTo(e, <<>>)
    /\ UNCHANGED <<closed, gen, nsb, ndata, nlt, delivered, rejects>>

SendData(e) ==
    /\ ep[e].up /\ ep[e].sel = "S" /\ ndata < MaxData /\ ep[Other(e)].up
    /\ ndata' = ndata + 1 /\ nsb' = nsb + 1
    /\ ch' = [ch EXCEPT ![Other(e)] = Append(@, Mk(DataHdr(Sid, 1, 1, 0, Sb(nsb + 1)), <<>>))]
    /\ UNCHANGED <<ep, eof, closed, gen, nlt, faults, delivered, rejects>>

Linktest(e) ==
    /\ ep[e].up /\ ep[e].sel = "S" /\ nlt < MaxLinktest /\ ep[Other(e)].up
    /\ nlt' = nlt + 1 /\ nsb' = nsb + 1
    /\ ep' = [ep EXCEPT ![e].open = @ \cup {Sb(nsb + 1)}]
    /\ ch' = [ch EXCEPT ![Other(e)] = Append(@, Fr(LinktestReq(Sb(nsb + 1))))]
    /\ UNCHANGED <<eof, closed, gen, ndata, faults, delivered, rejects>>

(* a foreign passive equipment starts its own Select procedure while NotSelected *)
PeerSelect ==
    /\ ForeignSelect /\ ep["P"].up /\ ep["P"].sel = "NS" /\ ep["P"].open = {} /\ ep["A"].up
    /\ nsb' = nsb + 1
    /\ ep' = [ep EXCEPT !["P"].open = {Sb(nsb + 1)}]
    /\ ch' = [ch EXCEPT !["A"] = Append(@, Fr(SelectReq(Sid, Sb(nsb + 1))))]
    /\ UNCHANGED <<eof, closed, gen, ndata, nlt, faults, delivered, rejects>>

Close(e) ==
    /\ faults < MaxFaults /\ ~closed[e]
    /\ faults' = faults + 1 /\ closed' = [closed EXCEPT ![e] = TRUE] /\ nsb' = nsb + 1
    /\ IF ep[e].up
       THEN DropTo(e, IF ep[e].sel = "S" THEN <<Fr(SeparateReq(Sid, Sb(nsb + 1)))>> ELSE <<>>)
       ELSE UNCHANGED <<ep, ch, eof>>
    /\ UNCHANGED <<gen, ndata, nlt, delivered, rejects>>

Reopen(e) ==
    /\ closed[e] /\ closed' = [closed EXCEPT ![e] = FALSE]
    /\ UNCHANGED <<ep, ch, eof, gen, nsb, ndata, nlt, faults, delivered, rejects>>

LinkLoss ==
    /\ faults < MaxFaults /\ ep["A"].up /\ ep["P"].up
    /\ faults' = faults + 1 /\ eof' = [e \in E |-> TRUE]
    /\ UNCHANGED <<ep, ch, closed, gen, nsb, ndata, nlt, delivered, rejects>>

Next == \/ Connect \/ PeerSelect \/ LinkLoss
        \/ \E e \in E : Deliver(e) \/ SeeEOF(e) \/ T6(e) \/ T7(e) \/ SendData(e) \/ Linktest(e)
                        \/ Close(e) \/ Reopen(e)

Fair == /\ WF_vars(Connect)
        /\ \A e \in E : WF_vars(Deliver(e)) /\ WF_vars(SeeEOF(e)) /\ WF_vars(Reopen(e))
Spec == Init /\ [][Next]_vars /\ Fair

(* ------------------------------------------------------------------ properties *)
TypeOK == /\ \A e \in E : ep[e].sel \in {"NS", "S"} /\ ep[e].up \in BOOLEAN
          /\ gen \in 0..MaxGen /\ faults \in 0..MaxFaults

AtRest == \A e \in E : ep[e].up /\ ch[e] = <<>> /\ ~eof[e]
(* with nothing in flight both ends hold the same view of the session *)
AgreeAtRest == AtRest => ep["A"].sel = ep["P"].sel
(* ... and no control transaction is left open for ever *)
NothingOpenAtRest == AtRest => \A e \in E : ep[e].open = {}
(* two endpoints that follow the tables never have a reason to reject each other *)
NoReject == rejects = 0
(* a data frame reaches a handler only in the generation it was sent in *)
NoCrossGen == \A d \in delivered : d[1] = d[2]
(* a down endpoint holds no session *)
DownIsClean == \A e \in E : ~ep[e].up => ep[e].sel = "NS" /\ ep[e].open = {}
(* once the faults are used up and nobody keeps the connection closed, the pair is Selected for good
   (MaxGen must leave a generation for the last reconnect: see MC_HsmsPair) *)
Settles == <>[](gen = MaxGen \/ (\A e \in E : ep[e].up /\ ep[e].sel = "S"))
=============================================================================
