----------------------------- MODULE Supervisor -----------------------------
(***************************************************************************)
(* The E37 logical connection FSM as coded in hsms/supervisor.go, at the   *)
(* grain of its critical sections:                                         *)
(*                                                                         *)
(*   - the atomic state word `st` is written by three lock-free synchronous*)
(*     commits made on transport goroutines (CommitConnected /             *)
(*     CommitSelected / CommitSelectLost = guarded CAS, then enqueue an     *)
(*     echo event) and by the supervisor's serial event loop (step());     *)
(*   - step() is split where the code can be interleaved: dequeue + load   *)
(*     of st (SupBegin), then the transition/store/react/notify            *)
(*     (SupFinish) -- the window the testHookAfterStateLoad seam exposes;   *)
(*   - each commit is split into its CAS (CommitBeginX) and its enqueue     *)
(*     (CommitFinish);                                                     *)
(*   - notifications go through a bounded drop-OLDEST buffer to a notifier.*)
(*                                                                         *)
(* The environment offers only what the transports can do (see comments at *)
(* each environment action).  EchoStores selects the design variant:       *)
(* TRUE = an echo event is applied with the ordinary table + plain Store   *)
(* (the code as found); FALSE = an echo never writes st (repaired design). *)
(* SealOnClose: TRUE = processing the close event seals the state word so  *)
(* that no later commit CAS can succeed (repaired design); FALSE = as found*)
(* LostGuard: TRUE = CommitSelectLost announces itself in pendLost before  *)
(* its CAS, the slost echo retires the announcement, and a sacc echo that  *)
(* is dequeued while an announcement is outstanding is stale: it reacts    *)
(* and notifies but does not store (the code since cbc5287); FALSE = as    *)
(* found (finding F1: the stale sacc echo re-stores Selected for good).    *)
(***************************************************************************)
EXTENDS Integers, Sequences, FiniteSets, TLC

CONSTANTS MaxGen,        \* TCP generations (successful TCP-ups) in one Open..Close cycle
          MaxCommits,    \* select / deselect commit attempts per generation
          MaxArms,       \* T7 timers armed per generation
          MaxDisc,       \* disconnect injections per generation (recv error, linktest, select procedure ...)
          NotifyCap,     \* capacity of the notification buffer
          QCap,          \* events-queue bound (the real channel blocks at 16; never reached here)
          MaxStale,      \* late disconnect injections by goroutines of the previous generation (0: transports guard them)
          EchoStores, SealOnClose, LostGuard

VARIABLES st,            \* the atomic state word: "NC" | "NS" | "S" | "X" (sealed, reads as NC)
          q,             \* events channel: sequence of event names
          lastReacted, closed,          \* run()-owned
          sup,           \* <<"idle", "-", "-", FALSE>> | <<"loaded", ev, cur, staleSelect>>
          pendLost,      \* CommitSelectLost commits whose slost echo has not been dequeued yet (0 unless LostGuard)
          notify, dropped,              \* drop-oldest buffer, count of coalesced notifications
          cm,            \* commit in flight: "none" | echo event name (CAS done, enqueue pending)
          gen, live, startPending,      \* generation counter; TCP of this generation up; a transport Start in flight
          commits, discs, staleDisc,    \* per-generation budgets; one late disconnect from the previous generation
          arms,          \* T7 timers of this generation that can still fire: set of <<id, selectedSince>>
          nextArm,
          closeReq, stopped,            \* Close called; supervisor goroutine stopped (Close returned)
          lastD,         \* last notification delivered to handlers: <<prev, next, droppedAtDelivery>> or <<>>
          act,           \* name of the last action taken (hidden by VIEW in exhaustive runs; drives the replayer)
          armSel         \* armSel[id] = a Selected commit happened since T7 timer id was armed

vars == <<st, q, lastReacted, closed, sup, pendLost, notify, dropped, cm, gen, live, startPending,
          commits, discs, staleDisc, arms, nextArm, closeReq, stopped, lastD, armSel, act>>

View == <<st, q, lastReacted, closed, sup, pendLost, notify, dropped, cm, gen, live, startPending,
          commits, discs, staleDisc, arms, nextArm, closeReq, stopped, lastD, armSel>>

Idle == <<"idle", "-", "-", FALSE>>
States == {"NC", "NS", "S"}
Echoes == {"tup", "sacc", "slost"}
Read(s) == IF s = "X" THEN "NC" ELSE s                  \* what State() returns

(* the pure transition table of supervisor.go:transition() *)
Base(ev) == IF ev \in {"t7a", "t7b", "t7c", "t7d"} THEN "t7" ELSE ev
Table(cur, ev) ==
    CASE ev = "tup"   /\ cur \in {"NC", "NS"} -> <<"NS", TRUE>>
      [] ev = "sacc"  /\ cur \in {"NS", "S"}  -> <<"S", TRUE>>
      [] ev = "slost" /\ cur \in {"S", "NS"}  -> <<"NS", TRUE>>
      [] ev = "disc"  /\ cur \in {"S", "NS"}  -> <<"NC", TRUE>>
      [] ev = "t7"    /\ cur = "NS"           -> <<"NC", TRUE>>
      [] ev = "close"                         -> <<"NC", TRUE>>
      [] OTHER -> <<cur, FALSE>>

Init ==
    /\ st = "NC" /\ q = <<>> /\ lastReacted = "NC" /\ closed = FALSE /\ sup = Idle /\ pendLost = 0
    /\ notify = <<>> /\ dropped = 0 /\ cm = "none"
    /\ gen = 0 /\ live = FALSE /\ startPending = TRUE
    /\ commits = 0 /\ discs = 0 /\ staleDisc = 0 /\ arms = {} /\ nextArm = 1
    /\ closeReq = FALSE /\ stopped = FALSE /\ lastD = <<>> /\ armSel = [i \in 1..MaxArms |-> FALSE] /\ act = "Init"

Enq(ev) == q' = IF stopped THEN q ELSE Append(q, ev)      \* inject is a no-op once run() has returned

T7Name(id) == CASE id = 1 -> "t7a" [] id = 2 -> "t7b" [] id = 3 -> "t7c" [] OTHER -> "t7d"
ArmOrSkip == IF nextArm <= MaxArms
             THEN /\ arms' = arms \cup {nextArm} /\ nextArm' = nextArm + 1
                  /\ armSel' = [armSel EXCEPT ![nextArm] = FALSE]
             ELSE UNCHANGED <<arms, nextArm, armSel>>
MarkSelected == armSel' = [i \in 1..MaxArms |-> IF i < nextArm THEN TRUE ELSE armSel[i]]

(* ------------------------------------------------------------------ commits *)
(* Transport Start reached TCPUp: CommitConnected's CAS.  One per generation; a Start may be in
   flight when Close is requested (it is past its seal check) -- the F8 window. *)
CommitBeginConn ==
    /\ act' = "CommitBeginConn"
    /\ startPending /\ cm = "none" /\ ~live /\ gen < MaxGen
    \* the previous generation's events have long been drained when the next TCP-up happens (it comes
    \* after teardown + backoff + dial); only a concurrent Close can be anywhere in its processing
    /\ \A i \in 1..Len(q) : q[i] = "close"
    /\ sup[1] = "idle" \/ sup[2] = "close"
    /\ startPending' = FALSE
    /\ IF st = "NC"
       THEN st' = "NS" /\ cm' = "tup" /\ gen' = gen + 1
       ELSE UNCHANGED <<st, cm, gen>>
    /\ UNCHANGED <<q, lastReacted, closed, sup, pendLost, notify, dropped, live, commits, discs, staleDisc, arms, nextArm,
                   armSel, closeReq, stopped, lastD>>

(* receive goroutine: Select.req (passive) or Select.rsp status 0 (active) -> CommitSelected *)
CommitBeginSel ==
    /\ act' = "CommitBeginSel"
    /\ live /\ cm = "none" /\ commits < MaxCommits
    /\ commits' = commits + 1
    /\ IF st = "NS" THEN st' = "S" /\ cm' = "sacc" /\ MarkSelected ELSE UNCHANGED <<st, cm, armSel>>
    /\ UNCHANGED <<q, lastReacted, closed, sup, pendLost, notify, dropped, gen, live, startPending, discs, staleDisc,
                   arms, nextArm, closeReq, stopped, lastD>>

(* receive goroutine: Deselect.req while Selected -> CommitSelectLost, then T7 re-armed *)
CommitBeginLost ==
    /\ act' = "CommitBeginLost"
    /\ live /\ cm = "none" /\ commits < MaxCommits
    /\ commits' = commits + 1
    \* (the announcement is made before the CAS and withdrawn when the CAS loses: net effect of the call)
    /\ IF st = "S" THEN st' = "NS" /\ cm' = "slost" /\ pendLost' = (IF LostGuard THEN pendLost + 1 ELSE pendLost)
                   ELSE UNCHANGED <<st, cm, pendLost>>
    /\ UNCHANGED <<q, lastReacted, closed, sup, notify, dropped, gen, live, startPending, discs, staleDisc,
                   arms, nextArm, armSel, closeReq, stopped, lastD>>

(* the enqueue half of a commit.  TCPUp returns only after it, and only then does the transport start
   the receive loop (which arms T7) and, on the active side, the select procedure; likewise the T7
   re-arm after a Deselect follows SelectLost()'s return. *)
CommitFinish ==
    /\ act' = "CommitFinish"
    /\ cm /= "none" /\ Len(q) < QCap
    /\ Enq(cm) /\ cm' = "none"
    /\ IF cm = "tup"
       THEN /\ live' = TRUE /\ commits' = 0 /\ discs' = 0
            /\ arms' = {1} /\ nextArm' = 2 /\ armSel' = [i \in 1..MaxArms |-> FALSE]
       \* (a receive goroutine that finishes its Deselect after the generation has ended arms on the cancelled
       \*  generation context, and Stop joins the T7 goroutines before the next Start: nothing that can fire later)
       ELSE IF cm = "slost" /\ live THEN ArmOrSkip /\ UNCHANGED <<live, commits, discs>>
       ELSE UNCHANGED <<live, commits, discs, arms, nextArm, armSel>>
    /\ UNCHANGED <<st, lastReacted, closed, sup, pendLost, notify, dropped, gen, startPending,
                   staleDisc, closeReq, stopped, lastD>>

(* ------------------------------------------------------------------ asynchronous injections *)
InjectDisc ==
    /\ act' = "InjectDisc"
    /\ live /\ discs < MaxDisc /\ Len(q) < QCap
    /\ discs' = discs + 1 /\ Enq("disc")
    /\ UNCHANGED <<st, lastReacted, closed, sup, pendLost, notify, dropped, cm, gen, live, startPending, commits,
                   staleDisc, arms, nextArm, closeReq, stopped, lastD, armSel>>

(* a goroutine of the PREVIOUS generation reports its dead socket late *)
InjectStaleDisc ==
    /\ act' = "InjectStaleDisc"
    /\ staleDisc > 0 /\ Len(q) < QCap
    /\ staleDisc' = staleDisc - 1 /\ Enq("disc")
    /\ UNCHANGED <<st, lastReacted, closed, sup, pendLost, notify, dropped, cm, gen, live, startPending, commits,
                   discs, arms, nextArm, closeReq, stopped, lastD, armSel>>

(* a T7 timer of this generation fires; cancellation is best effort, so a timer whose dwell was
   ended by a Select may still fire once *)
InjectT7(a) ==
    /\ act' = "InjectT7" \o ToString(a)
    /\ a \in arms /\ Len(q) < QCap
    /\ arms' = arms \ {a}
    /\ Enq(T7Name(a))
    /\ UNCHANGED <<st, lastReacted, closed, sup, pendLost, notify, dropped, cm, gen, live, startPending, commits,
                   discs, staleDisc, nextArm, closeReq, stopped, lastD, armSel>>

RequestClose ==
    /\ act' = "RequestClose"
    /\ ~closeReq /\ Len(q) < QCap
    /\ closeReq' = TRUE /\ Enq("close")
    /\ UNCHANGED <<st, lastReacted, closed, sup, pendLost, notify, dropped, cm, gen, live, startPending, commits,
                   discs, staleDisc, arms, nextArm, stopped, lastD, armSel>>

(* Close returns once the supervisor has processed the close event and both run() and the notifier
   (which first drains what is buffered) have been joined *)
CloseReturn ==
    /\ act' = "CloseReturn"
    /\ closeReq /\ closed /\ ~stopped /\ sup = Idle /\ notify = <<>>
    /\ stopped' = TRUE
    /\ UNCHANGED <<st, q, lastReacted, closed, sup, pendLost, notify, dropped, cm, gen, live, startPending, commits,
                   discs, staleDisc, arms, nextArm, closeReq, lastD, armSel>>

(* ------------------------------------------------------------------ supervisor run() *)
SupBegin ==
    /\ act' = "SupBegin"
    /\ ~stopped /\ sup = Idle /\ q /= <<>>
    /\ q' = Tail(q)
    \* closed latch: event ignored.  Otherwise: a slost echo retires one announcement, a sacc echo that
    \* sees an outstanding announcement is marked stale; then the state word is loaded
    /\ sup' = IF closed THEN Idle ELSE <<"loaded", Head(q), st, Head(q) = "sacc" /\ pendLost > 0>>
    /\ pendLost' = IF ~closed /\ Head(q) = "slost" /\ pendLost > 0 THEN pendLost - 1 ELSE pendLost
    /\ UNCHANGED <<st, lastReacted, closed, notify, dropped, cm, gen, live, startPending, commits, discs,
                   staleDisc, arms, nextArm, closeReq, stopped, lastD, armSel>>

Emit(sc) == IF Len(notify) < NotifyCap
            THEN notify' = Append(notify, sc) /\ UNCHANGED dropped
            ELSE notify' = Append(Tail(notify), sc) /\ dropped' = dropped + 1   \* drop-OLDEST

(* the generation ends when the supervisor moves to NC: reconnect (if not closing) + teardown *)
EndGeneration ==
    /\ live' = FALSE /\ arms' = {}
    /\ startPending' = IF ~closeReq /\ gen < MaxGen THEN TRUE ELSE startPending
    /\ staleDisc' = IF MaxStale > 0 THEN 1 ELSE 0

SupFinish ==
    /\ act' = "SupFinish"
    /\ sup[1] = "loaded"
    /\ LET ev == sup[2] cur == Read(sup[3]) b == Base(ev)
           abandonLost == b = "slost" /\ cur = "S"
           t == Table(cur, b) next == t[1] legal == t[2] /\ ~abandonLost
           isEcho == b \in Echoes
           wantStore == legal /\ next /= cur /\ (EchoStores \/ ~isEcho) /\ ~(LostGuard /\ sup[4])
           casOK == st = sup[3]                       \* T7: CAS(cur -> next)
           abandonT7 == b = "t7" /\ wantStore /\ ~casOK
           doStore == wantStore /\ ~abandonT7
           fire == legal /\ ~abandonT7 /\ next /= lastReacted
           sealed == b = "close" /\ SealOnClose
       IN /\ st' = IF sealed THEN "X" ELSE IF doStore THEN next ELSE st
          /\ IF fire THEN Emit(<<lastReacted, next>>) /\ lastReacted' = next
                     ELSE UNCHANGED <<notify, dropped, lastReacted>>
          /\ closed' = (closed \/ b = "close")
          /\ IF legal /\ ~abandonT7 /\ next = "NC" /\ live
             THEN EndGeneration
             ELSE UNCHANGED <<live, arms, startPending, staleDisc>>
    /\ sup' = Idle
    /\ UNCHANGED <<q, pendLost, cm, gen, commits, discs, nextArm, closeReq, stopped, lastD, armSel>>

NotifierTake ==
    /\ act' = "NotifierTake"
    /\ notify /= <<>> /\ ~stopped
    /\ lastD' = <<Head(notify)[1], Head(notify)[2], dropped>>
    /\ notify' = Tail(notify)
    /\ UNCHANGED <<st, q, lastReacted, closed, sup, pendLost, dropped, cm, gen, live, startPending, commits, discs,
                   staleDisc, arms, nextArm, closeReq, stopped, armSel>>

Next == \/ CommitBeginConn \/ CommitBeginSel \/ CommitBeginLost \/ CommitFinish
        \/ InjectDisc \/ InjectStaleDisc \/ (\E a \in arms : InjectT7(a))
        \/ RequestClose \/ CloseReturn
        \/ SupBegin \/ SupFinish \/ NotifierTake

Spec == Init /\ [][Next]_vars

(* ------------------------------------------------------------------ sanity *)
TypeOK ==
    /\ st \in States \cup {"X"} /\ lastReacted \in States /\ closed \in BOOLEAN
    /\ Len(q) <= QCap /\ Len(notify) <= NotifyCap
    /\ cm \in {"none"} \cup Echoes
    /\ gen \in 0..MaxGen
=============================================================================
