------------------------------ MODULE Secs1Line ------------------------------
(***************************************************************************)
(* The SECS-I (SEMI E4) half-duplex block transfer protocol as implemented *)
(* by secs1/line.go + the line engine of secs1/transport.go, for two ends  *)
(* of one line: "E" (equipment, master) and "H" (host, slave).             *)
(*                                                                         *)
(* One action per step of the single line-engine goroutine:                *)
(*   StartSend    lineEngine picks a queued send; sendBlockOnce writes ENQ *)
(*   IdleRead     lineEngine reads a character while idle (ENQ -> EOT)     *)
(*   WaitEOT      sendBlockOnce reads a character while waiting for EOT    *)
(*   WaitACK      sendBlockData reads the answer to a block                *)
(*   RecvBlock    receiveBlock reads what follows its EOT                  *)
(*   Timeout      the T2 read deadline of whichever wait is pending        *)
(*   Relink       sendBlock gave up (ErrSendFailed): the generation ends,  *)
(*                both ends start over with fresh engines and assemblers   *)
(* and the environment: characters in flight may be lost, garbled, blocks  *)
(* corrupted (each at most MaxFaults times in total), and a wait may time  *)
(* out although the answer is still on its way (a delay beyond T2, also    *)
(* counted as a fault).                                                    *)
(*                                                                         *)
(* The inbound assembler is abstracted to what matters for exactly-once:   *)
(* the open partial message, the expected block number and the last        *)
(* accepted header (duplicate detection).  Inter-block gaps stay below T4. *)
(***************************************************************************)
EXTENDS Integers, Sequences, FiniteSets, TLC

CONSTANTS Retry,        \* retry limit (RTY)
          MaxFaults,    \* budget of line faults
          NMsgE, NMsgH, \* messages queued at each end
          NBlocks       \* blocks per message (function of message id)

Node == {"E", "H"}
Peer(n) == IF n = "E" THEN "H" ELSE "E"
(* message ids: 1..NMsgE are E's, 101..100+NMsgH are H's *)
MsgsOf(n) == IF n = "E" THEN 1..NMsgE ELSE 101..(100 + NMsgH)
AllMsgs == MsgsOf("E") \cup MsgsOf("H")
SeqOf(lo, hi) == [i \in 1..(hi - lo + 1) |-> lo + i - 1]

VARIABLES pc,        \* per node: "idle" | "wEOT" | "wACK" | "rBLK" | "rBLKy" | "failed"
          retry,     \* per node: retry counter of the block being sent
          outbox,    \* per node: queued message ids (head = the one being sent)
          blk,       \* per node: number of the block being sent (0 = none)
          chan,      \* per node: characters in flight TOWARD that node
          asm,       \* per node: inbound assembler [open, expected, last]
          delivered, \* per node: message ids handed to the handlers, in order
          result,    \* per message: "pending" | "ok" | "failed"
          faults,    \* faults used
          cont,      \* "none" | "pending": a fault-free contention is in progress
          masterFirstBroken  \* history: a contention was resolved in favour of the host

vars == <<pc, retry, outbox, blk, chan, asm, delivered, result, faults, cont, masterFirstBroken>>

Ch(k, m, no, e, ok) == [k |-> k, m |-> m, no |-> no, e |-> e, ok |-> ok]
Hs(k) == Ch(k, 0, 0, 0, TRUE)
NoAsm == [open |-> 0, expected |-> 0, last |-> <<0, 0>>]

Init == /\ pc = [n \in Node |-> "idle"] /\ retry = [n \in Node |-> 0]
        /\ outbox = [n \in Node |-> IF n = "E" THEN SeqOf(1, NMsgE) ELSE SeqOf(101, 100 + NMsgH)]
        /\ blk = [n \in Node |-> 0] /\ chan = [n \in Node |-> <<>>]
        /\ asm = [n \in Node |-> NoAsm] /\ delivered = [n \in Node |-> <<>>]
        /\ result = [m \in AllMsgs |-> "pending"] /\ faults = 0 /\ cont = "none" /\ masterFirstBroken = FALSE

(* ---- the abstract assembler: secs1/assembler.go with addressing and T4 out of the picture ---- *)
StartMsg(a, c) == IF c.no = 1
                  THEN IF c.e = 1 THEN <<[NoAsm EXCEPT !.last = <<c.m, c.no>>], <<c.m>>>>
                       ELSE <<[open |-> c.m, expected |-> 2, last |-> <<c.m, c.no>>], <<>>>>
                  ELSE <<a, <<>>>>
Feed(a, c) ==   \* -> <<assembler', delivered messages>>
    IF a.last = <<c.m, c.no>> THEN <<a, <<>>>>                                    \* retransmitted duplicate
    ELSE IF a.open /= 0
    THEN IF c.m = a.open /\ c.no = a.expected
         THEN IF c.e = 1 THEN <<[NoAsm EXCEPT !.last = <<c.m, c.no>>], <<c.m>>>>
              ELSE <<[a EXCEPT !.expected = c.no + 1, !.last = <<c.m, c.no>>], <<>>>>
         ELSE StartMsg([NoAsm EXCEPT !.last = a.last], c)
    ELSE StartMsg(a, c)

CurBlock(n) == LET m == Head(outbox[n]) IN Ch("BLK", m, blk[n], IF blk[n] = NBlocks[m] THEN 1 ELSE 0, TRUE)
Send(n, cs) == chan' = [chan EXCEPT ![Peer(n)] = @ \o cs]                          \* n writes characters
Take(n, cs) == chan' = [chan EXCEPT ![n] = Tail(@), ![Peer(n)] = @ \o cs]           \* n consumes one character and writes
Drain(n, cs) == chan' = [chan EXCEPT ![n] = <<>>, ![Peer(n)] = @ \o cs]             \* drainUntilSilence, then write

(* retryable failure of the current attempt (sendRetry / failed yield): one more ENQ or give up.
   pre: characters to write before the ENQ *)
RetryOrFail(n, upd(_)) ==
    IF retry[n] + 1 > Retry
    THEN /\ pc' = [pc EXCEPT ![n] = "failed"] /\ upd(<<>>) /\ UNCHANGED <<retry, blk, outbox, result>>
    ELSE /\ pc' = [pc EXCEPT ![n] = "wEOT"] /\ retry' = [retry EXCEPT ![n] = @ + 1] /\ upd(<<Hs("ENQ")>>)
         /\ UNCHANGED <<blk, outbox, result>>

NoteCont == cont' = IF faults = 0 /\ pc'["E"] = "wEOT" /\ pc'["H"] = "wEOT" THEN "pending" ELSE cont

StartSend(n) ==
    /\ pc[n] = "idle" /\ outbox[n] /= <<>>
    /\ pc' = [pc EXCEPT ![n] = "wEOT"] /\ blk' = [blk EXCEPT ![n] = IF @ = 0 THEN 1 ELSE @] /\ retry' = [retry EXCEPT ![n] = 0]
    /\ Send(n, <<Hs("ENQ")>>) /\ NoteCont
    /\ UNCHANGED <<outbox, asm, delivered, result, faults, masterFirstBroken>>

IdleRead(n) ==
    /\ pc[n] = "idle" /\ chan[n] /= <<>>
    /\ IF Head(chan[n]).k = "ENQ"
       THEN pc' = [pc EXCEPT ![n] = "rBLK"] /\ Take(n, <<Hs("EOT")>>)
       ELSE pc' = pc /\ Take(n, <<>>)
    /\ UNCHANGED <<retry, outbox, blk, asm, delivered, result, faults, cont, masterFirstBroken>>

WaitEOT(n) ==
    /\ pc[n] = "wEOT" /\ chan[n] /= <<>>
    /\ LET c == Head(chan[n]) IN
       IF c.k = "EOT" THEN pc' = [pc EXCEPT ![n] = "wACK"] /\ Take(n, <<CurBlock(n)>>)
       ELSE IF c.k = "ENQ" /\ n = "H" THEN pc' = [pc EXCEPT ![n] = "rBLKy"] /\ Take(n, <<Hs("EOT")>>)   \* the slave yields
       ELSE pc' = pc /\ Take(n, <<>>)                                                                \* anything else is ignored
    /\ UNCHANGED <<retry, outbox, blk, asm, delivered, result, faults, cont, masterFirstBroken>>

WaitACK(n) ==
    /\ pc[n] = "wACK" /\ chan[n] /= <<>>
    /\ IF Head(chan[n]).k = "ACK"
       THEN LET m == Head(outbox[n]) IN
            IF blk[n] < NBlocks[m]
            THEN /\ blk' = [blk EXCEPT ![n] = @ + 1] /\ retry' = [retry EXCEPT ![n] = 0] /\ pc' = [pc EXCEPT ![n] = "wEOT"]
                 /\ Take(n, <<Hs("ENQ")>>) /\ UNCHANGED <<outbox, result>>
            ELSE /\ blk' = [blk EXCEPT ![n] = 0] /\ retry' = [retry EXCEPT ![n] = 0] /\ pc' = [pc EXCEPT ![n] = "idle"]
                 /\ outbox' = [outbox EXCEPT ![n] = Tail(@)] /\ result' = [result EXCEPT ![m] = "ok"] /\ Take(n, <<>>)
       ELSE RetryOrFail(n, LAMBDA cs : Take(n, cs))
    /\ UNCHANGED <<asm, delivered, faults, masterFirstBroken>> /\ NoteCont

(* what follows the EOT this end wrote: a block, or anything else *)
AfterRecvFail(n, upd(_)) ==
    IF pc[n] = "rBLK" THEN /\ pc' = [pc EXCEPT ![n] = "idle"] /\ upd(<<Hs("NAK")>>) /\ UNCHANGED <<retry, blk, outbox, result>>
    ELSE RetryOrFail(n, LAMBDA cs : upd(<<Hs("NAK")>> \o cs))
RecvBlock(n) ==
    /\ pc[n] \in {"rBLK", "rBLKy"} /\ chan[n] /= <<>>
    /\ LET c == Head(chan[n]) IN
       IF c.k = "BLK" /\ c.ok
       THEN LET f == Feed(asm[n], c) IN
            /\ asm' = [asm EXCEPT ![n] = f[1]] /\ delivered' = [delivered EXCEPT ![n] = @ \o f[2]]
            /\ masterFirstBroken' = (masterFirstBroken \/ (cont = "pending" /\ n = "E"))    \* the host's block got through first
            /\ cont' = "none"
            /\ IF pc[n] = "rBLK" THEN pc' = [pc EXCEPT ![n] = "idle"] /\ Take(n, <<Hs("ACK")>>) /\ UNCHANGED retry
               ELSE pc' = [pc EXCEPT ![n] = "wEOT"] /\ retry' = [retry EXCEPT ![n] = 0] /\ Take(n, <<Hs("ACK"), Hs("ENQ")>>)
            /\ UNCHANGED <<blk, outbox, result>>
       ELSE /\ AfterRecvFail(n, LAMBDA cs : Drain(n, cs)) /\ UNCHANGED <<asm, delivered, masterFirstBroken, cont>>
    /\ UNCHANGED faults

(* T2: free when nothing is in flight either way, otherwise it is a delay fault *)
Timeout(n) ==
    /\ pc[n] \in {"wEOT", "wACK", "rBLK", "rBLKy"} /\ chan[n] = <<>>
    /\ IF chan[Peer(n)] = <<>> THEN faults' = faults ELSE faults < MaxFaults /\ faults' = faults + 1
    /\ IF pc[n] \in {"wEOT", "wACK"} THEN RetryOrFail(n, LAMBDA cs : Send(n, cs))
       ELSE AfterRecvFail(n, LAMBDA cs : Send(n, cs))
    /\ UNCHANGED <<asm, delivered, masterFirstBroken>> /\ cont' = IF faults' > 0 THEN "none" ELSE cont

Relink ==
    /\ \E n \in Node : pc[n] = "failed"
    /\ pc' = [n \in Node |-> "idle"] /\ retry' = [n \in Node |-> 0] /\ blk' = [n \in Node |-> 0]
    /\ chan' = [n \in Node |-> <<>>] /\ asm' = [n \in Node |-> NoAsm]
    /\ result' = [m \in AllMsgs |-> IF \E n \in Node : \E i \in 1..Len(outbox[n]) : outbox[n][i] = m THEN "failed" ELSE result[m]]
    /\ outbox' = [n \in Node |-> <<>>] /\ cont' = "none"
    /\ UNCHANGED <<delivered, faults, masterFirstBroken>>

(* ---- the faulty line ---- *)
Remove(s, i) == SubSeq(s, 1, i - 1) \o SubSeq(s, i + 1, Len(s))
Lose(n) == /\ faults < MaxFaults /\ \E i \in 1..Len(chan[n]) : chan' = [chan EXCEPT ![n] = Remove(@, i)]
           /\ faults' = faults + 1 /\ cont' = "none"
           /\ UNCHANGED <<pc, retry, outbox, blk, asm, delivered, result, masterFirstBroken>>
Garble(n) == /\ faults < MaxFaults
             /\ \E i \in 1..Len(chan[n]) :
                   /\ chan[n][i].k /= "CHR" /\ (chan[n][i].k = "BLK" => chan[n][i].ok)
                   /\ chan' = [chan EXCEPT ![n][i] = IF @.k = "BLK" THEN [@ EXCEPT !.ok = FALSE] ELSE Hs("CHR")]
             /\ faults' = faults + 1 /\ cont' = "none"
             /\ UNCHANGED <<pc, retry, outbox, blk, asm, delivered, result, masterFirstBroken>>

NodeStep(n) == StartSend(n) \/ IdleRead(n) \/ WaitEOT(n) \/ WaitACK(n) \/ RecvBlock(n) \/ Timeout(n)
Step == (\E n \in Node : NodeStep(n)) \/ Relink
Next == Step \/ (\E n \in Node : Lose(n) \/ Garble(n))
Spec == Init /\ [][Next]_vars /\ WF_vars(Step)

(* ------------------------------------------------------------------ C18 *)
Count(m, s) == Cardinality({i \in 1..Len(s) : s[i] = m})
Sender(m) == IF m \in MsgsOf("E") THEN "E" ELSE "H"
(* every message whose send succeeded was delivered to the other end exactly once *)
ExactlyOnce == \A m \in AllMsgs : result[m] = "ok" => Count(m, delivered[Peer(Sender(m))]) = 1
(* nothing is ever delivered twice, whatever became of its send *)
AtMostOnce == \A m \in AllMsgs : Count(m, delivered[Peer(Sender(m))]) <= 1 /\ Count(m, delivered[Sender(m)]) = 0
(* per direction, delivery order = sending order *)
InOrder == \A n \in Node : \A i, j \in 1..Len(delivered[n]) : i < j => delivered[n][i] < delivered[n][j]
(* a block is attempted at most Retry + 1 times between successful contention yields *)
RetryBounded == \A n \in Node : retry[n] <= Retry
(* a fault-free contention is resolved with the equipment's block first *)
MasterFirst == ~masterFirstBroken
(* no deadlock: with finitely many faults every send call returns *)
AllReturn == <>[](\A m \in AllMsgs : result[m] /= "pending")
TypeOK == /\ pc \in [Node -> {"idle", "wEOT", "wACK", "rBLK", "rBLKy", "failed"}] /\ faults \in 0..MaxFaults
          /\ \A n \in Node : blk[n] \in 0..2 /\ retry[n] \in 0..Retry
=============================================================================
