----------------------------- MODULE LinktestLoop -----------------------------
(***************************************************************************)
(* The auto-linktest loop of hsmsss/transport_procedures.go (runLinktest)  *)
(* with integer time, and the two pure failure-accounting rules it calls   *)
(* (linktestFailureStep, linktestDisconnectRecheck), transcribed.          *)
(*                                                                         *)
(* Environment: the clock ticks; the peer may show life (any complete      *)
(* inbound frame stamps lastRecv); the local application may write (stamps *)
(* lastSend) and open / close reply-expected transactions (in-flight).     *)
(* Loop: when its timer fires it either skips (suppression: traffic within *)
(* the last interval, or a reply outstanding) or sends a probe; a probe    *)
(* ends answered (within T6) or timed out; timeouts feed the accounting.   *)
(***************************************************************************)
EXTENDS LinktestRules, Sequences, TLC

CONSTANTS Suppress, Threshold, Interval, T6, MaxT, MaxLife

VARIABLES now, lastSend, lastRecv, inflight, fails, recvAtLastFail,
          pc,          \* "wait" | "probing" | "down"
          fireAt, sentAt,
          life,        \* budget of peer signs of life
          probes,      \* probes sent so far
          timeouts,    \* history for the properties: length of the current run of probe timeouts that the rules must count
                       \* (suppression on: broken by any sign of life or an outstanding reply; off: only by an answered probe)
          lastAct      \* name of the last loop action (for replay)

vars == <<now, lastSend, lastRecv, inflight, fails, recvAtLastFail, pc, fireAt, sentAt, life, probes, timeouts, lastAct>>

Max(a, b) == IF a > b THEN a ELSE b

Init == /\ now = 0 /\ lastSend = 0 /\ lastRecv = 0 /\ inflight = 0 /\ fails = 0 /\ recvAtLastFail = 0
        /\ pc = "wait" /\ fireAt = Interval /\ sentAt = 0 /\ life = MaxLife /\ probes = 0 /\ timeouts = 0 /\ lastAct = "Init"

(* ---- environment ---- *)
Tick == /\ now < MaxT /\ pc /= "down"
        /\ (pc = "wait" => now < fireAt) /\ (pc = "probing" => now < sentAt + T6)      \* the loop acts when its deadline is reached
        /\ now' = now + 1 /\ lastAct' = "Tick"
        /\ UNCHANGED <<lastSend, lastRecv, inflight, fails, recvAtLastFail, pc, fireAt, sentAt, life, probes, timeouts>>
PeerFrame == /\ life > 0 /\ pc /= "down" /\ now > lastRecv
             /\ lastRecv' = now /\ life' = life - 1 /\ lastAct' = "PeerFrame"
             /\ timeouts' = IF Suppress THEN 0 ELSE timeouts      \* without suppression only an answered probe breaks a run
             /\ UNCHANGED <<now, lastSend, inflight, fails, recvAtLastFail, pc, fireAt, sentAt, probes>>
OwnWrite == /\ pc /= "down" /\ now > lastSend
            /\ lastSend' = now /\ lastAct' = "OwnWrite"
            /\ UNCHANGED <<now, lastRecv, inflight, fails, recvAtLastFail, pc, fireAt, sentAt, life, probes, timeouts>>
TxnOpen == /\ pc /= "down" /\ inflight < 1
           /\ inflight' = inflight + 1 /\ lastSend' = now /\ lastAct' = "TxnOpen"
           /\ UNCHANGED <<now, lastRecv, fails, recvAtLastFail, pc, fireAt, sentAt, life, probes, timeouts>>
TxnClose == /\ pc /= "down" /\ inflight > 0
            /\ inflight' = inflight - 1 /\ lastAct' = "TxnClose"
            /\ UNCHANGED <<now, lastSend, lastRecv, fails, recvAtLastFail, pc, fireAt, sentAt, life, probes, timeouts>>

(* ---- the loop ---- *)
Idle == now - Max(lastSend, lastRecv)
SkipIdle == /\ pc = "wait" /\ now >= fireAt /\ Suppress /\ Idle < Interval
            /\ fireAt' = now + (Interval - Idle) /\ lastAct' = "SkipIdle"
            /\ UNCHANGED <<now, lastSend, lastRecv, inflight, fails, recvAtLastFail, pc, sentAt, life, probes, timeouts>>
SkipInflight == /\ pc = "wait" /\ now >= fireAt /\ Suppress /\ Idle >= Interval /\ inflight > 0
                /\ fireAt' = now + Interval /\ lastAct' = "SkipInflight"
                /\ UNCHANGED <<now, lastSend, lastRecv, inflight, fails, recvAtLastFail, pc, sentAt, life, probes, timeouts>>
Probe == /\ pc = "wait" /\ now >= fireAt
         /\ ~(Suppress /\ (Idle < Interval \/ inflight > 0))
         /\ pc' = "probing" /\ sentAt' = now /\ lastSend' = now /\ probes' = probes + 1 /\ lastAct' = "Probe"
         /\ UNCHANGED <<now, lastRecv, inflight, fails, recvAtLastFail, fireAt, life, timeouts>>
ProbeAnswered == /\ pc = "probing" /\ life > 0 /\ now >= sentAt /\ now < sentAt + T6
                 /\ lastRecv' = Max(lastRecv, now) /\ life' = life - 1
                 /\ fails' = 0 /\ timeouts' = 0 /\ pc' = "wait" /\ fireAt' = now + Interval /\ lastAct' = "ProbeAnswered"
                 /\ UNCHANGED <<now, lastSend, inflight, recvAtLastFail, sentAt, probes>>
ProbeTimeout ==
    /\ pc = "probing" /\ now >= sentAt + T6
    /\ LET r == FailureStep(Suppress, lastRecv, sentAt, inflight, fails, recvAtLastFail) IN
       IF r.fails >= Threshold
       THEN IF DisconnectRecheck(Suppress, inflight, lastRecv, sentAt)
            THEN /\ pc' = "down" /\ fails' = r.fails /\ recvAtLastFail' = r.ralf /\ UNCHANGED fireAt
            ELSE /\ pc' = "wait" /\ fails' = 0 /\ recvAtLastFail' = recvAtLastFail /\ fireAt' = now + Interval
       ELSE /\ pc' = "wait" /\ fails' = r.fails /\ recvAtLastFail' = r.ralf /\ fireAt' = now + Interval
    \* a timeout belongs to a "silent" run only if nothing was in flight and nothing arrived since the probe went out
    /\ timeouts' = IF Suppress /\ (inflight > 0 \/ lastRecv > sentAt) THEN 0 ELSE timeouts + 1
    /\ lastAct' = "ProbeTimeout"
    /\ UNCHANGED <<now, lastSend, lastRecv, inflight, sentAt, life, probes>>

Next == Tick \/ PeerFrame \/ OwnWrite \/ TxnOpen \/ TxnClose \/ SkipIdle \/ SkipInflight \/ Probe \/ ProbeAnswered \/ ProbeTimeout
Spec == Init /\ [][Next]_vars

(* ------------------------------------------------------------------ C19 *)
(* never dropped while the link shows life per the suppression rules: at the moment of a disconnect no reply is
   outstanding and nothing was received since the last probe went out *)
NoDropWhileAlive == [][(pc /= "down" /\ pc' = "down") => (Suppress => (inflight = 0 /\ lastRecv <= sentAt))]_vars
(* a disconnect needs at least Threshold consecutive timeouts with no sign of life in between *)
DropNeedsThreshold == [][(pc /= "down" /\ pc' = "down") => timeouts' >= Threshold]_vars
(* suppression off: every timeout counts, so exactly the Threshold-th consecutive timeout disconnects *)
OffDropsAtThreshold == [][(~Suppress /\ pc = "probing" /\ pc' /= "probing" /\ lastAct' = "ProbeTimeout")
                            => ((fails + 1 >= Threshold) <=> pc' = "down")]_vars
(* suppression on: no probe while traffic flowed within the last interval or a reply is outstanding *)
NoProbeWhenSuppressed == [][(probes' > probes /\ Suppress) => (Idle >= Interval /\ inflight = 0)]_vars
(* a peer that is completely silent (no frame since the first of a run of timeouts, nothing in flight) is dropped
   at exactly the Threshold-th consecutive timeout: never later *)
SilentDropsInTime == [][(lastAct' = "ProbeTimeout" /\ timeouts' >= Threshold /\ inflight = 0 /\ lastRecv <= sentAt
                          /\ lastRecv <= recvAtLastFail) => pc' = "down"]_vars
=============================================================================
