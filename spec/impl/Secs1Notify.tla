----------------------------- MODULE Secs1Notify -----------------------------
(***************************************************************************)
(* Who may block on whom between the application, the per-generation async *)
(* sender (hsms/epoch.go: sendCh + drainer goroutine), the SECS-I hand-off *)
(* (secs1/transport.go Write: unbuffered sendReqCh, then wait for the      *)
(* result) and the single line-engine goroutine -- once the engine itself  *)
(* becomes a PRODUCER of the async queue: an equipment-role assembler       *)
(* violation calls rt.SendAsync (blocking enqueue) on the engine goroutine *)
(* (secs1/transport.go notifyAssemblerViolation, wired as the assembler's  *)
(* notify callback that accept() runs inline).                             *)
(*                                                                         *)
(*   App(i)    enqueue a fire-and-forget message: blocks while sendCh full *)
(*   Drainer   take from sendCh; hand the frame to the engine (rendezvous);*)
(*             wait for the engine's result                                *)
(*   Engine    idle: accept a hand-off and transmit it (the peer is        *)
(*             cooperative: every transmission completes), OR receive an   *)
(*             inbound block; a malformed one makes it enqueue an S9       *)
(*             notice.  NotifyInline = TRUE: as found, an unbounded        *)
(*             blocking enqueue on the engine goroutine.  FALSE: as        *)
(*             repaired, the inline enqueue is bounded (10 ms) and on      *)
(*             expiry a goroutine of its own waits for queue space          *)
(*                                                                         *)
(* Property: no deadlock / every accepted message is eventually on the     *)
(* line, for any queue capacity.                                           *)
(***************************************************************************)
EXTENDS Integers, Sequences, FiniteSets

CONSTANTS Cap,            \* capacity of sendCh
          NApp,           \* application messages to send
          NBad,           \* malformed inbound blocks the peer will send
          NotifyInline    \* TRUE = as found: SendAsync on the engine goroutine

VARIABLES sendCh,     \* queued message ids (notices are negative)
          appLeft,    \* messages the application still has to enqueue
          drainer,    \* "idle" | "handoff" | "wait"
          dmsg,       \* the message the drainer holds
          engine,     \* "idle" | "sending" | "notify"
          emsg,       \* the message the engine transmits
          badLeft,    \* malformed blocks still to come
          helpers,    \* notices waiting in helper goroutines (NotifyInline = FALSE)
          onLine      \* messages transmitted

vars == <<sendCh, appLeft, drainer, dmsg, engine, emsg, badLeft, helpers, onLine>>

Init == /\ sendCh = <<>> /\ appLeft = NApp /\ drainer = "idle" /\ dmsg = 0 /\ engine = "idle" /\ emsg = 0
        /\ badLeft = NBad /\ helpers = 0 /\ onLine = {}

AppEnqueue == /\ appLeft > 0 /\ Len(sendCh) < Cap
              /\ sendCh' = Append(sendCh, appLeft) /\ appLeft' = appLeft - 1
              /\ UNCHANGED <<drainer, dmsg, engine, emsg, badLeft, helpers, onLine>>
DrainTake == /\ drainer = "idle" /\ sendCh /= <<>>
             /\ dmsg' = Head(sendCh) /\ sendCh' = Tail(sendCh) /\ drainer' = "handoff"
             /\ UNCHANGED <<appLeft, engine, emsg, badLeft, helpers, onLine>>
(* the rendezvous on sendReqCh: both sides move together *)
HandOff == /\ drainer = "handoff" /\ engine = "idle"
           /\ drainer' = "wait" /\ engine' = "sending" /\ emsg' = dmsg
           /\ UNCHANGED <<sendCh, appLeft, dmsg, badLeft, helpers, onLine>>
Transmit == /\ engine = "sending"
            /\ onLine' = onLine \cup {emsg} /\ engine' = "idle" /\ emsg' = 0 /\ drainer' = "idle" /\ dmsg' = 0
            /\ UNCHANGED <<sendCh, appLeft, badLeft, helpers>>
(* the engine, idle, reads the line instead: a malformed block arrives *)
RecvBad == /\ engine = "idle" /\ badLeft > 0 /\ badLeft' = badLeft - 1 /\ engine' = "notify"
           /\ UNCHANGED <<sendCh, appLeft, drainer, dmsg, emsg, helpers, onLine>>
(* repaired: the bounded inline wait expires; a helper goroutine takes the notice over *)
NotifyGiveUp == /\ ~NotifyInline /\ engine = "notify" /\ Len(sendCh) = Cap
                /\ helpers' = helpers + 1 /\ engine' = "idle"
                /\ UNCHANGED <<sendCh, appLeft, drainer, dmsg, emsg, badLeft, onLine>>
(* SendAsync of the notice: a blocking enqueue *)
NotifyEnqueue == /\ engine = "notify" /\ Len(sendCh) < Cap
                 /\ sendCh' = Append(sendCh, -(badLeft + 1)) /\ engine' = "idle"
                 /\ UNCHANGED <<appLeft, drainer, dmsg, emsg, badLeft, helpers, onLine>>
HelperEnqueue == /\ helpers > 0 /\ Len(sendCh) < Cap
                 /\ sendCh' = Append(sendCh, -(100 + helpers)) /\ helpers' = helpers - 1
                 /\ UNCHANGED <<appLeft, drainer, dmsg, engine, emsg, badLeft, onLine>>

Next == AppEnqueue \/ DrainTake \/ HandOff \/ Transmit \/ RecvBad \/ NotifyEnqueue \/ NotifyGiveUp \/ HelperEnqueue
Spec == Init /\ [][Next]_vars /\ WF_vars(Next)

Done == appLeft = 0 /\ sendCh = <<>> /\ drainer = "idle" /\ engine = "idle" /\ helpers = 0
(* the wedge: the engine waits for queue space, the drainer waits for the engine, the producers wait for the drainer *)
Wedged == engine = "notify" /\ Len(sendCh) = Cap /\ drainer = "handoff"
NeverWedged == NotifyInline => ~Wedged          \* (repaired: the state is entered but always left -- see EverythingGoesOut)
NoDeadlock == Done \/ ENABLED Next
EverythingGoesOut == <>[]Done
=============================================================================
