------------------------------- MODULE Framing -------------------------------
(***************************************************************************)
(* hsmsss/transport_recv.go readFrame / readN: a frame is a 4-byte length  *)
(* prefix followed by `length` bytes; the read deadline is T8 once the      *)
(* first byte OF THE FRAME has arrived (`started` is threaded through both  *)
(* reads of a frame), and there is no deadline while waiting for a frame    *)
(* to begin.  The peer delivers the stream in arbitrary segments with       *)
(* arbitrary pauses: short ones, or long ones (> T8).                      *)
(***************************************************************************)
EXTENDS Integers, Sequences, TLC

CONSTANT FrameLens         \* total length (prefix included) of each frame of the stream, e.g. <<14, 17>>

VARIABLES sent,            \* bytes the peer has delivered so far
          got,             \* bytes of the CURRENT frame the reader has consumed
          cur,             \* index of the frame being read (1-based)
          started,         \* first byte of the current frame has arrived: T8 applies
          down,            \* the reader dropped the link
          out,             \* frames handed upward
          longGapIn        \* history: a long gap happened inside a frame

vars == <<sent, got, cur, started, down, out, longGapIn>>
RECURSIVE Sum(_, _)
Sum(s, n) == IF n = 0 THEN 0 ELSE s[n] + Sum(s, n - 1)
Total == Sum(FrameLens, Len(FrameLens))

Init == sent = 0 /\ got = 0 /\ cur = 1 /\ started = FALSE /\ down = FALSE /\ out = 0 /\ longGapIn = FALSE

(* the reader consumes k freshly delivered bytes, completing frames as it goes *)
RECURSIVE Consume(_, _, _, _)
Consume(k, g, c, o) ==
    IF k = 0 \/ c > Len(FrameLens) THEN <<g, c, o>>
    ELSE LET need == FrameLens[c] - g IN
         IF k >= need THEN Consume(k - need, 0, c + 1, o + 1) ELSE <<g + k, c, o>>

Deliver(k) ==
    /\ ~down /\ k >= 1 /\ sent + k <= Total
    /\ LET r == Consume(k, got, cur, out) IN
       /\ got' = r[1] /\ cur' = r[2] /\ out' = r[3]
       /\ started' = (r[1] > 0)               \* a partly read frame: T8 armed; a frame boundary: idle again
    /\ sent' = sent + k
    /\ UNCHANGED <<down, longGapIn>>
ShortGap == ~down /\ UNCHANGED vars
LongGap == /\ ~down /\ sent < Total
           /\ IF started THEN down' = TRUE /\ longGapIn' = TRUE ELSE UNCHANGED <<down, longGapIn>>
           /\ UNCHANGED <<sent, got, cur, started, out>>

Next == (\E k \in 1..Total : Deliver(k)) \/ LongGap
Spec == Init /\ [][Next]_vars

(* C04, stream half, at design level *)
SameFrames == (sent = Total /\ ~down) => out = Len(FrameLens)          \* every segmentation delivers every frame
InOrder == out <= Len(FrameLens) /\ (~down => out = cur - 1)
IdleGapNeverDrops == [][(~started /\ ~down) => ~down']_vars            \* a gap between frames never times out
InFrameGapDrops == [][(started /\ ~down /\ sent' = sent /\ out' = out /\ got' = got) => down']_vars  \* (the only such step is LongGap)
NothingAfterDrop == [][down => out' = out]_vars
=============================================================================
