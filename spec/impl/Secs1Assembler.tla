--------------------------- MODULE Secs1Assembler ---------------------------
(***************************************************************************)
(* The SECS-I inbound message assembly rules (SEMI E4 9.4; secs1/          *)
(* assembler.go), as a fold over the history of well-formed blocks that    *)
(* arrived (each with its arrival time):                                   *)
(*   - a block for another device, or with the wrong direction bit, is      *)
(*     dropped;                                                            *)
(*   - a partial message whose next block is later than T4 is discarded;    *)
(*   - a block whose header repeats the last accepted header is a           *)
(*     retransmitted duplicate and is dropped;                              *)
(*   - while a message is open only block number expected with the same     *)
(*     message header is appended; anything else discards the partial       *)
(*     message and is then considered as a possible first block;            *)
(*   - a message starts with block 1 (or a lone block 0 with the E-bit);    *)
(*   - the E-bit completes and delivers the message.                        *)
(***************************************************************************)
EXTENDS E4Block, TLC

NoMsg == [open |-> FALSE, mh |-> <<>>, expected |-> 0, body |-> <<>>, lastHdr |-> <<>>, lastAt |-> 0]
Reset(st) == [NoMsg EXCEPT !.lastHdr = st.lastHdr]

(* cfg: [device, isEquip, t4]
   acc: [st |-> assembler state, out |-> delivered messages, viol |-> violations reported (kind, offending header)]
   the T4 base is the arrival time of the last ACCEPTED block (started or appended) *)
Start(acc, img, at, notifyInvalid) ==
    IF BNo(img) = 1 \/ (BNo(img) = 0 /\ BEbit(img) = 1)
    THEN IF BEbit(img) = 1
         THEN [acc EXCEPT !.st = [NoMsg EXCEPT !.lastHdr = BHdr(img)],
                          !.out = Append(@, [mh |-> BMsgHdr(img), body |-> BBody(img)])]
         ELSE [acc EXCEPT !.st = [open |-> TRUE, mh |-> BMsgHdr(img), expected |-> BNo(img) + 1, body |-> BBody(img),
                                  lastHdr |-> BHdr(img), lastAt |-> at]]
    ELSE IF notifyInvalid THEN [acc EXCEPT !.viol = Append(@, [kind |-> "first", hdr |-> BHdr(img)])] ELSE acc

Accept(cfg, acc0, img, at) ==
    IF BDevice(img) /= cfg.device THEN [acc0 EXCEPT !.viol = Append(@, [kind |-> "device", hdr |-> BHdr(img)])]
    ELSE IF BRbit(img) = (IF cfg.isEquip THEN 1 ELSE 0) THEN acc0
    ELSE LET acc == IF acc0.st.open /\ at - acc0.st.lastAt > cfg.t4 THEN [acc0 EXCEPT !.st = Reset(@)] ELSE acc0
             st == acc.st IN
         IF st.lastHdr /= <<>> /\ BHdr(img) = st.lastHdr THEN acc                     \* retransmitted duplicate
         ELSE IF st.open
         THEN IF BNo(img) = st.expected /\ BMsgHdr(img) = st.mh
              THEN IF BEbit(img) = 1
                   THEN [acc EXCEPT !.st = [NoMsg EXCEPT !.lastHdr = BHdr(img)],
                                    !.out = Append(@, [mh |-> st.mh, body |-> st.body \o BBody(img)])]
                   ELSE [acc EXCEPT !.st = [st EXCEPT !.expected = BNo(img) + 1, !.body = st.body \o BBody(img),
                                                      !.lastHdr = BHdr(img), !.lastAt = at]]
              ELSE Start([acc EXCEPT !.st = Reset(@), !.viol = Append(@, [kind |-> "mismatch", hdr |-> BHdr(img)])], img, at, FALSE)
         ELSE Start(acc, img, at, TRUE)

RECURSIVE Run(_, _, _)
Run(cfg, acc, hist) ==
    IF hist = <<>> THEN acc
    ELSE Run(cfg, Accept(cfg, acc, Head(hist).img, Head(hist).at), Tail(hist))
Assemble(cfg, hist) == Run(cfg, [st |-> NoMsg, out |-> <<>>, viol |-> <<>>], hist)
Delivered(cfg, hist) == Assemble(cfg, hist).out
=============================================================================
