SPECIFICATION Spec
CONSTANTS
  Senders = {s1, s2}
  MaxEpoch = 2
  MaxSb = 3
  MaxPeer = 3
  CtlCompletesData = TRUE
INVARIANT NeverNilNil
CHECK_DEADLOCK FALSE
