SPECIFICATION Spec
CONSTANTS
  Callers = {a, b}
  MaxOps = 4
  MaxEpochs = 4
  MaxDrops = 1
  HoldLockWhileWaiting = FALSE
INVARIANT CloseLeavesNothing
INVARIANT OneLiveGeneration
INVARIANT RecoveryPending
INVARIANT CloseOnlyWaitsForLibrary
PROPERTY NoReconnectAfterClose
PROPERTY OpenWhileOpenNoEffect
CHECK_DEADLOCK FALSE
