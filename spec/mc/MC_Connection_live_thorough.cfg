SPECIFICATION Fair
CONSTANTS
  Callers = {a, b, c}
  MaxOps = 3
  MaxEpochs = 3
  MaxDrops = 1
  HoldLockWhileWaiting = FALSE
PROPERTY CloseTerminates
CHECK_DEADLOCK FALSE
