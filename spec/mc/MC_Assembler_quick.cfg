SPECIFICATION Spec
CONSTANT MaxLen = 3
INVARIANTS Sound OnceInOrder Transparent Complete
CHECK_DEADLOCK FALSE
