SPECIFICATION Spec
CONSTANTS
  Callers = {a, b, c}
  MaxOps = 5
  MaxEpochs = 4
  MaxDrops = 2
  HoldLockWhileWaiting = FALSE
INVARIANT CloseLeavesNothing
INVARIANT OneLiveGeneration
INVARIANT RecoveryPending
INVARIANT CloseOnlyWaitsForLibrary
PROPERTY NoReconnectAfterClose
PROPERTY OpenWhileOpenNoEffect
CHECK_DEADLOCK FALSE
