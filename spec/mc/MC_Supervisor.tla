---------------------------- MODULE MC_Supervisor ----------------------------
(***************************************************************************)
(* impl/Supervisor  |=  the observable-level C05 demands (prop E37State),  *)
(* stated over the refinement  State() = Read(st).                         *)
(***************************************************************************)
EXTENDS Supervisor

Legal == {<<"NC","NS">>, <<"NS","S">>, <<"S","NS">>, <<"NS","NC">>, <<"S","NC">>}
Obs(s) == Read(s)

(* State() moves only along E37 edges *)
EdgeOK == [][Obs(st') /= Obs(st) => <<Obs(st), Obs(st')>> \in Legal]_vars

(* a change is never undone or replayed by the later internal processing of an earlier event:
   processing the echo of a synchronous commit must not move State() *)
ApplyStep == sup[1] = "loaded" /\ sup'[1] = "idle"
NoEchoStore == [][(ApplyStep /\ Base(sup[2]) \in Echoes) => Obs(st') = Obs(st)]_vars

(* a T7 expiry moves State() only NS->NC, and never when a Select was committed after it was armed *)
T7Id(ev) == CASE ev = "t7a" -> 1 [] ev = "t7b" -> 2 [] ev = "t7c" -> 3 [] OTHER -> 4
T7Safe == [][(ApplyStep /\ Base(sup[2]) = "t7" /\ Obs(st') /= Obs(st))
             => (Obs(st) = "NS" /\ Obs(st') = "NC" /\ ~armSel[T7Id(sup[2])])]_vars

(* after Close returns, State() is NotConnected and stays so; nothing further is delivered *)
ClosedStays == stopped => Obs(st) = "NC"
SilentAfterClose == [][stopped => lastD' = lastD]_vars

(* notification chain: prev = previous next unless the library reported coalescing; no self-transition *)
ChainOK == [][lastD' /= lastD =>
               /\ lastD'[1] /= lastD'[2]
               /\ (lastD /= <<>> => (lastD'[1] = lastD[2] \/ lastD'[3] > lastD[3]))
               /\ (lastD = <<>> => (lastD'[1] = "NC" \/ lastD'[3] > 0))]_vars

(* once everything has drained, the last delivered notification agrees with State() *)
Quiescent == q = <<>> /\ sup = Idle /\ notify = <<>> /\ cm = "none"
FinalAgrees == (Quiescent /\ lastD /= <<>>) => lastD[2] = Obs(st)
FinalAgrees0 == (Quiescent /\ lastD = <<>> /\ dropped = 0) => Obs(st) = "NC"
=============================================================================
