SPECIFICATION Spec
CONSTANTS
  MaxGen = 4
  MaxFaults = 3
  MaxData = 3
  MaxLinktest = 1
  ForeignSelect = TRUE
INVARIANTS TypeOK AgreeAtRest NothingOpenAtRest NoReject NoCrossGen DownIsClean GensSuffice
PROPERTY SettlesForGood
CHECK_DEADLOCK FALSE
