SPECIFICATION Spec
CONSTANTS
  Senders = {s1, s2}
  MaxEpoch = 2
  MaxSb = 3
  MaxPeer = 3
  DropsLateReply = TRUE
  CtlCompletesData = FALSE
INVARIANT NoReplyLost

CHECK_DEADLOCK FALSE
