SPECIFICATION Spec
CONSTANTS
  MaxGen = 3
  MaxFaults = 2
  MaxData = 2
  MaxLinktest = 1
  ForeignSelect = FALSE
INVARIANTS TypeOK AgreeAtRest NothingOpenAtRest NoReject NoCrossGen DownIsClean GensSuffice
PROPERTY SettlesForGood
CHECK_DEADLOCK FALSE
