SPECIFICATION Spec
CONSTANTS Callers = {c1, c2, c3, c4} UseOnce = TRUE
INVARIANTS AtMostOnce NoTornRead SameForAll
PROPERTY AllReturn
CHECK_DEADLOCK FALSE
