SPECIFICATION Spec
CONSTANTS
  FrameLens <- MCFrameLens
INVARIANT SameFrames
INVARIANT InOrder
PROPERTY IdleGapNeverDrops
PROPERTY InFrameGapDrops
PROPERTY NothingAfterDrop
CHECK_DEADLOCK FALSE
