SPECIFICATION Spec
CONSTANTS Retry = 2 MaxFaults = 3 NMsgE = 2 NMsgH = 2
CONSTANT NBlocks <- NBlocksDef
INVARIANTS TypeOK ExactlyOnce AtMostOnce InOrder RetryBounded MasterFirst
PROPERTY AllReturn
CHECK_DEADLOCK FALSE
