SPECIFICATION Spec
CONSTANT MaxLen = 4
INVARIANTS Sound OnceInOrder Transparent Complete
CHECK_DEADLOCK FALSE
