---------------------------- MODULE MC_HsmsPair ----------------------------
EXTENDS HsmsPair
(* every generation but the first follows a fault: with MaxGen = MaxFaults + 1 the generations never run out *)
GensSuffice == gen = MaxGen => faults = MaxFaults
SettlesForGood == <>[](\A e \in E : ep[e].up /\ ep[e].sel = "S")
=============================================================================
