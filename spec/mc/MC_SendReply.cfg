SPECIFICATION Spec
CONSTANTS
  Senders = {s1, s2}
  MaxEpoch = 2
  MaxSb = 3
  MaxPeer = 3
  DropsLateReply = FALSE
  CtlCompletesData = FALSE
INVARIANT NeverNilNil
INVARIANT OwnReply
INVARIANT InflightConserves
INVARIANT SendMatchesWire
INVARIANT NoStaleFrame
INVARIANT UniqueSb
INVARIANT RegistryClean
INVARIANT NoReplyLost
PROPERTY NoDataWhenNotSelected
CHECK_DEADLOCK FALSE
