SPECIFICATION Spec
CONSTANTS
  Senders = {s1, s2}
  MaxEpoch = 2
  MaxSb = 3
  MaxPeer = 3
  CtlCompletesData = FALSE
INVARIANT NeverNilNil
INVARIANT OwnReply
INVARIANT InflightConserves
INVARIANT SendMatchesWire
INVARIANT NoStaleFrame
INVARIANT UniqueSb
INVARIANT RegistryClean
PROPERTY NoDataWhenNotSelected
CHECK_DEADLOCK FALSE
