---------------------------- MODULE MC_Assembler ----------------------------
(***************************************************************************)
(* Exhaustive check of the inbound assembly rules (impl/Secs1Assembler)    *)
(* against a declarative reading of C17: over every history of up to       *)
(* MaxLen blocks drawn from a small alphabet (addressing ok / other device *)
(* / wrong direction; two message headers; block numbers 0..2; E-bit;      *)
(* arrival within or beyond T4).  Each block carries its position in the   *)
(* history as its one body byte, so a delivered body names exactly the     *)
(* history positions that were concatenated.                               *)
(***************************************************************************)
EXTENDS Secs1Assembler, Integers

CONSTANTS MaxLen
T4 == 10
Dev == 7
Cfg == [device |-> Dev, isEquip |-> FALSE, t4 |-> T4]

VARIABLES hist, now
vars == <<hist, now>>

Img(addr, mhk, no, e, pos) ==
    Image(Hdr(IF addr = "dev" THEN Dev + 1 ELSE Dev, IF addr = "dir" THEN 0 ELSE 1, 1, 0, IF mhk = 1 THEN 1 ELSE 3, no, e,
              <<0, 0, 0, mhk>>), <<pos>>)

Init == hist = <<>> /\ now = 0
Next == /\ Len(hist) < MaxLen
        /\ \E addr \in {"ok", "dev", "dir"}, mhk \in {1, 2}, no \in 0..2, e \in {0, 1}, gap \in {0, T4 + 1} :
              /\ now' = now + gap
              /\ hist' = Append(hist, [img |-> Img(addr, mhk, no, e, Len(hist) + 1), at |-> now + gap, addr |-> addr])
Spec == Init /\ [][Next]_vars

Out == Assemble(Cfg, hist).out
Pos(m) == m.body                               \* the history positions a delivered message was built from
(* a delivered message is a complete, in-order, correctly addressed, within-T4 run of blocks of ONE message *)
SoundMsg(m) ==
    LET p == Pos(m) n == Len(p) IN
    /\ n >= 1 /\ \A j \in 1..n : p[j] \in 1..Len(hist)
    /\ \A j \in 2..n : p[j - 1] < p[j]
    /\ \A j \in 1..n : hist[p[j]].addr = "ok" /\ BMsgHdr(hist[p[j]].img) = m.mh
    /\ \/ n = 1 /\ BNo(hist[p[1]].img) = 0 /\ BEbit(hist[p[1]].img) = 1
       \/ \A j \in 1..n : BNo(hist[p[j]].img) = j /\ (BEbit(hist[p[j]].img) = 1 <=> j = n)
    /\ \A j \in 2..n : hist[p[j]].at - hist[p[j - 1]].at <= T4
    \* whatever arrived in between was dropped for a stated reason: not addressed to us, or a retransmission of the block before
    /\ \A j \in 2..n : \A k \in (p[j - 1] + 1)..(p[j] - 1) :
          hist[k].addr /= "ok" \/ BHdr(hist[k].img) = BHdr(hist[p[j - 1]].img)
Sound == \A i \in 1..Len(Out) : SoundMsg(Out[i])
(* no block is delivered twice; messages come out in arrival order *)
OnceInOrder == \A i, j \in 1..Len(Out) : i < j => Pos(Out[i])[Len(Pos(Out[i]))] < Pos(Out[j])[1]
(* a retransmitted duplicate, a block for another device and a block in the wrong direction change nothing *)
Transparent ==
    \A k \in 1..Len(hist) :
       (hist[k].addr /= "ok" \/ (k > 1 /\ hist[k - 1].addr = "ok" /\ BHdr(hist[k].img) = BHdr(hist[k - 1].img)
                                  /\ hist[k].at - hist[k - 1].at <= T4       \* (a late one still expires an open partial first)
                                  /\ Assemble(Cfg, SubSeq(hist, 1, k - 1)).st.lastHdr = BHdr(hist[k - 1].img)))
       => Assemble(Cfg, SubSeq(hist, 1, k)).st = Assemble(Cfg, SubSeq(hist, 1, k - 1)).st
          /\ Assemble(Cfg, SubSeq(hist, 1, k)).out = Assemble(Cfg, SubSeq(hist, 1, k - 1)).out
(* completeness: a history made only of timely, correctly addressed blocks that form back-to-back complete messages
   (consecutive messages differing in header) delivers every one of them *)
RECURSIVE CleanFrom(_, _)
CleanFrom(i, expect) ==          \* expect = 0: a message must start at i
    IF i > Len(hist) THEN expect = 0
    ELSE LET b == hist[i] no == BNo(b.img) e == BEbit(b.img) IN
         /\ b.addr = "ok" /\ (i > 1 => b.at = hist[i - 1].at)
         /\ (i > 1 => BHdr(b.img) /= BHdr(hist[i - 1].img))
         /\ IF expect = 0 THEN (no = 1 \/ (no = 0 /\ e = 1)) ELSE (no = expect /\ BMsgHdr(b.img) = BMsgHdr(hist[i - 1].img))
         /\ CleanFrom(i + 1, IF e = 1 THEN 0 ELSE no + 1)
NEbits == Len(SelectSeq(hist, LAMBDA b : BEbit(b.img) = 1))
Complete == CleanFrom(1, 0) => Len(Out) = NEbits
=============================================================================
