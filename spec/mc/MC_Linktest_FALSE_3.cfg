SPECIFICATION Spec
CONSTANTS
  Suppress = FALSE
  Threshold = 3
  Interval = 3
  T6 = 2
  MaxT = 22
  MaxLife = 3
PROPERTY NoDropWhileAlive
PROPERTY DropNeedsThreshold
PROPERTY OffDropsAtThreshold
PROPERTY NoProbeWhenSuppressed
PROPERTY SilentDropsInTime
CHECK_DEADLOCK FALSE
