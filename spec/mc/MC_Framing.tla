---- MODULE MC_Framing ----
EXTENDS Framing
MCFrameLens == <<14, 17, 19>>
====
