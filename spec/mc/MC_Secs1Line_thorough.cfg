SPECIFICATION Spec
CONSTANTS Retry = 2 MaxFaults = 7 NMsgE = 3 NMsgH = 3
CONSTANT NBlocks <- NBlocksDef
INVARIANTS TypeOK ExactlyOnce AtMostOnce InOrder RetryBounded MasterFirst
PROPERTY AllReturn
CHECK_DEADLOCK FALSE
