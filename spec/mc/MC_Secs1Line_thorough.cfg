SPECIFICATION Spec
CONSTANTS Retry = 2 MaxFaults = 5 NMsgE = 3 NMsgH = 2
CONSTANT NBlocks <- NBlocksDef
INVARIANTS TypeOK ExactlyOnce AtMostOnce InOrder RetryBounded MasterFirst
PROPERTY AllReturn
CHECK_DEADLOCK FALSE
