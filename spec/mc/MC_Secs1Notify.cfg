SPECIFICATION Spec
CONSTANTS Cap = 3 NApp = 7 NBad = 3 NotifyInline = FALSE
INVARIANTS NeverWedged NoDeadlock
PROPERTY EverythingGoesOut
CHECK_DEADLOCK FALSE
