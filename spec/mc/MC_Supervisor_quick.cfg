SPECIFICATION Spec
CONSTANTS
  MaxGen = 2
  MaxCommits = 3
  MaxArms = 2
  MaxDisc = 1
  MaxStale = 0
  NotifyCap = 2
  QCap = 6
  EchoStores = TRUE
  SealOnClose = FALSE
  LostGuard = FALSE
VIEW View
INVARIANT TypeOK
CHECK_DEADLOCK FALSE
