---------------------------- MODULE MC_Secs1Line ----------------------------
EXTENDS Secs1Line
(* the first message of each end has two blocks, the others one *)
NBlocksDef == [m \in AllMsgs |-> IF m \in {1, 101} THEN 2 ELSE 1]
=============================================================================
