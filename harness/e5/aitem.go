// Package e5 binds the TLA+ E5Codec module to the real secs2 package: the
// abstract item of the specification (AItem), builders that realise an
// abstract item through every public constructor shape, and the projection
// of a real secs2.Item back to an abstract item using accessors only.
package e5

import (
	"encoding/binary"
	"encoding/json"
	"fmt"
	"math"

	"github.com/arloliu/go-secs/v2/secs2"
)

// AItem mirrors the abstract item of spec/fn/E5Codec.tla.
type AItem struct {
	K     string   // "L","B","BOOL","A","J","LOC","I1".."I8","U1".."U8","F4","F8"
	LSH   int      // LOC only
	Kids  []*AItem // L
	Bytes []byte   // B, A, J, LOC text, BOOL (0/1)
	Elems [][]byte // I*/U*: 8-byte two's complement image; F*: 4/8 bytes IEEE bits, empty = NaN
}

func Width(k string) int {
	switch k {
	case "I8", "U8", "F8":
		return 8
	case "I4", "U4", "F4":
		return 4
	case "I2", "U2":
		return 2
	}
	return 1
}

func IsSigned(k string) bool   { return len(k) == 2 && k[0] == 'I' }
func IsUnsigned(k string) bool { return len(k) == 2 && k[0] == 'U' }
func IsFloat(k string) bool    { return len(k) == 2 && k[0] == 'F' }
func isBytesKind(k string) bool {
	return k == "B" || k == "A" || k == "J" || k == "LOC" || k == "BOOL"
}

func ints(b []byte) []int {
	out := make([]int, len(b))
	for i, x := range b {
		out[i] = int(x)
	}
	return out
}

func (a *AItem) MarshalJSON() ([]byte, error) {
	m := map[string]any{"k": a.K}
	switch {
	case a.K == "L":
		kids := a.Kids
		if kids == nil {
			kids = []*AItem{}
		}
		m["v"] = kids
	case isBytesKind(a.K):
		m["v"] = ints(a.Bytes)
		if a.K == "LOC" {
			m["lsh"] = a.LSH
		}
	default:
		el := make([][]int, len(a.Elems))
		for i, e := range a.Elems {
			el[i] = ints(e)
		}
		m["v"] = el
	}
	return json.Marshal(m)
}

func (a *AItem) UnmarshalJSON(data []byte) error {
	var raw struct {
		K   string          `json:"k"`
		LSH int             `json:"lsh"`
		V   json.RawMessage `json:"v"`
	}
	if err := json.Unmarshal(data, &raw); err != nil {
		return err
	}
	a.K, a.LSH = raw.K, raw.LSH
	switch {
	case raw.K == "L":
		a.Kids = []*AItem{}
		return json.Unmarshal(raw.V, &a.Kids)
	case isBytesKind(raw.K):
		var v []int
		if err := json.Unmarshal(raw.V, &v); err != nil {
			return err
		}
		a.Bytes = make([]byte, len(v))
		for i, x := range v {
			a.Bytes[i] = byte(x)
		}
	default:
		var v [][]int
		if err := json.Unmarshal(raw.V, &v); err != nil {
			return err
		}
		a.Elems = make([][]byte, len(v))
		for i, e := range v {
			a.Elems[i] = make([]byte, len(e))
			for j, x := range e {
				a.Elems[i][j] = byte(x)
			}
		}
	}
	return nil
}

// Image8 is the 8-byte big-endian two's complement image of v.
func Image8(v uint64) []byte {
	b := make([]byte, 8)
	binary.BigEndian.PutUint64(b, v)
	return b
}

func (a *AItem) Int64s() []int64 {
	out := make([]int64, len(a.Elems))
	for i, e := range a.Elems {
		out[i] = int64(binary.BigEndian.Uint64(e)) //nolint:gosec
	}
	return out
}

func (a *AItem) Uint64s() []uint64 {
	out := make([]uint64, len(a.Elems))
	for i, e := range a.Elems {
		out[i] = binary.BigEndian.Uint64(e)
	}
	return out
}

// Float64s returns the element values (F4 widened exactly); NaN for empty elements.
func (a *AItem) Float64s() []float64 {
	out := make([]float64, len(a.Elems))
	for i, e := range a.Elems {
		switch len(e) {
		case 0:
			out[i] = math.NaN()
		case 4:
			out[i] = float64(math.Float32frombits(binary.BigEndian.Uint32(e)))
		default:
			out[i] = math.Float64frombits(binary.BigEndian.Uint64(e))
		}
	}
	return out
}

// Project reads a real item back through its public accessors only.
func Project(it secs2.Item) (*AItem, error) {
	if it == nil {
		return nil, fmt.Errorf("nil item")
	}
	if err := it.Error(); err != nil {
		return nil, fmt.Errorf("errored item: %w", err)
	}
	switch {
	case it.IsList():
		a := &AItem{K: "L", Kids: []*AItem{}}
		n := it.Size()
		for i := 0; i < n; i++ {
			c, err := it.ItemAt(i)
			if err != nil {
				return nil, fmt.Errorf("ItemAt(%d): %w", i, err)
			}
			pc, err := Project(c)
			if err != nil {
				return nil, err
			}
			a.Kids = append(a.Kids, pc)
		}
		return a, nil
	case it.IsBinary():
		b, err := it.ToBinary()
		if err != nil {
			return nil, err
		}
		if len(b) != it.Size() {
			return nil, fmt.Errorf("binary Size %d != len %d", it.Size(), len(b))
		}
		return &AItem{K: "B", Bytes: append([]byte{}, b...)}, nil
	case it.IsBoolean():
		bs, err := it.ToBoolean()
		if err != nil {
			return nil, err
		}
		if len(bs) != it.Size() {
			return nil, fmt.Errorf("boolean Size %d != len %d", it.Size(), len(bs))
		}
		a := &AItem{K: "BOOL", Bytes: make([]byte, len(bs))}
		for i, v := range bs {
			if v {
				a.Bytes[i] = 1
			}
			at, err := it.BoolAt(i)
			if err != nil || at != v {
				return nil, fmt.Errorf("BoolAt(%d) disagrees with ToBoolean", i)
			}
		}
		return a, nil
	case it.IsASCII():
		s, err := it.ToASCII()
		if err != nil {
			return nil, err
		}
		if len(s) != it.Size() {
			return nil, fmt.Errorf("ascii Size %d != len %d", it.Size(), len(s))
		}
		return &AItem{K: "A", Bytes: []byte(s)}, nil
	case it.IsJIS8():
		s, err := it.ToJIS8()
		if err != nil {
			return nil, err
		}
		return &AItem{K: "J", Bytes: []byte(s)}, nil
	case it.IsLocalizedStr():
		s, err := it.ToLocalizedStr()
		if err != nil {
			return nil, err
		}
		h, err := it.ToLocalizedStrHeader()
		if err != nil {
			return nil, err
		}
		return &AItem{K: "LOC", LSH: int(h), Bytes: []byte(s)}, nil
	}
	k := ""
	switch {
	case it.IsInt8():
		k = "I1"
	case it.IsInt16():
		k = "I2"
	case it.IsInt32():
		k = "I4"
	case it.IsInt64():
		k = "I8"
	case it.IsUint8():
		k = "U1"
	case it.IsUint16():
		k = "U2"
	case it.IsUint32():
		k = "U4"
	case it.IsUint64():
		k = "U8"
	case it.IsFloat32():
		k = "F4"
	case it.IsFloat64():
		k = "F8"
	default:
		return nil, fmt.Errorf("unclassifiable item type %q", it.Type())
	}
	a := &AItem{K: k, Elems: [][]byte{}}
	switch {
	case IsSigned(k):
		vs, err := it.ToInt()
		if err != nil {
			return nil, err
		}
		if len(vs) != it.Size() {
			return nil, fmt.Errorf("int Size %d != len %d", it.Size(), len(vs))
		}
		for i, v := range vs {
			at, err := it.IntAt(i)
			if err != nil || at != v {
				return nil, fmt.Errorf("IntAt(%d) disagrees with ToInt", i)
			}
			a.Elems = append(a.Elems, Image8(uint64(v))) //nolint:gosec
		}
	case IsUnsigned(k):
		vs, err := it.ToUint()
		if err != nil {
			return nil, err
		}
		if len(vs) != it.Size() {
			return nil, fmt.Errorf("uint Size %d != len %d", it.Size(), len(vs))
		}
		for i, v := range vs {
			at, err := it.UintAt(i)
			if err != nil || at != v {
				return nil, fmt.Errorf("UintAt(%d) disagrees with ToUint", i)
			}
			a.Elems = append(a.Elems, Image8(v))
		}
	default:
		vs, err := it.ToFloat()
		if err != nil {
			return nil, err
		}
		if len(vs) != it.Size() {
			return nil, fmt.Errorf("float Size %d != len %d", it.Size(), len(vs))
		}
		for i, v := range vs {
			at, err := it.FloatAt(i)
			if err != nil || (at != v && !(math.IsNaN(at) && math.IsNaN(v))) {
				return nil, fmt.Errorf("FloatAt(%d) disagrees with ToFloat", i)
			}
			a.Elems = append(a.Elems, FloatElem(k, v))
		}
	}
	return a, nil
}

// FloatElem is the abstract element for a float64 accessor value of an F4/F8 item:
// NaN -> empty; F4 -> the float32 bit pattern (the accessor value must be exactly a float32).
func FloatElem(k string, v float64) []byte {
	if math.IsNaN(v) {
		return []byte{}
	}
	if k == "F4" {
		f := float32(v)
		if float64(f) != v {
			// not representable: mark with an impossible 5-byte element so the oracle rejects it
			return []byte{0, 0, 0, 0, 0}
		}
		b := make([]byte, 4)
		binary.BigEndian.PutUint32(b, math.Float32bits(f))
		return b
	}
	return Image8(math.Float64bits(v))
}
