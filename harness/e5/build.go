package e5

import (
	"math"
	"strconv"

	"github.com/arloliu/go-secs/v2/secs2"
)

// Shapes is the list of constructor argument shapes (C01/C16 quantifier):
// every way the public API lets a caller hand the same logical values over.
var Shapes = []string{
	"variadic64",   // each element its own int64/uint64/float64 argument
	"slice64",      // one []int64/[]uint64/[]float64 argument
	"native",       // Go int / uint / float64 variadic (where the value fits)
	"native-slice", // []int / []uint
	"narrow",       // the Go type of the item's own width (int16 for I2, float32 for F4 ...), variadic
	"narrow-slice", // []int16 ...
	"cross-sign",   // signed values via unsigned Go types and vice versa, where representable
	"string-dec",   // decimal strings, variadic
	"string-slice", // []string
	"string-hex",   // 0x.. strings (integers only)
	"mixed",        // alternating scalar / slice / string arguments
	"ctor",         // NewIntItem(w, ...) family instead of the I2(...) shortcut
}

func fitsInt(v int64, w int) bool {
	switch w {
	case 1:
		return v >= math.MinInt8 && v <= math.MaxInt8
	case 2:
		return v >= math.MinInt16 && v <= math.MaxInt16
	case 4:
		return v >= math.MinInt32 && v <= math.MaxInt32
	}
	return true
}

func intShortcut(w int) func(...any) secs2.Item {
	switch w {
	case 1:
		return secs2.I1
	case 2:
		return secs2.I2
	case 4:
		return secs2.I4
	}
	return secs2.I8
}

func uintShortcut(w int) func(...any) secs2.Item {
	switch w {
	case 1:
		return secs2.U1
	case 2:
		return secs2.U2
	case 4:
		return secs2.U4
	}
	return secs2.U8
}

func floatShortcut(w int) func(...any) secs2.Item {
	if w == 4 {
		return secs2.F4
	}
	return secs2.F8
}

// Build realises a through the given constructor shape. ok=false means the
// shape does not apply to this item (e.g. a negative value through an
// unsigned Go type); the caller skips it.
func Build(a *AItem, shape string) (it secs2.Item, ok bool) {
	switch {
	case a.K == "L":
		kids := make([]secs2.Item, len(a.Kids))
		for i, c := range a.Kids {
			k, ok := Build(c, shape)
			if !ok {
				// children fall back to the canonical shape
				k, _ = Build(c, "variadic64")
			}
			kids[i] = k
		}
		switch shape {
		case "ctor":
			return secs2.NewListItem(kids...), true
		default:
			return secs2.L(kids...), true
		}
	case a.K == "A":
		if shape == "ctor" {
			return secs2.NewASCIIItem(string(a.Bytes)), true
		}
		return secs2.A(string(a.Bytes)), shape == "variadic64"
	case a.K == "J":
		if shape == "ctor" {
			return secs2.NewJIS8Item(string(a.Bytes)), true
		}
		return secs2.J(string(a.Bytes)), shape == "variadic64"
	case a.K == "LOC":
		if shape == "native" && a.LSH == 10 { // LSHUTF8
			return secs2.W(string(a.Bytes)), secs2.LSHUTF8 == 10
		}
		return secs2.NewLocalizedStrItem(uint16(a.LSH), string(a.Bytes)), shape == "variadic64" || shape == "ctor" //nolint:gosec
	case a.K == "B":
		return buildBinary(a, shape)
	case a.K == "BOOL":
		return buildBool(a, shape)
	case IsSigned(a.K):
		return buildInt(a, shape)
	case IsUnsigned(a.K):
		return buildUint(a, shape)
	default:
		return buildFloat(a, shape)
	}
}

func buildBinary(a *AItem, shape string) (secs2.Item, bool) {
	switch shape {
	case "variadic64":
		args := make([]any, len(a.Bytes))
		for i, b := range a.Bytes {
			args[i] = b
		}
		return secs2.B(args...), true
	case "slice64":
		return secs2.B(append([]byte{}, a.Bytes...)), true
	case "native":
		args := make([]any, len(a.Bytes))
		for i, b := range a.Bytes {
			args[i] = int(b)
		}
		return secs2.B(args...), true
	case "string-dec":
		args := make([]any, len(a.Bytes))
		for i, b := range a.Bytes {
			args[i] = strconv.Itoa(int(b))
		}
		return secs2.B(args...), true
	case "string-hex":
		args := make([]any, len(a.Bytes))
		for i, b := range a.Bytes {
			args[i] = "0x" + strconv.FormatInt(int64(b), 16)
		}
		return secs2.B(args...), true
	case "mixed":
		var args []any
		for i := 0; i < len(a.Bytes); i++ {
			switch i % 3 {
			case 0:
				args = append(args, a.Bytes[i])
			case 1:
				args = append(args, []byte{a.Bytes[i]})
			default:
				args = append(args, strconv.Itoa(int(a.Bytes[i])))
			}
		}
		return secs2.B(args...), true
	case "ctor":
		return secs2.NewBinaryItem(append([]byte{}, a.Bytes...)), true
	}
	return nil, false
}

func buildBool(a *AItem, shape string) (secs2.Item, bool) {
	bs := make([]bool, len(a.Bytes))
	for i, b := range a.Bytes {
		bs[i] = b != 0
	}
	switch shape {
	case "variadic64":
		args := make([]any, len(bs))
		for i, b := range bs {
			args[i] = b
		}
		return secs2.BOOLEAN(args...), true
	case "slice64":
		return secs2.BOOLEAN(bs), true
	case "mixed":
		var args []any
		for i, b := range bs {
			if i%2 == 0 {
				args = append(args, b)
			} else {
				args = append(args, []bool{b})
			}
		}
		return secs2.BOOLEAN(args...), true
	case "ctor":
		return secs2.NewBooleanItem(bs), true
	}
	return nil, false
}

func buildInt(a *AItem, shape string) (secs2.Item, bool) { //nolint:gocyclo,cyclop
	w := Width(a.K)
	vs := a.Int64s()
	mk := intShortcut(w)
	args := make([]any, 0, len(vs))
	switch shape {
	case "variadic64":
		for _, v := range vs {
			args = append(args, v)
		}
	case "slice64":
		return mk(append([]int64{}, vs...)), true
	case "native":
		for _, v := range vs {
			args = append(args, int(v))
		}
	case "native-slice":
		s := make([]int, len(vs))
		for i, v := range vs {
			s[i] = int(v)
		}
		return mk(s), true
	case "narrow":
		for _, v := range vs {
			if !fitsInt(v, w) {
				return nil, false
			}
			switch w {
			case 1:
				args = append(args, int8(v))
			case 2:
				args = append(args, int16(v))
			case 4:
				args = append(args, int32(v))
			default:
				args = append(args, v)
			}
		}
	case "narrow-slice":
		switch w {
		case 1:
			s := make([]int8, len(vs))
			for i, v := range vs {
				s[i] = int8(v)
			}
			return mk(s), true
		case 2:
			s := make([]int16, len(vs))
			for i, v := range vs {
				s[i] = int16(v)
			}
			return mk(s), true
		case 4:
			s := make([]int32, len(vs))
			for i, v := range vs {
				s[i] = int32(v)
			}
			return mk(s), true
		}
		return mk(append([]int64{}, vs...)), true
	case "cross-sign":
		for i, v := range vs {
			if v < 0 {
				return nil, false
			}
			switch {
			case v <= math.MaxUint8 && i%4 == 0:
				args = append(args, uint8(v))
			case v <= math.MaxUint16 && i%4 == 1:
				args = append(args, uint16(v))
			case v <= math.MaxUint32 && i%4 == 2:
				args = append(args, uint32(v))
			case i%2 == 0:
				args = append(args, uint64(v))
			default:
				args = append(args, uint(v))
			}
		}
	case "string-dec":
		for _, v := range vs {
			args = append(args, strconv.FormatInt(v, 10))
		}
	case "string-slice":
		s := make([]string, len(vs))
		for i, v := range vs {
			s[i] = strconv.FormatInt(v, 10)
		}
		return mk(s), true
	case "string-hex":
		for _, v := range vs {
			if v < 0 {
				args = append(args, "-0x"+strconv.FormatUint(uint64(-v), 16)) // -MinInt64 wraps to itself: fine
			} else {
				args = append(args, "0x"+strconv.FormatInt(v, 16))
			}
		}
	case "mixed":
		for i, v := range vs {
			switch i % 4 {
			case 0:
				args = append(args, v)
			case 1:
				args = append(args, []int64{v})
			case 2:
				args = append(args, strconv.FormatInt(v, 10))
			default:
				args = append(args, []int{int(v)})
			}
		}
	case "ctor":
		for _, v := range vs {
			args = append(args, v)
		}
		return secs2.NewIntItem(w, args...), true
	default:
		return nil, false
	}
	return mk(args...), true
}

func buildUint(a *AItem, shape string) (secs2.Item, bool) { //nolint:gocyclo,cyclop
	w := Width(a.K)
	vs := a.Uint64s()
	mk := uintShortcut(w)
	args := make([]any, 0, len(vs))
	switch shape {
	case "variadic64":
		for _, v := range vs {
			args = append(args, v)
		}
	case "slice64":
		return mk(append([]uint64{}, vs...)), true
	case "native":
		for _, v := range vs {
			args = append(args, uint(v))
		}
	case "native-slice":
		s := make([]uint, len(vs))
		for i, v := range vs {
			s[i] = uint(v)
		}
		return mk(s), true
	case "narrow":
		for _, v := range vs {
			switch w {
			case 1:
				args = append(args, uint8(v))
			case 2:
				args = append(args, uint16(v))
			case 4:
				args = append(args, uint32(v))
			default:
				args = append(args, v)
			}
		}
	case "narrow-slice":
		switch w {
		case 1:
			s := make([]uint8, len(vs))
			for i, v := range vs {
				s[i] = uint8(v)
			}
			return mk(s), true
		case 2:
			s := make([]uint16, len(vs))
			for i, v := range vs {
				s[i] = uint16(v)
			}
			return mk(s), true
		case 4:
			s := make([]uint32, len(vs))
			for i, v := range vs {
				s[i] = uint32(v)
			}
			return mk(s), true
		}
		return mk(append([]uint64{}, vs...)), true
	case "cross-sign":
		for i, v := range vs {
			if v > math.MaxInt64 {
				return nil, false
			}
			switch {
			case v <= math.MaxInt8 && i%4 == 0:
				args = append(args, int8(v))
			case v <= math.MaxInt16 && i%4 == 1:
				args = append(args, int16(v))
			case v <= math.MaxInt32 && i%4 == 2:
				args = append(args, int32(v))
			case i%2 == 0:
				args = append(args, int64(v))
			default:
				args = append(args, int(v))
			}
		}
	case "string-dec":
		for _, v := range vs {
			args = append(args, strconv.FormatUint(v, 10))
		}
	case "string-slice":
		s := make([]string, len(vs))
		for i, v := range vs {
			s[i] = strconv.FormatUint(v, 10)
		}
		return mk(s), true
	case "string-hex":
		for _, v := range vs {
			args = append(args, "0x"+strconv.FormatUint(v, 16))
		}
	case "mixed":
		for i, v := range vs {
			switch i % 4 {
			case 0:
				args = append(args, v)
			case 1:
				args = append(args, []uint64{v})
			case 2:
				args = append(args, strconv.FormatUint(v, 10))
			default:
				args = append(args, []uint{uint(v)})
			}
		}
	case "ctor":
		for _, v := range vs {
			args = append(args, v)
		}
		return secs2.NewUintItem(w, args...), true
	default:
		return nil, false
	}
	return mk(args...), true
}

func buildFloat(a *AItem, shape string) (secs2.Item, bool) {
	w := Width(a.K)
	vs := a.Float64s()
	mk := floatShortcut(w)
	args := make([]any, 0, len(vs))
	switch shape {
	case "variadic64", "native":
		for _, v := range vs {
			args = append(args, v)
		}
	case "slice64":
		return mk(append([]float64{}, vs...)), true
	case "narrow":
		if w != 4 {
			return nil, false
		}
		for _, v := range vs {
			args = append(args, float32(v))
		}
	case "narrow-slice":
		if w != 4 {
			return nil, false
		}
		s := make([]float32, len(vs))
		for i, v := range vs {
			s[i] = float32(v)
		}
		return mk(s), true
	case "string-dec":
		for _, v := range vs {
			args = append(args, strconv.FormatFloat(v, 'g', -1, 64))
		}
	case "string-slice":
		s := make([]string, len(vs))
		for i, v := range vs {
			s[i] = strconv.FormatFloat(v, 'g', -1, 64)
		}
		return mk(s), true
	case "mixed":
		for i, v := range vs {
			switch i % 3 {
			case 0:
				args = append(args, v)
			case 1:
				args = append(args, []float64{v})
			default:
				args = append(args, strconv.FormatFloat(v, 'g', -1, 64))
			}
		}
	case "ctor":
		for _, v := range vs {
			args = append(args, v)
		}
		return secs2.NewFloatItem(w, args...), true
	default:
		return nil, false
	}
	return mk(args...), true
}
