package e5

import (
	"encoding/binary"
	"math"
	"math/rand"
)

var leafKinds = []string{"B", "BOOL", "A", "J", "LOC", "I1", "I2", "I4", "I8", "U1", "U2", "U4", "U8", "F4", "F8"}

// RandItem draws a random valid abstract item tree (depth-limited, sizes
// biased towards the interesting small counts but occasionally long).
func RandItem(r *rand.Rand, depth int) *AItem {
	budget := 40 + r.Intn(400)
	return randItem(r, depth, &budget)
}

func randItem(r *rand.Rand, depth int, budget *int) *AItem {
	*budget--
	if depth < 6 && *budget > 0 && r.Intn(3) == 0 {
		n := r.Intn(5)
		if depth == 0 && r.Intn(30) == 0 {
			n = 250 + r.Intn(12)
		}
		a := &AItem{K: "L", Kids: []*AItem{}}
		for i := 0; i < n; i++ {
			a.Kids = append(a.Kids, randItem(r, depth+1, budget))
		}
		return a
	}
	a := RandLeaf(r, leafKinds[r.Intn(len(leafKinds))])
	if *budget <= 0 { // keep the tail of a big tree small
		if len(a.Bytes) > 2 {
			a.Bytes = a.Bytes[:2]
		}
		if len(a.Elems) > 2 {
			a.Elems = a.Elems[:2]
		}
	}
	*budget -= len(a.Bytes)/8 + len(a.Elems)
	return a
}

func randCount(r *rand.Rand) int {
	switch r.Intn(12) {
	case 0:
		return 0
	case 1, 2, 3:
		return 1
	case 4, 5:
		return 2
	case 6:
		return 30 + r.Intn(40) // around the 1-byte/2-byte payload boundaries for wide elements
	case 7:
		return 250 + r.Intn(10)
	default:
		return 3 + r.Intn(6)
	}
}

// RandLeaf draws a leaf of kind k.
func RandLeaf(r *rand.Rand, k string) *AItem {
	n := randCount(r)
	a := &AItem{K: k}
	switch {
	case k == "LOC":
		a.LSH = []int{0, 1, 10, 255, 256, 65535, r.Intn(65536)}[r.Intn(7)]
		a.Bytes = randBytes(r, n)
	case k == "BOOL":
		a.Bytes = make([]byte, n)
		for i := range a.Bytes {
			a.Bytes[i] = byte(r.Intn(2))
		}
	case k == "B" || k == "A" || k == "J":
		a.Bytes = randBytes(r, n)
	case IsSigned(k):
		w := Width(k)
		a.Elems = make([][]byte, n)
		for i := range a.Elems {
			a.Elems[i] = Image8(uint64(signExtend(randBits(r, w), w))) //nolint:gosec
		}
	case IsUnsigned(k):
		w := Width(k)
		a.Elems = make([][]byte, n)
		for i := range a.Elems {
			a.Elems[i] = Image8(randBits(r, w))
		}
	default:
		w := Width(k)
		a.Elems = make([][]byte, n)
		for i := range a.Elems {
			a.Elems[i] = randFloatElem(r, w)
		}
	}
	return a
}

func randBytes(r *rand.Rand, n int) []byte {
	b := make([]byte, n)
	for i := range b {
		switch r.Intn(4) {
		case 0:
			b[i] = []byte{0, '"', '\'', '\\', '>', '<', ' ', 0x0a, 0x7f, 0x80, 0xff}[r.Intn(11)]
		default:
			b[i] = byte(r.Intn(256))
		}
	}
	return b
}

// randBits: random value on w bytes, biased to the boundaries of every narrower width.
func randBits(r *rand.Rand, w int) uint64 {
	mask := uint64(math.MaxUint64)
	if w < 8 {
		mask = (uint64(1) << (8 * w)) - 1
	}
	switch r.Intn(6) {
	case 0:
		edges := []uint64{0, 1, 0x7f, 0x80, 0xff, 0x100, 0x7fff, 0x8000, 0xffff, 0x10000, 0x7fffffff, 0x80000000, 0xffffffff,
			0x100000000, 0x7fffffffffffffff, 0x8000000000000000, math.MaxUint64}
		return edges[r.Intn(len(edges))] & mask
	case 1:
		return (mask - uint64(r.Intn(3))) & mask
	default:
		return r.Uint64() & mask
	}
}

func signExtend(v uint64, w int) int64 {
	shift := uint(64 - 8*w)
	return int64(v<<shift) >> shift //nolint:gosec
}

func randFloatElem(r *rand.Rand, w int) []byte {
	if r.Intn(25) == 0 {
		return []byte{} // NaN
	}
	for {
		if w == 4 {
			bits := uint32(r.Uint64())
			switch r.Intn(8) {
			case 0:
				bits = []uint32{0, 0x80000000, 0x3f800000, 0x7f7fffff, 1, 0x7f800000, 0xff800000, 0x00800000}[r.Intn(8)]
			}
			f := math.Float32frombits(bits)
			if f != f {
				continue
			}
			b := make([]byte, 4)
			binary.BigEndian.PutUint32(b, bits)
			return b
		}
		bits := r.Uint64()
		switch r.Intn(8) {
		case 0:
			bits = []uint64{0, 0x8000000000000000, 0x3ff0000000000000, 0x7fefffffffffffff, 1, 0x7ff0000000000000, 0xfff0000000000000}[r.Intn(7)]
		}
		f := math.Float64frombits(bits)
		if f != f {
			continue
		}
		return Image8(bits)
	}
}

// Depth returns the list nesting depth of a.
func (a *AItem) Depth() int {
	if a.K != "L" {
		return 0
	}
	d := 0
	for _, c := range a.Kids {
		if cd := c.Depth(); cd > d {
			d = cd
		}
	}
	return d + 1
}

// Leaves counts leaf items.
func (a *AItem) Leaves() int {
	if a.K != "L" {
		return 1
	}
	n := 0
	for _, c := range a.Kids {
		n += c.Leaves()
	}
	return n
}
