// Package peerkit is the harness-owned side of every end-to-end check: a raw,
// scripted HSMS peer that shares no code with go-secs (frames are built and
// parsed here from SEMI E37 directly), harness-owned dialers/listeners that
// wrap and tag every socket the library touches, and fault injection.
package peerkit

import (
	"encoding/binary"
	"fmt"
)

// Frame is one HSMS message as seen on the wire (without the 4-byte length).
type Frame struct {
	Sid  int    `json:"sid"`
	B2   int    `json:"b2"`
	B3   int    `json:"b3"`
	PT   int    `json:"pt"`
	ST   int    `json:"st"`
	Sb   []int  `json:"sb"`
	Body []int  `json:"body"`
	Raw  []byte `json:"-"`
}

const (
	STData = 0
	STSelectReq = 1
	STSelectRsp = 2
	STDeselectReq = 3
	STDeselectRsp = 4
	STLinktestReq = 5
	STLinktestRsp = 6
	STRejectReq = 7
	STSeparateReq = 9
)

// Bytes serialises the frame with its length prefix.
func (f Frame) Bytes() []byte {
	out := make([]byte, 14+len(f.Body))
	binary.BigEndian.PutUint32(out[0:4], uint32(10+len(f.Body)))
	out[4], out[5] = byte(f.Sid>>8), byte(f.Sid)
	out[6], out[7], out[8], out[9] = byte(f.B2), byte(f.B3), byte(f.PT), byte(f.ST)
	for i := 0; i < 4; i++ {
		out[10+i] = byte(f.Sb[i])
	}
	for i, b := range f.Body {
		out[14+i] = byte(b)
	}
	return out
}

// ParseFrame parses header+body (no length prefix).
func ParseFrame(p []byte) (Frame, error) {
	if len(p) < 10 {
		return Frame{}, fmt.Errorf("short frame: %d bytes", len(p))
	}
	f := Frame{Sid: int(p[0])<<8 | int(p[1]), B2: int(p[2]), B3: int(p[3]), PT: int(p[4]), ST: int(p[5]),
		Sb: []int{int(p[6]), int(p[7]), int(p[8]), int(p[9])}, Body: make([]int, len(p)-10), Raw: p}
	for i, b := range p[10:] {
		f.Body[i] = int(b)
	}
	return f, nil
}

func SbOf(v uint32) []int { return []int{int(v >> 24), int(v >> 16 & 0xff), int(v >> 8 & 0xff), int(v & 0xff)} }
func (f Frame) SbU32() uint32 {
	return uint32(f.Sb[0])<<24 | uint32(f.Sb[1])<<16 | uint32(f.Sb[2])<<8 | uint32(f.Sb[3])
}

func Ctl(st, sid int, sb uint32) Frame {
	return Frame{Sid: sid, ST: st, Sb: SbOf(sb), Body: []int{}}
}
func CtlStatus(st, sid, status int, sb uint32) Frame {
	return Frame{Sid: sid, B3: status, ST: st, Sb: SbOf(sb), Body: []int{}}
}
func Data(sid, stream, function int, w bool, sb uint32, body []byte) Frame {
	b2 := stream & 0x7f
	if w {
		b2 |= 0x80
	}
	f := Frame{Sid: sid, B2: b2, B3: function, ST: STData, Sb: SbOf(sb), Body: make([]int, len(body))}
	for i, b := range body {
		f.Body[i] = int(b)
	}
	return f
}
