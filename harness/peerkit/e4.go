package peerkit

import (
	"bufio"
	"errors"
	"net"
	"sync"
	"time"
)

// E4Peer is an independent implementation of the SEMI E4 (SECS-I) block transfer protocol, written from
// the standard and sharing no code with go-secs/secs1: ENQ / EOT / ACK / NAK handshake, length byte,
// 10-byte header, body, 16-bit checksum. It can misbehave on request (fault scripts) and logs every
// character it sends and receives.
type E4Peer struct {
	c      net.Conn
	r      *bufio.Reader
	T1, T2 time.Duration
	Master bool // the peer plays the equipment (master) role in contention

	mu      sync.Mutex
	Log     []E4Event
	Yielded []E4Yield // blocks of the other end received while yielding to contention
}

// E4Yield is a block the peer received from the library outside a scripted receive.
type E4Yield struct {
	Raw  []byte
	Good bool
}

// TakeYielded returns and clears the blocks received while yielding.
func (p *E4Peer) TakeYielded() []E4Yield {
	p.mu.Lock()
	defer p.mu.Unlock()
	out := p.Yielded
	p.Yielded = nil
	return out
}

// Drain serves any transmission the library starts on its own for up to d of line silence.
func (p *E4Peer) Drain(d time.Duration) {
	for {
		raw, good, what := p.RecvBlock(d, RecvOpts{})
		if what != "block" {
			return
		}
		p.mu.Lock()
		p.Yielded = append(p.Yielded, E4Yield{Raw: raw, Good: good})
		p.mu.Unlock()
	}
}

type E4Event struct {
	Dir  string `json:"dir"`  // "tx" | "rx"
	Kind string `json:"kind"` // "ENQ" | "EOT" | "ACK" | "NAK" | "BLK" | "CHR" | "TIMEOUT"
	Raw  []int  `json:"raw"`
	AtUs int64  `json:"at_us"`
}

const (
	ENQ = 0x05
	EOT = 0x04
	ACK = 0x06
	NAK = 0x15
)

func NewE4Peer(c net.Conn, t1, t2 time.Duration, master bool) *E4Peer {
	return &E4Peer{c: c, r: bufio.NewReader(c), T1: t1, T2: t2, Master: master}
}

var e4Start = time.Now()

// E4Time converts an event timestamp back to wall time.
func E4Time(atUs int64) time.Time { return e4Start.Add(time.Duration(atUs) * time.Microsecond) }

func (p *E4Peer) log(dir, kind string, raw []byte) {
	ints := make([]int, len(raw))
	for i, b := range raw {
		ints[i] = int(b)
	}
	p.mu.Lock()
	p.Log = append(p.Log, E4Event{Dir: dir, Kind: kind, Raw: ints, AtUs: int64(time.Since(e4Start) / time.Microsecond)})
	p.mu.Unlock()
}

func (p *E4Peer) write(kind string, b []byte) error {
	p.log("tx", kind, b)
	_, err := p.c.Write(b)
	return err
}

func (p *E4Peer) readByte(timeout time.Duration) (byte, error) {
	_ = p.c.SetReadDeadline(time.Now().Add(timeout))
	return p.r.ReadByte()
}

func hsName(b byte) string {
	switch b {
	case ENQ:
		return "ENQ"
	case EOT:
		return "EOT"
	case ACK:
		return "ACK"
	case NAK:
		return "NAK"
	}
	return "CHR"
}

// Block builds the on-line image of one block: length byte, header, body, checksum (E4 §8).
func E4Block(device int, rbit bool, stream, function int, wbit bool, blockNo int, ebit bool, sb uint32, body []byte) []byte {
	h := make([]byte, 10)
	h[0] = byte(device >> 8 & 0x7f)
	if rbit {
		h[0] |= 0x80
	}
	h[1] = byte(device)
	h[2] = byte(stream & 0x7f)
	if wbit {
		h[2] |= 0x80
	}
	h[3] = byte(function)
	h[4] = byte(blockNo >> 8 & 0x7f)
	if ebit {
		h[4] |= 0x80
	}
	h[5] = byte(blockNo)
	h[6], h[7], h[8], h[9] = byte(sb>>24), byte(sb>>16), byte(sb>>8), byte(sb)
	out := append([]byte{byte(10 + len(body))}, h...)
	out = append(out, body...)
	sum := 0
	for _, b := range out[1:] {
		sum += int(b)
	}
	return append(out, byte(sum>>8), byte(sum))
}

// SendOpts scripts one transmission attempt of the peer.
type SendOpts struct {
	SkipENQ     bool          // do not send ENQ (the data arrives unannounced)
	EnqSent     bool          // the ENQ is already on the line (sent as a contention reply): only wait for EOT
	NoYield     bool          // slave role: report "contention" instead of yielding to the master's ENQ
	HoldBeforeBlock time.Duration // pause between EOT and the block (T2 at the receiver)
	CutAt       int           // >0: send only the first CutAt bytes of the block (truncation; the rest never comes)
	PauseAt     int           // >0: pause PauseFor after this many bytes (inter-character gap, T1 at the receiver)
	PauseFor    time.Duration
}

// SendBlock performs one E4 send attempt of raw (a block image, possibly corrupted by the caller).
// Result: "ack" | "nak" | "no-eot" | "no-ack" | "contention" | "other:<hex>" | "io".
func (p *E4Peer) SendBlock(raw []byte, o SendOpts) string {
	if !o.SkipENQ {
		if !o.EnqSent {
			if err := p.write("ENQ", []byte{ENQ}); err != nil {
				return "io"
			}
		}
		deadline := time.Now().Add(p.T2)
		yields := 0
		for {
			b, err := p.readByte(time.Until(deadline))
			if err != nil {
				p.log("rx", "TIMEOUT", nil)
				return "no-eot"
			}
			p.log("rx", hsName(b), []byte{b})
			if b == EOT {
				break
			}
			if b == ENQ && !p.Master {
				if o.NoYield || yields >= 8 {
					return "contention"
				}
				// the slave yields: grant the line, take the master's block, then ask again
				yields++
				if err := p.write("EOT", []byte{EOT}); err != nil {
					return "io"
				}
				raw, good, _ := p.readBlock(RecvOpts{})
				p.mu.Lock()
				p.Yielded = append(p.Yielded, E4Yield{Raw: raw, Good: good})
				p.mu.Unlock()
				if err := p.write("ENQ", []byte{ENQ}); err != nil {
					return "io"
				}
				deadline = time.Now().Add(p.T2)
			}
		}
	}
	if o.HoldBeforeBlock > 0 {
		time.Sleep(o.HoldBeforeBlock)
	}
	out := raw
	if o.CutAt > 0 && o.CutAt < len(raw) {
		out = raw[:o.CutAt]
	}
	if o.PauseAt > 0 && o.PauseAt < len(out) {
		if err := p.write("BLK", out[:o.PauseAt]); err != nil {
			return "io"
		}
		time.Sleep(o.PauseFor)
		if err := p.write("BLK", out[o.PauseAt:]); err != nil {
			return "io"
		}
	} else if err := p.write("BLK", out); err != nil {
		return "io"
	}
	b, err := p.readByte(p.T2 + p.T1*2)
	if err != nil {
		p.log("rx", "TIMEOUT", nil)
		return "no-ack"
	}
	p.log("rx", hsName(b), []byte{b})
	switch b {
	case ACK:
		return "ack"
	case NAK:
		return "nak"
	}
	return "other"
}

// RecvOpts scripts how the peer treats one inbound transmission attempt of the library.
type RecvOpts struct {
	IgnoreENQ bool // never answer the ENQ (the sender's T2 expires)
	Reply     byte // what to answer after the block: ACK (default when 0 and the block is good), NAK, or any character; 0xFF = nothing
	WrongGrant byte // answer the ENQ with this instead of EOT (0 = EOT)
}

// RecvBlock waits (up to wait) for an ENQ, grants the line and reads one block image.
// It returns the raw image (length byte .. checksum), whether length/checksum were good, and what happened.
func (p *E4Peer) RecvBlock(wait time.Duration, o RecvOpts) (raw []byte, good bool, what string) {
	deadline := time.Now().Add(wait)
	for {
		b, err := p.readByte(time.Until(deadline))
		if err != nil {
			if ne, ok := err.(net.Error); ok && ne.Timeout() {
				return nil, false, "idle"
			}
			return nil, false, "io"
		}
		p.log("rx", hsName(b), []byte{b})
		if b == ENQ {
			break
		}
	}
	if o.IgnoreENQ {
		return nil, false, "ignored-enq"
	}
	grant := byte(EOT)
	if o.WrongGrant != 0 {
		grant = o.WrongGrant
	}
	if err := p.write(hsName(grant), []byte{grant}); err != nil {
		return nil, false, "io"
	}
	if grant != EOT {
		return nil, false, "wrong-grant"
	}
	return p.readBlock(o)
}

// RecvAfterGrant reads one block when the caller has already put EOT on the line.
func (p *E4Peer) RecvAfterGrant() (raw []byte, good bool, what string) {
	p.log("tx", "EOT", []byte{EOT})
	return p.readBlock(RecvOpts{})
}

func (p *E4Peer) readBlock(o RecvOpts) (raw []byte, good bool, what string) {
	lb, err := p.readByte(p.T2)
	if err != nil {
		p.log("rx", "TIMEOUT", nil)
		_ = p.write("NAK", []byte{NAK})
		return nil, false, "no-length"
	}
	n := int(lb)
	buf := []byte{lb}
	for len(buf) < 1+n+2 {
		b, err := p.readByte(p.T1)
		if err != nil {
			p.log("rx", "BLK", buf)
			p.log("rx", "TIMEOUT", nil)
			_ = p.write("NAK", []byte{NAK})
			return buf, false, "t1"
		}
		buf = append(buf, b)
	}
	p.log("rx", "BLK", buf)
	sum := 0
	for _, b := range buf[1 : 1+n] {
		sum += int(b)
	}
	good = n >= 10 && n <= 254 && byte(sum>>8) == buf[1+n] && byte(sum) == buf[2+n]
	reply := o.Reply
	if reply == 0 {
		reply = ACK
		if !good {
			reply = NAK
		}
	}
	if reply != 0xFF {
		_ = p.write(hsName(reply), []byte{reply})
	}
	return buf, good, "block"
}

// ServeFor waits d while serving any transmission the library starts on its own.
func (p *E4Peer) ServeFor(d time.Duration) {
	end := time.Now().Add(d)
	for time.Now().Before(end) {
		raw, good, what := p.RecvBlock(time.Until(end), RecvOpts{})
		if what == "io" {
			time.Sleep(time.Until(end))
			return
		}
		if what == "block" {
			p.mu.Lock()
			p.Yielded = append(p.Yielded, E4Yield{Raw: raw, Good: good})
			p.mu.Unlock()
		}
	}
}

// NoteClosed records that the library closed the socket.
func (p *E4Peer) NoteClosed() { p.log("rx", "CLOSED", nil) }

func (p *E4Peer) Events() []E4Event {
	p.mu.Lock()
	defer p.mu.Unlock()
	return append([]E4Event{}, p.Log...)
}

func (p *E4Peer) Close() error { return p.c.Close() }

// IsClosedByRemote reports whether the library closed the connection, waiting up to d.
func (p *E4Peer) IsClosedByRemote(d time.Duration) bool {
	_ = p.c.SetReadDeadline(time.Now().Add(d))
	_, err := p.r.Peek(1)
	if err == nil {
		return false
	}
	var ne net.Error
	if errors.As(err, &ne) && ne.Timeout() {
		return false
	}
	return true
}
