package peerkit

import (
	"encoding/binary"
	"errors"
	"io"
	"net"
	"sync"
	"sync/atomic"
	"time"
)

// RxFrame is a frame the peer received from the library, with arrival time.
type RxFrame struct {
	Frame
	At time.Time
}

// PeerConn is one raw TCP connection of the scripted peer.
type PeerConn struct {
	c       net.Conn
	rx      chan RxFrame
	eof     chan struct{} // closed when the read side ends (EOF / reset / malformed)
	eofErr  error
	barrier atomic.Uint32
	mu      sync.Mutex
	TxBytes int64
	RxCount atomic.Int64
	RxRaw   [][]byte // every received frame, raw, in order (guarded by mu)
}

func newPeerConn(c net.Conn) *PeerConn {
	p := &PeerConn{c: c, rx: make(chan RxFrame, 4096), eof: make(chan struct{})}
	p.barrier.Store(0xFFF00000)
	go p.reader()
	return p
}

// DialPeer connects to a passive library endpoint.
func DialPeer(addr string, timeout time.Duration) (*PeerConn, error) {
	c, err := net.DialTimeout("tcp", addr, timeout)
	if err != nil {
		return nil, err
	}
	return newPeerConn(c), nil
}

func (p *PeerConn) reader() {
	defer close(p.eof)
	var lenBuf [4]byte
	for {
		if _, err := io.ReadFull(p.c, lenBuf[:]); err != nil {
			p.eofErr = err
			return
		}
		n := binary.BigEndian.Uint32(lenBuf[:])
		if n < 10 || n > 1<<25 {
			p.eofErr = errors.New("peer: malformed length from library")
			return
		}
		buf := make([]byte, n)
		if _, err := io.ReadFull(p.c, buf); err != nil {
			p.eofErr = err
			return
		}
		f, _ := ParseFrame(buf)
		p.mu.Lock()
		p.RxRaw = append(p.RxRaw, buf)
		p.mu.Unlock()
		p.RxCount.Add(1)
		p.rx <- RxFrame{Frame: f, At: time.Now()}
	}
}

// Write sends raw bytes in one write call.
func (p *PeerConn) Write(b []byte) error {
	_, err := p.c.Write(b)
	p.mu.Lock()
	p.TxBytes += int64(len(b))
	p.mu.Unlock()
	return err
}

// Send writes frames back to back in ONE write (pipelined in one TCP segment when small).
func (p *PeerConn) Send(frames ...Frame) error {
	var buf []byte
	for _, f := range frames {
		buf = append(buf, f.Bytes()...)
	}
	return p.Write(buf)
}

// WriteSplit writes b in pieces cut at the given offsets, pausing between pieces.
func (p *PeerConn) WriteSplit(b []byte, cuts []int, pause time.Duration) error {
	prev := 0
	for _, c := range append(append([]int{}, cuts...), len(b)) {
		if c <= prev || c > len(b) {
			continue
		}
		if err := p.Write(b[prev:c]); err != nil {
			return err
		}
		prev = c
		if c < len(b) && pause > 0 {
			time.Sleep(pause)
		}
	}
	return nil
}

// Next returns the next received frame or ok=false on timeout / EOF.
func (p *PeerConn) Next(timeout time.Duration) (RxFrame, bool) {
	select {
	case f := <-p.rx:
		return f, true
	default:
	}
	t := time.NewTimer(timeout)
	defer t.Stop()
	select {
	case f := <-p.rx:
		return f, true
	case <-p.eof:
		select {
		case f := <-p.rx:
			return f, true
		default:
		}
		return RxFrame{}, false
	case <-t.C:
		return RxFrame{}, false
	}
}

// Barrier sends a Linktest.req with a reserved system-bytes value and collects every frame received
// until the matching Linktest.rsp. ok=false: the response did not arrive (link down or timeout).
func (p *PeerConn) Barrier(timeout time.Duration) (got []RxFrame, ok bool) {
	sb := p.barrier.Add(1)
	if err := p.Send(Ctl(STLinktestReq, 0xFFFF, sb)); err != nil {
		return p.Drain(), false
	}
	deadline := time.Now().Add(timeout)
	for {
		f, more := p.Next(time.Until(deadline))
		if !more {
			return got, false
		}
		if f.ST == STLinktestRsp && f.SbU32() == sb {
			return got, true
		}
		got = append(got, f)
	}
}

// Drain returns frames already received without waiting.
func (p *PeerConn) Drain() []RxFrame {
	var got []RxFrame
	for {
		select {
		case f := <-p.rx:
			got = append(got, f)
		default:
			return got
		}
	}
}

// EOF reports whether the library closed (or reset) the connection, waiting up to d.
func (p *PeerConn) EOF(d time.Duration) bool {
	select {
	case <-p.eof:
		return true
	case <-time.After(d):
		return false
	}
}

func (p *PeerConn) Close() error { return p.c.Close() }

// Reset closes with RST (SO_LINGER 0).
func (p *PeerConn) Reset() error {
	if tc, ok := p.c.(*net.TCPConn); ok {
		_ = tc.SetLinger(0)
	}
	return p.c.Close()
}

func (p *PeerConn) RawFrames() [][]byte {
	p.mu.Lock()
	defer p.mu.Unlock()
	return append([][]byte{}, p.RxRaw...)
}

// PeerListener accepts connections from an active library endpoint.
type PeerListener struct {
	l     net.Listener
	conns chan *PeerConn
	Hold  atomic.Bool // accept but do not hand out / keep silent
}

func ListenPeer() (*PeerListener, error) {
	l, err := net.Listen("tcp", "127.0.0.1:0")
	if err != nil {
		return nil, err
	}
	pl := &PeerListener{l: l, conns: make(chan *PeerConn, 64)}
	go func() {
		for {
			c, err := l.Accept()
			if err != nil {
				return
			}
			pl.conns <- newPeerConn(c)
		}
	}()
	return pl, nil
}

func (pl *PeerListener) Addr() string { return pl.l.Addr().String() }

func (pl *PeerListener) Accept(timeout time.Duration) (*PeerConn, bool) {
	select {
	case c := <-pl.conns:
		return c, true
	case <-time.After(timeout):
		return nil, false
	}
}

func (pl *PeerListener) Close() error { return pl.l.Close() }
