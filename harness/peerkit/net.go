package peerkit

import (
	"context"
	"errors"
	"net"
	"sync"
	"sync/atomic"
	"time"
)

// Net owns every socket and listener the library under test touches. It hands out
// DialFunc / ListenFunc values for WithDialer / WithListener; each net.Conn is
// wrapped so that its generation, its Close and its byte counts are observable.
type Net struct {
	mu        sync.Mutex
	conns     []*WConn
	listeners []*WListener
	gen       atomic.Int64
	Dials     []DialRecord // every dial attempt of the library (active role)
	Listens   []time.Time  // every listen call of the library (passive role)
	DialOverlap   int      // max number of library-owned sockets still open at the moment a new dial succeeded
	ListenOverlap int      // max number of library-owned listeners still open at the moment a new Listen succeeded

	// active-role routing: where library dials go
	target  atomic.Pointer[string] // "host:port" of the peer listener; nil => refuse
	Refuse  atomic.Bool            // refuse dials (connection refused) regardless of target
	RefuseN atomic.Int32           // refuse exactly the next N dials (decremented per refused dial)
	DialGate func(n int)           // optional hook called before each dial (n = attempt index from 1)
	Trace    func(ev string)        // optional: "start-ok" | "start-fail" (a dial / Listen of the library returned)
}

func (n *Net) trace(ev string) {
	if n.Trace != nil {
		n.Trace(ev)
	}
}

type DialRecord struct {
	At  time.Time
	OK  bool
	Gen int64
}

func NewNet() *Net { return &Net{} }

var ErrRefused = errors.New("peerkit: connection refused (scripted)")

// SetTarget points library dials at addr ("" = refuse).
func (n *Net) SetTarget(addr string) {
	if addr == "" {
		n.target.Store(nil)
		return
	}
	n.target.Store(&addr)
}

// Dial is the DialFunc for an active connection under test.
func (n *Net) Dial(ctx context.Context, network, _ string) (net.Conn, error) {
	n.mu.Lock()
	idx := len(n.Dials) + 1
	n.mu.Unlock()
	if n.DialGate != nil {
		n.DialGate(idx)
	}
	rec := DialRecord{At: time.Now()}
	t := n.target.Load()
	refuseThis := false
	for {
		k := n.RefuseN.Load()
		if k <= 0 {
			break
		}
		if n.RefuseN.CompareAndSwap(k, k-1) {
			refuseThis = true
			break
		}
	}
	if t == nil || n.Refuse.Load() || refuseThis {
		n.mu.Lock()
		n.Dials = append(n.Dials, rec)
		n.mu.Unlock()
		n.trace("start-fail")
		return nil, ErrRefused
	}
	var d net.Dialer
	c, err := d.DialContext(ctx, "tcp", *t)
	if err != nil {
		n.mu.Lock()
		n.Dials = append(n.Dials, rec)
		n.mu.Unlock()
		n.trace("start-fail")
		return nil, err
	}
	n.mu.Lock()
	open := 0
	for _, oc := range n.conns {
		if !oc.closed.Load() {
			open++
		}
	}
	if open > n.DialOverlap {
		n.DialOverlap = open
	}
	n.mu.Unlock()
	w := n.wrap(c)
	rec.OK, rec.Gen = true, w.Gen
	n.mu.Lock()
	n.Dials = append(n.Dials, rec)
	n.mu.Unlock()
	n.trace("start-ok")
	return w, nil
}

// Listen is the ListenFunc for a passive connection under test: a real loopback listener on a free port.
func (n *Net) Listen(ctx context.Context, network, _ string) (net.Listener, error) {
	var lc net.ListenConfig
	l, err := lc.Listen(ctx, "tcp", "127.0.0.1:0")
	if err != nil {
		return nil, err
	}
	w := &WListener{Listener: l, n: n, Opened: time.Now()}
	n.mu.Lock()
	openL := 0
	for _, ol := range n.listeners {
		if !ol.closed.Load() {
			openL++
		}
	}
	if openL > n.ListenOverlap {
		n.ListenOverlap = openL
	}
	n.listeners = append(n.listeners, w)
	n.Listens = append(n.Listens, w.Opened)
	n.mu.Unlock()
	n.trace("start-ok")
	return w, nil
}

func (n *Net) wrap(c net.Conn) *WConn {
	w := &WConn{Conn: c, Gen: n.gen.Add(1), Opened: time.Now()}
	n.mu.Lock()
	n.conns = append(n.conns, w)
	n.mu.Unlock()
	return w
}

// CurrentListener returns the most recent live listener (passive role), or nil.
func (n *Net) CurrentListener() *WListener {
	n.mu.Lock()
	defer n.mu.Unlock()
	for i := len(n.listeners) - 1; i >= 0; i-- {
		if !n.listeners[i].closed.Load() {
			return n.listeners[i]
		}
	}
	return nil
}

// WaitListener waits for a live listener.
func (n *Net) WaitListener(d time.Duration) *WListener {
	deadline := time.Now().Add(d)
	for time.Now().Before(deadline) {
		if l := n.CurrentListener(); l != nil {
			return l
		}
		time.Sleep(200 * time.Microsecond)
	}
	return nil
}

// Overlaps returns the generation-overlap high-water marks.
func (n *Net) Overlaps() (dial, listen int) {
	n.mu.Lock()
	defer n.mu.Unlock()
	return n.DialOverlap, n.ListenOverlap
}

// OpenSockets / OpenListeners: what the library has not closed.
func (n *Net) OpenSockets() int {
	n.mu.Lock()
	defer n.mu.Unlock()
	k := 0
	for _, c := range n.conns {
		if !c.closed.Load() {
			k++
		}
	}
	return k
}

func (n *Net) OpenListeners() int {
	n.mu.Lock()
	defer n.mu.Unlock()
	k := 0
	for _, l := range n.listeners {
		if !l.closed.Load() {
			k++
		}
	}
	return k
}

func (n *Net) Conns() []*WConn {
	n.mu.Lock()
	defer n.mu.Unlock()
	return append([]*WConn{}, n.conns...)
}

func (n *Net) DialCount() int {
	n.mu.Lock()
	defer n.mu.Unlock()
	return len(n.Dials)
}

func (n *Net) DialsCopy() []DialRecord {
	n.mu.Lock()
	defer n.mu.Unlock()
	return append([]DialRecord{}, n.Dials...)
}

// WConn is a library-side socket with observation.
type WConn struct {
	net.Conn
	Gen      int64
	Opened   time.Time
	closed   atomic.Bool
	ClosedAt atomic.Int64
	Written  atomic.Int64
	Read_    atomic.Int64
	// WriteGate, when set, is called before every Write with the number of bytes (fault injection: stall / fail)
	WriteGate atomic.Pointer[func(n int) error]
}

func (w *WConn) Write(p []byte) (int, error) {
	if g := w.WriteGate.Load(); g != nil {
		if err := (*g)(len(p)); err != nil {
			return 0, err
		}
	}
	n, err := w.Conn.Write(p)
	w.Written.Add(int64(n))
	return n, err
}

func (w *WConn) Read(p []byte) (int, error) {
	n, err := w.Conn.Read(p)
	w.Read_.Add(int64(n))
	return n, err
}

func (w *WConn) Close() error {
	if w.closed.CompareAndSwap(false, true) {
		w.ClosedAt.Store(time.Now().UnixNano())
	}
	return w.Conn.Close()
}

func (w *WConn) IsClosed() bool { return w.closed.Load() }

// WListener is a library-side listener with observation; accepted conns are wrapped.
type WListener struct {
	net.Listener
	n      *Net
	Opened time.Time
	closed atomic.Bool
}

func (l *WListener) Accept() (net.Conn, error) {
	c, err := l.Listener.Accept()
	if err != nil {
		return nil, err
	}
	return l.n.wrap(c), nil
}

func (l *WListener) Close() error {
	l.closed.Store(true)
	return l.Listener.Close()
}
