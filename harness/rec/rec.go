// Package rec writes and reads the ndjson observation files exchanged with TLC.
package rec

import (
	"bufio"
	"encoding/json"
	"os"
	"sync"
)

// Writer appends one JSON object per line.
type Writer struct {
	mu sync.Mutex
	f  *os.File
	w  *bufio.Writer
	N  int
}

func Create(path string) (*Writer, error) {
	f, err := os.Create(path)
	if err != nil {
		return nil, err
	}
	return &Writer{f: f, w: bufio.NewWriterSize(f, 1<<20)}, nil
}

func (w *Writer) Emit(v any) {
	b, err := json.Marshal(v)
	if err != nil {
		panic(err)
	}
	w.mu.Lock()
	w.w.Write(b)
	w.w.WriteByte('\n')
	w.N++
	w.mu.Unlock()
}

func (w *Writer) Close() error {
	w.mu.Lock()
	defer w.mu.Unlock()
	if err := w.w.Flush(); err != nil {
		return err
	}
	return w.f.Close()
}

// ReadLines calls fn with each raw JSON line of path.
func ReadLines(path string, fn func(line []byte) error) error {
	f, err := os.Open(path)
	if err != nil {
		return err
	}
	defer f.Close()
	sc := bufio.NewScanner(f)
	sc.Buffer(make([]byte, 1<<20), 1<<28)
	for sc.Scan() {
		if len(sc.Bytes()) == 0 {
			continue
		}
		if err := fn(sc.Bytes()); err != nil {
			return err
		}
	}
	return sc.Err()
}

// Ints converts bytes to a JSON-friendly []int (never null).
func Ints(b []byte) []int {
	out := make([]int, len(b))
	for i, x := range b {
		out[i] = int(x)
	}
	return out
}
