module verif/harness

go 1.26.0

require github.com/arloliu/go-secs/v2 v2.0.0

replace github.com/arloliu/go-secs/v2 => /repo
