package main

import (
	"context"
	"encoding/json"
	"flag"
	"fmt"
	"math/rand"
	"os"
	"sync"
	"time"

	"github.com/arloliu/go-secs/v2/hsms"
	"github.com/arloliu/go-secs/v2/secs2"

	"verif/harness/lab"
	"verif/harness/peerkit"
	"verif/harness/rec"
)

func init() {
	register("recov", "link-failure enumeration: cut/stall every exchange at every byte offset, refused dials, recovery (C11)", runRecov)
}

type recovFault struct {
	Where  string `json:"where"`  // connect | select.req | select.rsp | data.primary | data.reply | linktest.req | linktest.rsp | idle | select.reject
	Dir    string `json:"dir"`    // "p2c" (peer -> library) | "c2p"
	Offset int    `json:"offset"` // bytes of the frame that made it through
	Mode   string `json:"mode"`   // close | reset | stall
}

type recovLine struct {
	T        string     `json:"t"` // "recov"
	ID       int        `json:"id"`
	Role     string     `json:"role"`
	Fault    recovFault `json:"fault"`
	Refused  int        `json:"refused"` // consecutive refused dials before the peer is reachable again (active role)
	InitUs   int        `json:"init_us"`
	MultNum  int        `json:"mult_num"`
	MultDen  int        `json:"mult_den"`
	T5Us     int        `json:"t5_us"`
	CoverMs  int        `json:"cover_ms"`  // the protocol timer that must detect a stall (0: detected by EOF/RST)
	DropUs   int        `json:"drop_us"`   // when the library noticed the failure (NotConnected notification), us since scenario start
	DialsUs  []int      `json:"dials_us"`  // library dial attempts after the fault, us since scenario start
	DialOK   []bool     `json:"dial_ok"`
	Listens  int        `json:"listens"`   // passive: listen calls after the fault
	Detected bool       `json:"detected"`  // the library left Selected/NotSelected for NotConnected after the fault
	DetectMs int        `json:"detect_ms"` // fault -> NotConnected notification
	Recovered bool      `json:"recovered"` // Selected again
	RoundTrip bool      `json:"roundtrip"` // a W data exchange in each direction worked afterwards
	ReconnDelta int     `json:"reconnects_delta"`
	SuccRedials int     `json:"succ_redials"`
	GaugeMin    int     `json:"gauge_min"`
	GaugePosWhileDown bool `json:"gauge_pos_while_down"` // Reconnecting() > 0 sampled while dials were refused
	GaugeEnd    int     `json:"gauge_end"`
	DialAfterClose int  `json:"dial_after_close"`
	JitterMs  int       `json:"max_jitter_ms"`
	Err       string    `json:"fault_msg"`
}

type backoffCfg struct {
	init time.Duration
	num, den int
	t5   time.Duration
}

var recovBackoffs = []backoffCfg{
	{20 * time.Millisecond, 2, 1, 100 * time.Millisecond},
	{15 * time.Millisecond, 3, 2, 60 * time.Millisecond},
	{40 * time.Millisecond, 1, 1, 200 * time.Millisecond},
	{400 * time.Millisecond, 2, 1, 50 * time.Millisecond}, // initial delay above T5: every sleep, the first included, is capped at T5
}

const (
	rT6 = 150 * time.Millisecond
	rT7 = 200 * time.Millisecond
	rT8 = 100 * time.Millisecond
	rLT = 60 * time.Millisecond
)

type recovScenario struct {
	id      int
	passive bool
	fault   recovFault
	refused int
	bo      backoffCfg
}

func runRecovScenario(sc recovScenario) *recovLine {
	role := map[bool]string{true: "passive", false: "active"}[sc.passive]
	line := &recovLine{T: "recov", ID: sc.id, Role: role, Fault: sc.fault, Refused: sc.refused, InitUs: int(sc.bo.init / time.Microsecond),
		MultNum: sc.bo.num, MultDen: sc.bo.den, T5Us: int(sc.bo.t5 / time.Microsecond), DialsUs: []int{}, DialOK: []bool{}}
	lt := time.Duration(0)
	if sc.fault.Where == "linktest.req" || sc.fault.Where == "linktest.rsp" || sc.fault.Where == "idle-linktest" {
		lt = rLT
	}
	noSupp := false
	cut, err := lab.NewCUT(lab.Options{Passive: sc.passive, Sid: 0x0102, T3: 300 * time.Millisecond, T5: sc.bo.t5, T6: rT6, T7: rT7, T8: rT8,
		BackoffInit: sc.bo.init, BackoffMult: float64(sc.bo.num) / float64(sc.bo.den), Linktest: lt, LinktestThreshold: 1, Suppression: &noSupp,
		CloseTimeout: time.Second, WriteTimeout: 150 * time.Millisecond})
	if err != nil {
		line.Err = err.Error()
		return line
	}
	cut.OnData = func(msg *hsms.DataMessage, ep hsms.SECS2Endpoint) {
		if msg.WaitBit() {
			_ = ep.ReplyDataMessage(context.Background(), msg, secs2.A("ok"))
		}
	}
	var pl *peerkit.PeerListener
	if !sc.passive {
		pl, _ = peerkit.ListenPeer()
		defer pl.Close()
		cut.Net.SetTarget(pl.Addr())
	}
	start := time.Now()
	us := func(t time.Time) int { return int(t.Sub(start) / time.Microsecond) }
	// jitter + gauge sampler
	stop := make(chan struct{})
	var swg sync.WaitGroup
	var down bool
	var smu sync.Mutex
	swg.Add(1)
	go func() {
		defer swg.Done()
		m := cut.Conn.Metrics()
		for {
			select {
			case <-stop:
				return
			default:
			}
			g := int(m.Reconnecting())
			smu.Lock()
			if g < line.GaugeMin {
				line.GaugeMin = g
			}
			if down && g > 0 {
				line.GaugePosWhileDown = true
			}
			smu.Unlock()
			ts := time.Now()
			time.Sleep(time.Millisecond)
			if over := int((time.Since(ts) - time.Millisecond) / time.Millisecond); over > line.JitterMs {
				line.JitterMs = over
			}
		}
	}()
	defer func() {
		close(stop)
		swg.Wait()
	}()
	if err := cut.Open(); err != nil {
		line.Err = err.Error()
		return line
	}
	defer cut.Conn.Close()

	// ---- phase A: establish up to the fault point and apply the fault
	p, err := cut.ConnectPeer(pl, 3*time.Second)
	if err != nil {
		line.Err = "connect: " + err.Error()
		return line
	}
	f := sc.fault
	partial := func(fr peerkit.Frame) {
		b := fr.Bytes()
		if f.Offset > 0 {
			_ = p.Write(b[:min(f.Offset, len(b))])
		}
	}
	var selReq peerkit.RxFrame
	established := func() bool { // bring the session to Selected normally
		if sc.passive {
			p.Send(peerkit.Ctl(peerkit.STSelectReq, 0x0102, 0x71000001))
		} else {
			fr, ok := p.Next(2 * time.Second)
			if !ok || fr.ST != peerkit.STSelectReq {
				return false
			}
			selReq = fr
			p.Send(peerkit.CtlStatus(peerkit.STSelectRsp, fr.Sid, 0, fr.SbU32()))
		}
		_, ok := p.Barrier(2 * time.Second)
		return ok && cut.WaitState("S", time.Second)
	}
	cut.TakeNotes()
	dialsBefore := cut.Net.DialCount()
	listensBefore := len(cut.Net.Listens)
	m := cut.Conn.Metrics()
	rec0 := int(m.Reconnects())
	switch f.Where {
	case "connect": // TCP connected, nothing said
	case "select.req": // passive: the peer's Select.req is cut;  active: the library's Select.req is (partly) read then the link ends
		if sc.passive {
			partial(peerkit.Ctl(peerkit.STSelectReq, 0x0102, 0x71000001))
		} else {
			p.Next(time.Second)
		}
	case "select.rsp": // active only: the peer's Select.rsp is cut
		fr, ok := p.Next(2 * time.Second)
		if !ok {
			line.Err = "no Select.req"
			return line
		}
		partial(peerkit.CtlStatus(peerkit.STSelectRsp, fr.Sid, 0, fr.SbU32()))
	case "select.reject": // active only: Select.rsp with a refusing status
		fr, ok := p.Next(2 * time.Second)
		if !ok {
			line.Err = "no Select.req"
			return line
		}
		p.Send(peerkit.CtlStatus(peerkit.STSelectRsp, fr.Sid, 2+f.Offset%3, fr.SbU32()))
	default:
		if !established() {
			line.Err = "could not establish the session before the fault"
			return line
		}
		switch f.Where {
		case "data.primary": // the peer's primary is cut
			partial(peerkit.Data(0x0102, 1, 1, true, 0x72000001, asciiBody("hello-world")))
		case "data.reply": // the library sends a primary; the peer's reply is cut
			go func() { _, _ = cut.Conn.SendDataMessage(context.Background(), 1, 3, true, secs2.A("q")) }()
			fr, ok := p.Next(time.Second)
			if ok {
				partial(peerkit.Data(fr.Sid, 1, 4, false, fr.SbU32(), asciiBody("answer")))
			}
		case "write-stall": // the peer stops reading; the library writes until its write timeout fires
			go func() {
				big := make([]byte, 6<<20)
				for i := 0; i < 3; i++ {
					_, _ = cut.Conn.SendDataMessage(context.Background(), 1, 5, false, secs2.B(big))
				}
			}()
		case "linktest.req": // the library's Linktest.req goes unanswered / the link ends right after it
			p.Next(time.Second)
		case "linktest.rsp":
			fr, ok := p.Next(time.Second)
			if ok && fr.ST == peerkit.STLinktestReq {
				partial(peerkit.Ctl(peerkit.STLinktestRsp, 0xFFFF, fr.SbU32()))
			}
		case "idle", "idle-linktest":
		}
	}
	_ = selReq
	cut.Net.RefuseN.Store(int32(sc.refused)) // exactly this many dials are refused, decided inside the dialer (no polling race)
	tFault := time.Now()
	switch f.Mode {
	case "close":
		p.Close()
	case "reset":
		p.Reset()
	case "stall": // keep the socket open and silent; a protocol timer must notice
		if f.Where == "write-stall" {
			// do not read at all: PeerConn's reader goroutine keeps draining, so close our view of it by blocking the socket buffer:
			// emulate with a tiny receive window is not portable; instead rely on the library's write timeout against a 6 MB frame
		}
	}
	smu.Lock()
	down = true
	smu.Unlock()
	// ---- phase B: the library must notice, then keep trying
	coverMs := 0
	if f.Mode == "stall" {
		switch f.Where {
		case "connect", "select.req":
			if sc.passive {
				coverMs = int(rT7 / time.Millisecond)
				if f.Offset > 0 {
					coverMs = int(rT8 / time.Millisecond)
				}
			} else {
				coverMs = int(rT6 / time.Millisecond)
			}
		case "select.rsp":
			coverMs = int(rT6 / time.Millisecond)
			if f.Offset > 0 {
				coverMs = int(rT8 / time.Millisecond)
			}
		case "data.primary", "data.reply", "linktest.rsp":
			coverMs = int(rT8 / time.Millisecond)
			if f.Offset == 0 && f.Where != "linktest.rsp" {
				coverMs = 0 // nothing of the frame arrived: an idle gap between frames, which must NOT time out
			}
			if f.Where == "linktest.rsp" && f.Offset == 0 {
				coverMs = int((rLT + rT6) / time.Millisecond)
			}
		case "linktest.req", "idle-linktest":
			coverMs = int((rLT + rT6) / time.Millisecond)
		case "write-stall":
			coverMs = 150
		}
	}
	line.CoverMs = coverMs
	idleStall := f.Mode == "stall" && coverMs == 0
	deadline := time.Now().Add(time.Duration(coverMs)*time.Millisecond + 1500*time.Millisecond)
	if idleStall {
		deadline = time.Now().Add(300 * time.Millisecond) // long enough to see that T8 does not fire on an idle gap
	}
	for time.Now().Before(deadline) {
		for _, n := range cut.TakeNotes() {
			if n.Next == "NC" && !line.Detected {
				line.Detected = true
				line.DetectMs = int(n.At.Sub(tFault) / time.Millisecond)
				line.DropUs = us(n.At)
			}
		}
		if line.Detected {
			break
		}
		time.Sleep(500 * time.Microsecond)
	}
	if f.Mode == "stall" {
		p.Close() // the stalled socket is of no further use
	}
	if idleStall && line.Detected {
		line.Err = "an idle gap between frames dropped the link"
	}
	if !line.Detected && !idleStall {
		line.Err = "the library never left the broken session"
	}
	if idleStall { // now end it for real so that the recovery half still runs
		line.Detected = false
		cut.WaitState("NC", time.Second)
		for _, n := range cut.TakeNotes() {
			if n.Next == "NC" {
				line.DropUs = us(n.At)
			}
		}
	}
	// refused dials (active): wait until the library has attempted `refused` dials, then become reachable
	if !sc.passive && sc.refused > 0 {
		dl := time.Now().Add(time.Duration(sc.refused+2) * (sc.bo.t5 + 200*time.Millisecond))
		for cut.Net.DialCount()-dialsBefore < sc.refused && time.Now().Before(dl) {
			time.Sleep(300 * time.Microsecond)
		}
	}
	smu.Lock()
	down = false
	smu.Unlock()
	// ---- phase C: recovery
	p2, err := cut.ConnectPeer(pl, time.Duration(sc.refused+3)*(sc.bo.t5+300*time.Millisecond))
	if err != nil {
		line.Err += " | no reconnect: " + err.Error()
	} else {
		defer p2.Close()
		if sc.passive {
			p2.Send(peerkit.Ctl(peerkit.STSelectReq, 0x0102, 0x71000002))
		} else if fr, ok := p2.Next(2 * time.Second); ok && fr.ST == peerkit.STSelectReq {
			p2.Send(peerkit.CtlStatus(peerkit.STSelectRsp, fr.Sid, 0, fr.SbU32()))
		}
		if _, ok := p2.Barrier(2 * time.Second); ok && cut.WaitState("S", time.Second) {
			line.Recovered = true
			// round trip both ways
			p2.Send(peerkit.Data(0x0102, 1, 1, true, 0x73000001, asciiBody("ping")))
			got, _ := p2.Barrier(2 * time.Second)
			okIn := false
			for _, g := range got {
				if g.ST == peerkit.STData && g.SbU32() == 0x73000001 && g.B3 == 2 {
					okIn = true
				}
			}
			done := make(chan bool, 1)
			go func() {
				r, e := cut.Conn.SendDataMessage(context.Background(), 2, 1, true, secs2.A("pong?"))
				done <- e == nil && r != nil
			}()
			if fr, ok := p2.Next(time.Second); ok && fr.ST == peerkit.STData {
				p2.Send(peerkit.Data(fr.Sid, 2, 2, false, fr.SbU32(), asciiBody("pong")))
			}
			okOut := false
			select {
			case okOut = <-done:
			case <-time.After(time.Second):
			}
			line.RoundTrip = okIn && okOut
		}
	}
	for _, d := range cut.Net.DialsCopy()[dialsBefore:] {
		line.DialsUs = append(line.DialsUs, us(d.At))
		line.DialOK = append(line.DialOK, d.OK)
		if d.OK {
			line.SuccRedials++
		}
	}
	line.Listens = len(cut.Net.Listens) - listensBefore
	line.ReconnDelta = int(m.Reconnects()) - rec0
	line.GaugeEnd = int(m.Reconnecting())
	// ---- no reconnect after Close
	cut.Net.Refuse.Store(true)
	if p2 != nil {
		p2.Close()
	}
	time.Sleep(2 * time.Millisecond)
	_ = cut.Conn.Close()
	n0 := cut.Net.DialCount()
	l0 := len(cut.Net.Listens)
	time.Sleep(2*sc.bo.t5 + 20*time.Millisecond)
	line.DialAfterClose = (cut.Net.DialCount() - n0) + (len(cut.Net.Listens) - l0)
	return line
}

func init() {
	register("backoff", "pure reconnect backoff step over a grid (exported real function)", func(args []string) int {
		fs := flag.NewFlagSet("backoff", flag.ExitOnError)
		out := fs.String("out", "", "observation file")
		fs.Parse(args)
		w, err := rec.Create(*out)
		if err != nil {
			fmt.Fprintln(os.Stderr, err)
			return 2
		}
		curs := []int{0, 1, 2, 3, 7, 999, 1000, 1001, 15000, 20000, 39999, 40000, 60000, 99999, 100000, 100001, 250000, 1000000, 2000000}
		ceils := []int{1, 1000, 60000, 100000, 200000, 1000000}
		mults := [][2]int{{1, 1}, {5, 4}, {3, 2}, {2, 1}, {5, 2}, {3, 1}, {8, 1}}
		for _, c := range curs {
			for _, ce := range ceils {
				for _, m := range mults {
					got := hsms.VerifNextBackoffDelay(time.Duration(c)*time.Microsecond, float64(m[0])/float64(m[1]), time.Duration(ce)*time.Microsecond)
					w.Emit(map[string]any{"t": "backoff", "cur_us": c, "num": m[0], "den": m[1], "ceil_us": ce, "got_us": int(got / time.Microsecond),
						"got_ns_rem": int(got % time.Microsecond)})
				}
			}
		}
		w.Close()
		fmt.Printf("{\"lines\": %d}\n", w.N)
		return 0
	})
}

func runRecov(args []string) int {
	fs := flag.NewFlagSet("recov", flag.ExitOnError)
	seed := fs.Int64("seed", 1, "PRNG seed")
	out := fs.String("out", "", "observation file")
	stride := fs.Int("stride", 3, "take every stride-th byte offset (1 = every offset)")
	par := fs.Int("par", 8, "scenarios in flight")
	fs.Parse(args)
	w, err := rec.Create(*out)
	if err != nil {
		fmt.Fprintln(os.Stderr, err)
		return 2
	}
	r := rand.New(rand.NewSource(*seed))
	var scs []recovScenario
	add := func(passive bool, f recovFault) {
		scs = append(scs, recovScenario{passive: passive, fault: f, refused: map[bool]int{true: 0, false: r.Intn(5)}[passive], bo: recovBackoffs[r.Intn(len(recovBackoffs))]})
	}
	off := int(*seed) % *stride
	for _, passive := range []bool{false, true} {
		frames := map[string]int{"select.req": 14, "select.rsp": 14, "data.primary": 27, "data.reply": 22, "linktest.rsp": 14}
		for where, n := range frames {
			if passive && where == "select.rsp" {
				continue
			}
			if !passive && where == "select.req" {
				for _, mode := range []string{"close", "reset", "stall"} {
					add(passive, recovFault{Where: where, Dir: "c2p", Offset: 14, Mode: mode})
				}
				continue
			}
			for o := 0; o < n; o++ {
				if *stride > 1 && o%*stride != off && o != 4 && o != 0 && o != n-1 {
					continue
				}
				for _, mode := range []string{"close", "stall", "reset"} {
					if mode == "reset" && o%2 == 1 {
						continue
					}
					add(passive, recovFault{Where: where, Dir: "p2c", Offset: o, Mode: mode})
				}
			}
		}
		for _, mode := range []string{"close", "reset", "stall"} {
			add(passive, recovFault{Where: "connect", Dir: "p2c", Mode: mode})
			add(passive, recovFault{Where: "linktest.req", Dir: "c2p", Offset: 14, Mode: mode})
		}
		add(passive, recovFault{Where: "idle", Dir: "p2c", Mode: "close"})
		add(passive, recovFault{Where: "idle", Dir: "p2c", Mode: "reset"})
		add(passive, recovFault{Where: "idle-linktest", Dir: "p2c", Mode: "stall"})
		if !passive {
			for k := 0; k < 3; k++ {
				add(passive, recovFault{Where: "select.reject", Dir: "p2c", Offset: k, Mode: "none"})
			}
			// consecutive refused dials 0..4 for each backoff configuration
			for k := 0; k <= 4; k++ {
				for _, bo := range recovBackoffs {
					scs = append(scs, recovScenario{passive: false, fault: recovFault{Where: "idle", Dir: "p2c", Mode: "close"}, refused: k, bo: bo})
				}
			}
		}
	}
	for i := range scs {
		scs[i].id = i + 1
	}
	sem := make(chan struct{}, *par)
	var wg sync.WaitGroup
	faults := 0
	var mu sync.Mutex
	for _, sc := range scs {
		wg.Add(1)
		sem <- struct{}{}
		go func(sc recovScenario) {
			defer wg.Done()
			defer func() { <-sem }()
			line := runRecovScenario(sc)
			mu.Lock()
			if line.Err != "" {
				faults++
			}
			mu.Unlock()
			w.Emit(line)
		}(sc)
	}
	wg.Wait()
	if err := w.Close(); err != nil {
		fmt.Fprintln(os.Stderr, err)
		return 2
	}
	b, _ := json.Marshal(map[string]int{"lines": w.N, "faults": faults})
	fmt.Println(string(b))
	return 0
}
