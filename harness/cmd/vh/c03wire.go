package main

import (
	"bytes"
	"context"
	"fmt"
	"math/rand"
	"time"

	"github.com/arloliu/go-secs/v2/hsms"
	"github.com/arloliu/go-secs/v2/secs2"

	"verif/harness/e5"
	"verif/harness/lab"
	"verif/harness/peerkit"
	"verif/harness/rec"
)

// c03Wire: "... which is also exactly what a connection writes to the socket for that message".
// Messages of every provenance (constructed, decoded from a frame, re-stamped, derived) are sent
// through a live Selected connection; the raw peer's received bytes are recorded next to ToBytes().
type c03WireLine struct {
	T     string `json:"t"` // "c03w"
	Prov  string `json:"prov"`
	Path  string `json:"path"`
	Frame []int  `json:"frame"` // msg.ToBytes()
	Wire  []int  `json:"wire"`  // what the peer read from the socket (length prefix included)
	Err   string `json:"err"`
}

func c03Wire(w *rec.Writer, r *rand.Rand, n int) error {
	cut, err := lab.NewCUT(lab.Options{Passive: true, Sid: 0x0102})
	if err != nil {
		return err
	}
	if err := cut.Open(); err != nil {
		return err
	}
	defer cut.Conn.Close()
	p, err := cut.ConnectPeer(nil, 5*time.Second)
	if err != nil {
		return err
	}
	defer p.Close()
	p.Send(peerkit.Ctl(peerkit.STSelectReq, 0x0102, 1))
	if _, ok := p.Barrier(3 * time.Second); !ok || cut.State() != "S" {
		return fmt.Errorf("c03wire: could not select")
	}
	ctx := context.Background()
	for i := 0; i < n; i++ {
		var item secs2.Item
		if r.Intn(6) != 0 {
			a := e5.RandItem(r, 0)
			if a.Leaves() > 30 {
				a = e5.RandLeaf(r, "U2")
			}
			item, _ = e5.Build(a, "variadic64")
		}
		f := r.Intn(256)
		base, err := hsms.NewDataMessage(uint8(r.Intn(128)), uint8(f), f%2 == 1 && r.Intn(2) == 0, uint16(r.Intn(65536)), sb4(r.Uint32()), item)
		if err != nil {
			continue
		}
		msg, prov := base, "constructed"
		switch r.Intn(5) {
		case 1:
			d, derr := hsms.DecodeHSMSMessage(base.ToBytes())
			if derr != nil {
				continue
			}
			msg, _ = d.ToDataMessage()
			prov = "decoded"
		case 2:
			d, derr := hsms.DecodeHSMSMessage(base.ToBytes())
			if derr != nil {
				continue
			}
			dm, _ := d.ToDataMessage()
			msg = dm.WithSessionID(uint16(r.Intn(65536))).WithSystemBytes(sb4(r.Uint32()))
			prov = "decoded+restamped"
		case 3:
			msg = base.WithID(r.Uint32()).WithSessionID(uint16(r.Intn(65536)))
			prov = "constructed+restamped"
		case 4:
			d, derr := hsms.DecodeHSMSPayload(base.ToBytes()[4:])
			if derr != nil {
				continue
			}
			dm, _ := d.ToDataMessage()
			nm, berr := dm.Derive().WithFunction(uint8(f | 1)).WithWaitBit(false).WithSystemBytes(sb4(r.Uint32())).Build()
			if berr != nil {
				continue
			}
			msg = nm
			prov = "decoded+derived"
		}
		line := &c03WireLine{T: "c03w", Prov: prov, Frame: rec.Ints(msg.ToBytes()), Wire: []int{}}
		before := len(p.RawFrames())
		if r.Intn(2) == 0 {
			line.Path = "ForwardDataMessage"
			err = cut.Conn.ForwardDataMessage(ctx, msg)
		} else {
			line.Path = "ForwardDataMessageAsync"
			err = cut.Conn.ForwardDataMessageAsync(ctx, msg)
		}
		if err != nil {
			line.Err = err.Error()
		}
		if _, ok := p.Barrier(3 * time.Second); !ok {
			line.Err += " barrier failed"
		}
		raws := p.RawFrames()
		for _, raw := range raws[before:] {
			if len(raw) >= 10 && raw[5] == 0 { // the data frame (the barrier's Linktest.rsp is a control frame)
				full := append([]byte{byte(len(raw) >> 24), byte(len(raw) >> 16), byte(len(raw) >> 8), byte(len(raw))}, raw...)
				line.Wire = rec.Ints(full)
			}
		}
		_ = bytes.Equal
		w.Emit(line)
	}
	return nil
}
