package main

import (
	"context"
	"encoding/json"
	"errors"
	"flag"
	"fmt"
	"os"
	"time"

	"github.com/arloliu/go-secs/v2/hsms"
	"github.com/arloliu/go-secs/v2/secs2"

	"verif/harness/lab"
	"verif/harness/peerkit"
	"verif/harness/rec"
)

func init() {
	register("stale", "a receive goroutine abandoned by a bounded teardown returns while the successor generation is Selected (C05)", runStale)
}

// staleLine: generation N's data handler wedges its receive goroutine; the generation is lost and torn down
// with a bounded Stop that abandons the straggler; generation N+1 reaches Selected; only then the handler
// returns. Nothing of generation N may touch the state of generation N+1.
type staleLine struct {
	T            string          `json:"t"` // "stale"
	Role         string          `json:"role"`
	Drop         string          `json:"drop"` // how generation N was lost
	Wedged       bool            `json:"wedged"`
	Gen2Selected bool            `json:"gen2_selected"`
	StateBefore  string          `json:"state_before_release"`
	StateAfter   string          `json:"state_after_release"`
	NotesAfter   []lab.StateNote `json:"notes_after_release"`
	Peer2Closed  bool            `json:"peer2_closed"`
	Gen2Works    bool            `json:"gen2_round_trip"`
	Fault        string          `json:"fault"`
	// t = "stale_t7": the NotSelected dwell timer of generation N against generation N+1
	T7Ms     int  `json:"t7_ms"`
	OffMs    int  `json:"off_ms"`    // generation N was ended by the peer at T7 + off
	Dwell2Us int  `json:"dwell2_us"` // peer's view: connect of generation N+1 started -> EOF from the library
	Dropped2 bool `json:"dropped2"`  // generation N+1 was ended by the library (its own T7) within the observation window
}

// staleT7Scenario: a passive endpoint, the peer connects and never selects. Generation N is ended by the peer just
// before its T7 dwell would expire; the peer reconnects at once and stays silent again. Generation N+1 must get its full
// dwell: a T7 timer armed for N that fires into N+1 would cut it short. Times are the PEER's (connect started before the
// library can have armed, EOF seen after the library dropped), so the measured dwell only ever errs on the long side.
func staleT7Scenario(offMs int) *staleLine {
	const t7 = 80 * time.Millisecond
	line := &staleLine{T: "stale_t7", Role: "passive", NotesAfter: []lab.StateNote{}, T7Ms: int(t7 / time.Millisecond), OffMs: offMs}
	cut, err := lab.NewCUT(lab.Options{Passive: true, Sid: 0x0102, T3: time.Second, T6: time.Second, T7: t7, T8: time.Second,
		CloseTimeout: 500 * time.Millisecond, BackoffInit: time.Millisecond, T5: 5 * time.Millisecond})
	if err != nil {
		line.Fault = err.Error()
		return line
	}
	if err := cut.Open(); err != nil {
		line.Fault = err.Error()
		return line
	}
	defer cut.Conn.Close()
	p1, err := cut.ConnectPeer(nil, 3*time.Second)
	if err != nil {
		line.Fault = "connect: " + err.Error()
		return line
	}
	t1 := time.Now()
	if !cut.WaitState("NS", time.Second) {
		p1.Close()
		line.Fault = "generation 1 did not reach NotSelected"
		return line
	}
	time.Sleep(time.Until(t1.Add(t7 + time.Duration(offMs)*time.Millisecond)))
	if p1.EOF(0) { // the library's own T7 was faster than the planned close: nothing to observe
		p1.Close()
		line.Fault = "generation 1 had already been dropped by its T7"
		return line
	}
	p1.Close()
	t2 := time.Now()
	p2, err := cut.ConnectPeer(nil, 3*time.Second)
	if err != nil {
		line.Fault = "reconnect: " + err.Error()
		return line
	}
	defer p2.Close()
	line.Dropped2 = p2.EOF(t7 + 2*time.Second)
	line.Dwell2Us = int(time.Since(t2) / time.Microsecond)
	return line
}

func staleScenario(passive bool, drop string) *staleLine {
	line := &staleLine{T: "stale", Role: map[bool]string{true: "passive", false: "active"}[passive], Drop: drop, NotesAfter: []lab.StateNote{}}
	opts := lab.Options{Passive: passive, Sid: 0x0102, T3: time.Second, T6: 60 * time.Millisecond, T7: 5 * time.Second, T8: time.Second,
		CloseTimeout: 100 * time.Millisecond, BackoffInit: 2 * time.Millisecond, T5: 20 * time.Millisecond}
	if drop == "linktest" {
		opts.Linktest, opts.LinktestThreshold = 50*time.Millisecond, 1
	}
	cut, err := lab.NewCUT(opts)
	if err != nil {
		line.Fault = err.Error()
		return line
	}
	gate := make(chan struct{})
	wedged := make(chan struct{}, 1)
	cut.OnData = func(msg *hsms.DataMessage, _ hsms.SECS2Endpoint) {
		if msg.Function() == 99 {
			select {
			case wedged <- struct{}{}:
			default:
			}
			select {
			case <-gate:
			case <-time.After(8 * time.Second):
			}
		}
	}
	var pl *peerkit.PeerListener
	if !passive {
		pl, err = peerkit.ListenPeer()
		if err != nil {
			line.Fault = err.Error()
			return line
		}
		defer pl.Close()
		cut.Net.SetTarget(pl.Addr())
	}
	if err := cut.Open(); err != nil {
		line.Fault = err.Error()
		return line
	}
	defer cut.Conn.Close()
	defer func() {
		select {
		case <-gate:
		default:
			close(gate)
		}
	}()
	establish := func() (*peerkit.PeerConn, bool) {
		p, err := cut.ConnectPeer(pl, 3*time.Second)
		if err != nil {
			line.Fault = "connect: " + err.Error()
			return nil, false
		}
		if passive {
			p.Send(peerkit.Ctl(peerkit.STSelectReq, 0xFFFF, 1))
			if f, ok := p.Next(2 * time.Second); !ok || f.ST != peerkit.STSelectRsp {
				line.Fault = "no Select.rsp"
				return p, false
			}
		} else {
			f, ok := p.Next(2 * time.Second)
			if !ok || f.ST != peerkit.STSelectReq {
				line.Fault = "no Select.req"
				return p, false
			}
			p.Send(peerkit.CtlStatus(peerkit.STSelectRsp, f.Sid, 0, f.SbU32()))
		}
		return p, cut.WaitState("S", 2*time.Second)
	}
	p1, ok := establish()
	if !ok {
		if line.Fault == "" {
			line.Fault = "generation 1 did not reach Selected"
		}
		return line
	}
	if drop == "writer" {
		// (1') a synchronous sender of generation 1 is stuck inside the socket write (the peer takes no bytes); the write
		// fails only after generation 2 is Selected. The caller's context is alive the whole time.
		conns := cut.Net.Conns()
		if len(conns) == 0 {
			line.Fault = "no library socket"
			return line
		}
		wgate := func(int) error {
			select {
			case wedged <- struct{}{}:
			default:
			}
			<-gate
			return errors.New("vh: late write failure of a dead generation")
		}
		conns[len(conns)-1].WriteGate.Store(&wgate)
		go func() { _, _ = cut.Conn.SendDataMessage(context.Background(), 6, 11, false, secs2.A("stuck")) }()
	} else {
		// (1) wedge the receive goroutine of generation 1 inside the data handler
		p1.Send(peerkit.Data(0x0102, 7, 99, false, 0x51000001, asciiBody("wedge")))
	}
	select {
	case <-wedged:
		line.Wedged = true
	case <-time.After(2 * time.Second):
		line.Fault = "the handler / the socket write was never entered"
		return line
	}
	// (2) lose generation 1 involuntarily
	switch drop {
	case "linktest": // the wedged loop cannot read Linktest.rsp: T6 expires
		for i := 0; i < 40 && cut.State() == "S"; i++ {
			time.Sleep(10 * time.Millisecond)
		}
	case "writer": // the peer resets the connection: the receive loop reports the loss
		p1.Reset()
	case "peer-reset": // a later write of the library fails
		p1.Reset()
		go func() { _ = cut.Conn.SendDataMessageAsync(context.Background(), 6, 11, false, nil) }()
	}
	p1.Close()
	if drop != "writer" && !cut.WaitState("NC", 3*time.Second) && drop == "linktest" {
		line.Fault = "generation 1 was never dropped"
		return line
	}
	// (3) generation 2 comes up while the straggler is still wedged
	var p2 *peerkit.PeerConn
	for try := 0; try < 6 && p2 == nil; try++ {
		line.Fault = ""
		p, ok := establish()
		if ok {
			p2 = p
		} else if p != nil {
			p.Close()
		}
	}
	if p2 == nil {
		if line.Fault == "" {
			line.Fault = "generation 2 did not reach Selected"
		}
		return line
	}
	defer p2.Close()
	line.Gen2Selected = true
	// the peer of generation 2 is healthy: it answers every Linktest.req of the library
	serve := func(d time.Duration) (sawOwnRsp bool) {
		end := time.Now().Add(d)
		for time.Now().Before(end) {
			f, ok := p2.Next(5 * time.Millisecond)
			if !ok {
				continue
			}
			switch {
			case f.ST == peerkit.STLinktestReq:
				p2.Send(peerkit.Ctl(peerkit.STLinktestRsp, 0xFFFF, f.SbU32()))
			case f.ST == peerkit.STLinktestRsp && f.SbU32() == 0x77:
				sawOwnRsp = true
			}
		}
		return sawOwnRsp
	}
	serve(150 * time.Millisecond)
	cut.TakeNotes()
	line.StateBefore = cut.State()
	if line.StateBefore != "S" {
		line.Fault = "generation 2 did not stay Selected before the release (harness)"
		return line
	}
	// (4) only now the blocked handler returns
	close(gate)
	serve(400 * time.Millisecond)
	line.StateAfter = cut.State()
	line.NotesAfter = append(line.NotesAfter, cut.TakeNotes()...)
	line.Peer2Closed = p2.EOF(0)
	// generation 2 still serves a round trip
	p2.Send(peerkit.Ctl(peerkit.STLinktestReq, 0xFFFF, 0x77))
	line.Gen2Works = serve(300 * time.Millisecond)
	return line
}

func runStale(args []string) int {
	fs := flag.NewFlagSet("stale", flag.ExitOnError)
	out := fs.String("out", "", "observation file")
	reps := fs.Int("reps", 2, "repetitions per configuration")
	fs.Parse(args)
	w, err := rec.Create(*out)
	if err != nil {
		fmt.Fprintln(os.Stderr, err)
		return 2
	}
	for i := 0; i < *reps; i++ {
		for _, passive := range []bool{true, false} {
			w.Emit(staleScenario(passive, "linktest"))
			w.Emit(staleScenario(passive, "writer"))
		}
		for _, off := range []int{-9, -6, -4, -2} {
			w.Emit(staleT7Scenario(off))
		}
	}
	if err := w.Close(); err != nil {
		fmt.Fprintln(os.Stderr, err)
		return 2
	}
	b, _ := json.Marshal(map[string]int{"lines": w.N})
	fmt.Println(string(b))
	return 0
}
