package main

import (
	"bytes"
	"encoding/json"
	"flag"
	"fmt"
	"math/rand"
	"os"

	"github.com/arloliu/go-secs/v2/secs2"

	"verif/harness/e5"
	"verif/harness/rec"
)

func init() {
	register("c01", "build items via every constructor shape, record encode/decode observations", runC01)
}

type c01Line struct {
	T      string    `json:"t"` // "c01"
	ID     int       `json:"id"`
	Src    string    `json:"src"`
	Item   *e5.AItem `json:"item"`
	Shapes []string  `json:"shapes"`
	Panic  string    `json:"panic"`
	ErrStr string    `json:"err"`
	Bytes  []int     `json:"bytes"`
	EncLen int       `json:"enclen"`
	Append bool      `json:"append_ok"`
	Det    bool      `json:"det"`
	DecOK  bool      `json:"dec_ok"`
	Dec    *e5.AItem `json:"dec"`
	Equal  bool      `json:"equal"`
	Owned  bool      `json:"owned_same"`
}

type c01RLLine struct {
	T       string         `json:"t"` // "c01rl"
	ID      int            `json:"id"`
	RL      map[string]any `json:"rl"`
	Shape   string         `json:"shape"`
	Panic   string         `json:"panic"`
	ErrStr  string         `json:"err"`
	Hdr     []int          `json:"hdr"`
	Unit    []int          `json:"unit"`
	Total   int            `json:"total"`
	Uniform bool           `json:"uniform"`
	EncLen  int            `json:"enclen"`
	DecEq   bool           `json:"dec_eq"`
	Det     bool           `json:"det"`
	LSH     []int          `json:"lsh"`
}

func safeBuild(a *e5.AItem, shape string) (it secs2.Item, ok bool, pan string) {
	defer func() {
		if r := recover(); r != nil {
			pan = fmt.Sprint(r)
			ok = true
		}
	}()
	it, ok = e5.Build(a, shape)
	return
}

// observeC01 runs every applicable shape and emits one line per distinct outcome.
func observeC01(w *rec.Writer, id int, src string, a *e5.AItem, r *rand.Rand) {
	type grp struct {
		it     secs2.Item
		shapes []string
	}
	groups := map[string]*grp{}
	order := []string{}
	for _, shape := range e5.Shapes {
		it, ok, pan := safeBuild(a, shape)
		if !ok {
			continue
		}
		if pan != "" {
			w.Emit(&c01Line{T: "c01", ID: id, Src: src, Item: a, Shapes: []string{shape}, Panic: pan, Bytes: []int{}})
			continue
		}
		if err := it.Error(); err != nil {
			w.Emit(&c01Line{T: "c01", ID: id, Src: src, Item: a, Shapes: []string{shape}, ErrStr: err.Error(), Bytes: []int{}})
			continue
		}
		key := string(it.ToBytes())
		g := groups[key]
		if g == nil {
			g = &grp{it: it}
			groups[key] = g
			order = append(order, key)
		}
		g.shapes = append(g.shapes, shape)
	}
	for _, key := range order {
		g := groups[key]
		w.Emit(observeItem(id, src, a, g.it, g.shapes, r))
	}
}

func observeItem(id int, src string, a *e5.AItem, it secs2.Item, shapes []string, r *rand.Rand) (line *c01Line) {
	line = &c01Line{T: "c01", ID: id, Src: src, Item: a, Shapes: shapes, Bytes: []int{}}
	defer func() {
		if p := recover(); p != nil {
			line.Panic = fmt.Sprint(p)
		}
	}()
	b := it.ToBytes()
	line.Bytes = rec.Ints(b)
	line.EncLen = it.EncodedLen()
	// determinism
	line.Det = bytes.Equal(b, it.ToBytes()) && bytes.Equal(b, it.AppendTo(nil))
	// append keeps the prefix (with and without spare capacity holding garbage)
	plen := 1 + r.Intn(9)
	prefix := make([]byte, plen)
	r.Read(prefix)
	buf := make([]byte, plen, plen+r.Intn(2)*(len(b)+7))
	copy(buf, prefix)
	for i := plen; i < cap(buf); i++ {
		buf[:cap(buf)][i] = 0xEE
	}
	out := it.AppendTo(buf)
	line.Append = len(out) == plen+len(b) && bytes.Equal(out[:plen], prefix) && bytes.Equal(out[plen:], b)
	// decode back
	d, err := secs2.Decode(b)
	if err == nil {
		if pd, perr := e5.Project(d); perr == nil {
			line.DecOK = true
			line.Dec = pd
		} else {
			line.ErrStr = "project(decoded): " + perr.Error()
		}
		line.Equal = secs2.Equal(it, d) && secs2.Equal(d, it) && secs2.Equal(it, it)
		o, oerr := secs2.DecodeOwned(bytes.Clone(b))
		line.Owned = oerr == nil && secs2.Equal(o, d) && bytes.Equal(o.ToBytes(), d.ToBytes())
	} else {
		line.ErrStr = "decode: " + err.Error()
	}
	return line
}

// buildRL realises a run-length leaf (n copies of one element) directly with typed slices.
func buildRL(k string, n int, x []byte, shape string) (secs2.Item, bool) {
	switch k {
	case "LOC":
		return secs2.NewLocalizedStrItem(0x0102, string(bytes.Repeat(x, n))), true
	case "A":
		if shape == "ctor" {
			return secs2.NewASCIIItem(string(bytes.Repeat(x, n))), true
		}
		return secs2.A(string(bytes.Repeat(x, n))), true
	case "J":
		if shape == "ctor" {
			return secs2.NewJIS8Item(string(bytes.Repeat(x, n))), true
		}
		return secs2.J(string(bytes.Repeat(x, n))), true
	case "B":
		if shape == "ctor" {
			return secs2.NewBinaryItem(bytes.Repeat(x, n)), true
		}
		return secs2.B(bytes.Repeat(x, n)), true
	case "BOOL":
		s := make([]bool, n)
		for i := range s {
			s[i] = x[0] != 0
		}
		if shape == "ctor" {
			return secs2.NewBooleanItem(s), true
		}
		return secs2.BOOLEAN(s), true
	}
	one := &e5.AItem{K: k, Elems: [][]byte{x}}
	switch {
	case e5.IsSigned(k):
		v := one.Int64s()[0]
		if shape == "narrow-slice" {
			switch e5.Width(k) {
			case 1:
				s := make([]int8, n)
				for i := range s {
					s[i] = int8(v)
				}
				return secs2.I1(s), true
			case 4:
				s := make([]int32, n)
				for i := range s {
					s[i] = int32(v)
				}
				return secs2.I4(s), true
			}
		}
		s := make([]int64, n)
		for i := range s {
			s[i] = v
		}
		return secs2.NewIntItem(e5.Width(k), s), true
	case e5.IsUnsigned(k):
		v := one.Uint64s()[0]
		if shape == "narrow-slice" && e5.Width(k) == 2 {
			s := make([]uint16, n)
			for i := range s {
				s[i] = uint16(v)
			}
			return secs2.U2(s), true
		}
		s := make([]uint64, n)
		for i := range s {
			s[i] = v
		}
		return secs2.NewUintItem(e5.Width(k), s), true
	default:
		v := one.Float64s()[0]
		if shape == "narrow-slice" && e5.Width(k) == 4 {
			s := make([]float32, n)
			for i := range s {
				s[i] = float32(v)
			}
			return secs2.F4(s), true
		}
		s := make([]float64, n)
		for i := range s {
			s[i] = v
		}
		return secs2.NewFloatItem(e5.Width(k), s), true
	}
}

func observeRL(w *rec.Writer, id int, rl map[string]any) {
	k := rl["k"].(string)
	n := int(rl["n"].(float64))
	xb, _ := json.Marshal(rl["x"])
	wd := e5.Width(k)
	var x []byte
	switch {
	case k == "B" || k == "A" || k == "J" || k == "BOOL" || k == "LOC":
		var v int
		json.Unmarshal(xb, &v)
		x = []byte{byte(v)}
	default:
		var v []int
		json.Unmarshal(xb, &v)
		x = make([]byte, len(v))
		for i, e := range v {
			x[i] = byte(e)
		}
	}
	for _, shape := range []string{"slice64", "narrow-slice"} {
		if shape == "narrow-slice" {
			shape2 := map[string]string{"A": "ctor", "J": "ctor", "B": "ctor", "BOOL": "ctor"}[k]
			if shape2 != "" {
				shape = shape2
			}
		}
		if k == "LOC" && shape != "slice64" {
			continue
		}
		line := &c01RLLine{T: "c01rl", ID: id, RL: rl, Shape: shape, Hdr: []int{}, Unit: []int{}, LSH: []int{}}
		func() {
			defer func() {
				if p := recover(); p != nil {
					line.Panic = fmt.Sprint(p)
				}
			}()
			it, ok := buildRL(k, n, x, shape)
			if !ok {
				line = nil
				return
			}
			if err := it.Error(); err != nil {
				line.ErrStr = err.Error()
				return
			}
			b := it.ToBytes()
			line.Total = len(b)
			line.EncLen = it.EncodedLen()
			hl := len(b) - n*wd
			if k == "LOC" {
				hl -= 2
			}
			if hl < 0 || hl > 4 {
				line.ErrStr = fmt.Sprintf("implausible header length %d", hl)
				return
			}
			line.Hdr = rec.Ints(b[:hl])
			body := b[hl:]
			if k == "LOC" {
				line.LSH = rec.Ints(body[:2])
				body = body[2:]
			}
			unit := body[:wd]
			line.Unit = rec.Ints(unit)
			line.Uniform = bytes.Equal(body, bytes.Repeat(unit, n))
			line.Det = bytes.Equal(b, it.AppendTo(nil))
			d, err := secs2.Decode(b)
			line.DecEq = err == nil && secs2.Equal(it, d) && d.Size() == it.Size() && bytes.Equal(d.ToBytes(), b)
		}()
		if line != nil {
			w.Emit(line)
		}
	}
}

func runC01(args []string) int {
	fs := flag.NewFlagSet("c01", flag.ExitOnError)
	cases := fs.String("cases", "", "TLC-enumerated cases (ndjson)")
	rl := fs.String("rl", "", "TLC-enumerated run-length cases (ndjson)")
	nrand := fs.Int("rand", 0, "number of random trees")
	seed := fs.Int64("seed", 1, "PRNG seed")
	out := fs.String("out", "", "observation file")
	fs.Parse(args)
	w, err := rec.Create(*out)
	if err != nil {
		fmt.Fprintln(os.Stderr, err)
		return 2
	}
	r := rand.New(rand.NewSource(*seed))
	if *cases != "" {
		err := rec.ReadLines(*cases, func(line []byte) error {
			var c struct {
				ID   int       `json:"id"`
				Item *e5.AItem `json:"item"`
			}
			if err := json.Unmarshal(line, &c); err != nil {
				return err
			}
			observeC01(w, c.ID, "enum", c.Item, r)
			return nil
		})
		if err != nil {
			fmt.Fprintln(os.Stderr, "cases:", err)
			return 2
		}
	}
	if *rl != "" {
		err := rec.ReadLines(*rl, func(line []byte) error {
			var c struct {
				ID int            `json:"id"`
				RL map[string]any `json:"rl"`
			}
			if err := json.Unmarshal(line, &c); err != nil {
				return err
			}
			observeRL(w, c.ID, c.RL)
			return nil
		})
		if err != nil {
			fmt.Fprintln(os.Stderr, "rl:", err)
			return 2
		}
	}
	for i := 0; i < *nrand; i++ {
		observeC01(w, 1000000+i, "rand", e5.RandItem(r, 0), r)
	}
	if err := w.Close(); err != nil {
		fmt.Fprintln(os.Stderr, err)
		return 2
	}
	fmt.Printf("{\"lines\": %d}\n", w.N)
	return 0
}
