package main

import (
	"context"
	"encoding/json"
	"flag"
	"fmt"
	"os"
	"sync"
	"time"

	"github.com/arloliu/go-secs/v2/hsmsss"
	"github.com/arloliu/go-secs/v2/secs2"

	"verif/harness/lab"
	"verif/harness/peerkit"
	"verif/harness/rec"
)

func init() {
	register("c19", "linktest: pure accounting rules over a grid + peer personalities end to end", runC19)
}

const (
	ltInterval = 100 * time.Millisecond
	ltT6       = 50 * time.Millisecond
)

type c19E2E struct {
	T          string `json:"t"` // "lte2e"
	Persona    string `json:"persona"`
	Suppress   bool   `json:"suppress"`
	Threshold  int    `json:"threshold"`
	IntervalMs int    `json:"interval_ms"`
	T6Ms       int    `json:"t6_ms"`
	Dropped    bool   `json:"dropped"`
	ProbesTotal int   `json:"probes_total"`
	ProbesAfterLife int `json:"probes_after_last_life"` // Linktest.req seen after the peer's last frame
	DropMs     int    `json:"drop_ms"`                  // last sign of life -> socket closed by the library
	DurationMs int    `json:"duration_ms"`
	ProbeNearTraffic int `json:"probes_near_traffic"`    // probes received < interval after the last frame in either direction
	ProbeWhileInflight int `json:"probes_while_inflight"` // probes received while a W-bit send of the library was outstanding
	MinProbeGapMs int  `json:"min_probe_gap_ms"`
	MaxProbeGapMs int  `json:"max_probe_gap_ms"`
	JitterMs   int    `json:"max_jitter_ms"`
	State      string `json:"state"`
	Fault      string `json:"fault"`
}

func c19Scenario(persona string, suppress bool, threshold int) *c19E2E {
	line := &c19E2E{T: "lte2e", Persona: persona, Suppress: suppress, Threshold: threshold, IntervalMs: int(ltInterval / time.Millisecond),
		T6Ms: int(ltT6 / time.Millisecond), MinProbeGapMs: 1 << 30}
	cut, err := lab.NewCUT(lab.Options{Passive: true, Sid: 0x0102, T3: 5 * time.Second, T6: ltT6, T7: 30 * time.Second, T8: 2 * time.Second,
		Linktest: ltInterval, LinktestThreshold: threshold, Suppression: &suppress, BackoffInit: time.Second, T5: 2 * time.Second})
	if err != nil {
		line.Fault = err.Error()
		return line
	}
	if err := cut.Open(); err != nil {
		line.Fault = err.Error()
		return line
	}
	defer cut.Conn.Close()
	p, err := cut.ConnectPeer(nil, 3*time.Second)
	if err != nil {
		line.Fault = err.Error()
		return line
	}
	defer p.Close()
	stopJ := make(chan struct{})
	var jwg sync.WaitGroup
	jwg.Add(1)
	go func() {
		defer jwg.Done()
		for {
			select {
			case <-stopJ:
				return
			default:
			}
			ts := time.Now()
			time.Sleep(time.Millisecond)
			if over := int((time.Since(ts) - time.Millisecond) / time.Millisecond); over > line.JitterMs {
				line.JitterMs = over
			}
		}
	}()
	defer func() { close(stopJ); jwg.Wait() }()
	p.Send(peerkit.Ctl(peerkit.STSelectReq, 0x0102, 1))
	if f, ok := p.Next(2 * time.Second); !ok || f.ST != peerkit.STSelectRsp {
		line.Fault = "no Select.rsp"
		return line
	}
	start := time.Now()
	lastLife := start    // last frame the peer sent
	lastTraffic := start // last frame in either direction (as the peer sees it)
	var lastProbe time.Time
	inflight := false
	if persona == "inflight" {
		go func() {
			ctx, cancel := context.WithTimeout(context.Background(), 4*time.Second)
			defer cancel()
			_, _ = cut.Conn.SendDataMessage(ctx, 1, 1, true, secs2.A("held"))
		}()
	}
	sendSeq := uint32(0x55000000)
	observe := 14 * ltInterval
	if persona == "silent" || persona == "silent-own-sends" {
		observe = time.Duration(threshold+3) * (ltInterval + ltT6 + 30*time.Millisecond)
	}
	nextChat := start.Add(20 * time.Millisecond)
	var pendingOwnSend time.Time
	for time.Since(start) < observe {
		if persona == "chatty" && time.Now().After(nextChat) {
			sendSeq++
			p.Send(peerkit.Data(0x0102, 6, 11, false, sendSeq, asciiBody("chat")))
			lastLife, lastTraffic = time.Now(), time.Now()
			nextChat = time.Now().Add(25 * time.Millisecond)
		}
		if !pendingOwnSend.IsZero() && time.Now().After(pendingOwnSend) {
			pendingOwnSend = time.Time{}
			_, _ = cut.Conn.SendDataMessage(context.Background(), 6, 11, false, secs2.A("own"))
		}
		f, ok := p.Next(2 * time.Millisecond)
		if !ok {
			if p.EOF(0) {
				line.Dropped = true
				line.DropMs = int(time.Since(lastLife) / time.Millisecond)
				break
			}
			continue
		}
		switch {
		case f.ST == peerkit.STLinktestReq:
			line.ProbesTotal++
			if f.At.After(lastLife) {
				line.ProbesAfterLife++
			}
			if f.At.Sub(lastTraffic) < ltInterval-20*time.Millisecond {
				line.ProbeNearTraffic++
			}
			if inflight {
				line.ProbeWhileInflight++
			}
			if !lastProbe.IsZero() {
				gap := int(f.At.Sub(lastProbe) / time.Millisecond)
				if gap < line.MinProbeGapMs {
					line.MinProbeGapMs = gap
				}
				if gap > line.MaxProbeGapMs {
					line.MaxProbeGapMs = gap
				}
			}
			lastProbe = f.At
			lastTraffic = f.At
			switch persona {
			case "answering":
				p.Send(peerkit.Ctl(peerkit.STLinktestRsp, 0xFFFF, f.SbU32()))
				lastLife, lastTraffic = time.Now(), time.Now()
				line.ProbesAfterLife = 0
			case "slow": // answers every probe, but only after T6 has expired
				go func(sb uint32) {
					time.Sleep(ltT6 + 40*time.Millisecond)
					p.Send(peerkit.Ctl(peerkit.STLinktestRsp, 0xFFFF, sb))
				}(f.SbU32())
			case "intermittent": // shows some other sign of life after each probe timed out
				go func() {
					time.Sleep(ltT6 + 40*time.Millisecond)
					sendSeq++
					p.Send(peerkit.Data(0x0102, 6, 11, false, sendSeq, asciiBody("alive")))
				}()
			case "silent-own-sends": // the LOCAL application writes right after each probe timeout
				pendingOwnSend = f.At.Add(ltT6 + 25*time.Millisecond)
			}
		case f.ST == peerkit.STData:
			lastTraffic = f.At
			if f.B2&0x80 != 0 {
				inflight = true // never answered in this scenario
			}
		default:
			lastTraffic = f.At
		}
		if persona == "slow" || persona == "intermittent" {
			// life is shown asynchronously; treat the whole run as "alive" for the after-life counter
			line.ProbesAfterLife = 0
			lastLife = time.Now()
		}
	}
	if line.MinProbeGapMs == 1<<30 {
		line.MinProbeGapMs = 0
	}
	line.DurationMs = int(time.Since(start) / time.Millisecond)
	line.State = cut.State()
	return line
}

func runC19(args []string) int {
	fs := flag.NewFlagSet("c19", flag.ExitOnError)
	out := fs.String("out", "", "observation file")
	e2e := fs.Bool("e2e", true, "run the end-to-end personalities")
	fs.Parse(args)
	w, err := rec.Create(*out)
	if err != nil {
		fmt.Fprintln(os.Stderr, err)
		return 2
	}
	// ---- pure rules over the full small grid
	for _, sup := range []bool{false, true} {
		for recvNow := int64(0); recvNow <= 5; recvNow++ {
			for sentAt := int64(0); sentAt <= 5; sentAt++ {
				for infl := int64(0); infl <= 2; infl++ {
					w.Emit(map[string]any{"t": "ltrecheck", "suppress": sup, "recv_now": recvNow, "sent_at": sentAt, "inflight": infl,
						"got": hsmsss.VerifLinktestDisconnectRecheck(sup, infl, recvNow, sentAt)})
					for fails := 0; fails <= 3; fails++ {
						for ralf := int64(0); ralf <= 5; ralf++ {
							nf, nr, cr := hsmsss.VerifLinktestFailureStep(sup, recvNow, sentAt, infl, fails, ralf)
							w.Emit(map[string]any{"t": "ltstep", "suppress": sup, "recv_now": recvNow, "sent_at": sentAt, "inflight": infl,
								"fails": fails, "ralf": ralf, "got_fails": nf, "got_ralf": nr, "got_credited": cr})
						}
					}
				}
			}
		}
	}
	if *e2e {
		type job struct {
			persona string
			sup     bool
			th      int
		}
		var jobs []job
		for _, persona := range []string{"silent", "answering", "slow", "chatty", "inflight", "intermittent", "silent-own-sends"} {
			for _, sup := range []bool{true, false} {
				for _, th := range []int{1, 2, 3} {
					if persona == "silent-own-sends" && !sup {
						continue
					}
					jobs = append(jobs, job{persona, sup, th})
				}
			}
		}
		var wg sync.WaitGroup
		sem := make(chan struct{}, 13)
		for _, j := range jobs {
			wg.Add(1)
			sem <- struct{}{}
			go func(j job) {
				defer wg.Done()
				defer func() { <-sem }()
				var line *c19E2E
				for try := 0; try < 3; try++ { // a scenario disturbed by scheduler noise is repeated, not judged
					line = c19Scenario(j.persona, j.sup, j.th)
					if line.JitterMs <= 20 && line.Fault == "" {
						break
					}
				}
				w.Emit(line)
			}(j)
		}
		wg.Wait()
	}
	if err := w.Close(); err != nil {
		fmt.Fprintln(os.Stderr, err)
		return 2
	}
	b, _ := json.Marshal(map[string]int{"lines": w.N})
	fmt.Println(string(b))
	return 0
}
