package main

import (
	"context"
	"encoding/json"
	"errors"
	"flag"
	"fmt"
	"math/rand"
	"os"
	"runtime"
	"strings"
	"sync"
	"sync/atomic"
	"time"

	"github.com/arloliu/go-secs/v2/hsms"
	"github.com/arloliu/go-secs/v2/secs2"

	"verif/harness/lab"
	"verif/harness/peerkit"
	"verif/harness/rec"
)

func init() {
	register("life", "concurrent Open/Close/send/config histories against a misbehaving peer; leak and latency audit (C10)", runLife)
}

const (
	lifeCloseTimeout = 300 * time.Millisecond
	lifeT5           = 40 * time.Millisecond
)

type lifeOp struct {
	G      int    `json:"g"` // API goroutine
	Op     string `json:"op"`
	Res    string `json:"res"`
	Ms     int    `json:"ms"`
	Hung   bool   `json:"hung"`
	Panic  string `json:"panic"`
}

type lifeLine struct {
	T            string   `json:"t"` // "life"
	ID           int      `json:"id"`
	Role         string   `json:"role"`
	Ops          []lifeOp `json:"ops"`
	CloseTimeoutMs int    `json:"close_timeout_ms"`
	DialOverlap    int    `json:"dial_overlap"`   // library sockets still open when a new dial succeeded (max over the history)
	ListenOverlap  int    `json:"listen_overlap"` // library listeners still open when a new Listen succeeded
	FinalCloseMs int      `json:"final_close_ms"`
	FinalCloseRes string  `json:"final_close_res"`
	SecondCloseRes string `json:"second_close_res"`
	SecondCloseMs int     `json:"second_close_ms"`
	StateAfterClose string `json:"state_after_close"`
	OpenSockets  int      `json:"open_sockets"`
	OpenListeners int     `json:"open_listeners"`
	DialsAfterClose int   `json:"dials_after_close"`
	LibGoroutines int     `json:"lib_goroutines"`
	LeakSample   string   `json:"leak_sample"`
	NotesAfterClose int   `json:"notes_after_close"`
	// Open-while-open probe (taken at a quiescent open point before the final Close)
	ProbeDone    bool     `json:"probe_done"`
	ProbeRes     string   `json:"probe_res"`
	ProbeNewSockets int   `json:"probe_new_sockets"`
	ProbeNewDials int     `json:"probe_new_dials"`
	ProbeStateSame bool   `json:"probe_state_same"`
	// reopen
	ReopenOK     bool     `json:"reopen_ok"`
	ReopenRoundTrip bool  `json:"reopen_roundtrip"`
	ReopenCloseMs int     `json:"reopen_close_ms"`
	Kind         string   `json:"kind"`             // "random" | "accept-race" | "open-during-reconnect"
	ReachedSelected bool  `json:"reached_selected"` // with a well-behaved, reachable peer the open connection got (back) to Selected
	JitterMs     int      `json:"max_jitter_ms"`
	Fault        string   `json:"fault"`
	trace        *lifeTrace
}

// lifeEv is one entry of the scenario-wide event log (one mutex, one total order) used for trace validation against
// impl/Connection: API calls and returns, the library's Start attempts as seen by the harness-owned net, and what the
// peer does (logged BEFORE the peer acts, so the log never runs behind the library).
type lifeEv struct {
	K   string `json:"k"` // call | ret | start-ok | start-fail | selected | peerdrop
	G   int    `json:"g"`
	C   string `json:"c"` // caller name for the model ("c0", "c1", ...)
	Op  string `json:"op"`
	Res string `json:"res"`
}

type lifeLog struct {
	mu     sync.Mutex
	evs    []lifeEv
	frozen bool
}

func (l *lifeLog) add(e lifeEv) {
	if l == nil {
		return
	}
	l.mu.Lock()
	if !l.frozen {
		e.C = fmt.Sprintf("c%d", e.G)
		l.evs = append(l.evs, e)
	}
	l.mu.Unlock()
}

type lifeTrace struct {
	T      string   `json:"t"` // "lifetrace"
	ID     int      `json:"id"`
	Role   string   `json:"role"`
	Events []lifeEv `json:"events"`
}

func lifeErr(err error) string {
	switch {
	case err == nil:
		return "nil"
	case errors.Is(err, hsms.ErrAlreadyOpen):
		return "already-open"
	case errors.Is(err, hsms.ErrNotOpen):
		return "not-open"
	case errors.Is(err, hsms.ErrCloseTimeout):
		return "close-timeout"
	case errors.Is(err, hsms.ErrConnClosed):
		return "closed"
	case errors.Is(err, hsms.ErrNotSelectedState):
		return "not-selected"
	case errors.Is(err, hsms.ErrT3Timeout):
		return "t3"
	case errors.Is(err, context.DeadlineExceeded), errors.Is(err, context.Canceled):
		return "ctx"
	}
	s := err.Error()
	if strings.Contains(s, "write tcp") || strings.Contains(s, "broken pipe") || strings.Contains(s, "use of closed") || strings.Contains(s, "connection reset") {
		return "write-error"
	}
	if strings.Contains(s, "dial") || strings.Contains(s, "refused") || strings.Contains(s, "listen") {
		return "start-failed"
	}
	return "other:" + s
}

// libGoroutines counts goroutines that have a frame of the library on their stack (and none of the harness driver).
func libGoroutines() (int, string) {
	buf := make([]byte, 4<<20)
	n := runtime.Stack(buf, true)
	count, sample := 0, ""
	for _, g := range strings.Split(string(buf[:n]), "\n\n") {
		if strings.Contains(g, "github.com/arloliu/go-secs/v2/") && !strings.Contains(g, "main.runLife") && !strings.Contains(g, "main.lifeScenario") {
			count++
			if sample == "" {
				lines := strings.Split(g, "\n")
				if len(lines) > 7 {
					lines = lines[:7]
				}
				sample = strings.Join(lines, " | ")
			}
		}
	}
	return count, sample
}

// peerBot keeps (mis)behaving: connect / select / hold / drop / stall / stay away.
type peerBot struct {
	cut   *lab.CUT
	pl    *peerkit.PeerListener
	r     *rand.Rand
	stop  chan struct{}
	done  chan struct{}
	wellBehaved atomic.Bool // when set: always connect, select and keep the session
	wellSession atomic.Bool // a well-behaved session is established and being held
	cur   atomic.Pointer[peerkit.PeerConn]
	log   *lifeLog
}

func (b *peerBot) run() {
	defer close(b.done)
	for {
		select {
		case <-b.stop:
			if p := b.cur.Load(); p != nil {
				b.log.add(lifeEv{K: "peerdrop"})
				p.Close()
			}
			return
		default:
		}
		well := b.wellBehaved.Load()
		mood := b.r.Intn(6)
		if well {
			mood = 0
		}
		if mood == 5 { // stay away for a bit (active: refuse dials)
			b.cut.Net.Refuse.Store(true)
			time.Sleep(time.Duration(5+b.r.Intn(40)) * time.Millisecond)
			b.cut.Net.Refuse.Store(false)
			continue
		}
		p, err := b.cut.ConnectPeer(b.pl, 60*time.Millisecond)
		if err != nil {
			continue
		}
		b.cur.Store(p)
		sel := mood != 4 // mood 4: connect but never select (stall)
		if sel {
			if b.cut.Passive {
				b.log.add(lifeEv{K: "selected"})
				p.Send(peerkit.Ctl(peerkit.STSelectReq, 0x0102, b.r.Uint32()|1))
			} else if f, ok := p.Next(100 * time.Millisecond); ok && f.ST == peerkit.STSelectReq {
				b.log.add(lifeEv{K: "selected"})
				p.Send(peerkit.CtlStatus(peerkit.STSelectRsp, f.Sid, 0, f.SbU32()))
			}
		}
		hold := time.Duration(3+b.r.Intn(60)) * time.Millisecond
		if well {
			hold = time.Hour
		}
		deadline := time.Now().Add(hold)
		b.wellSession.Store(well && sel)
		// while holding: answer W primaries so that sends can succeed
		for time.Now().Before(deadline) {
			select {
			case <-b.stop:
				b.log.add(lifeEv{K: "peerdrop"})
				p.Close()
				return
			default:
			}
			if well != b.wellBehaved.Load() {
				break
			}
			f, ok := p.Next(2 * time.Millisecond)
			if !ok {
				if p.EOF(0) {
					break
				}
				continue
			}
			if f.ST == peerkit.STData && f.B2&0x80 != 0 {
				p.Send(peerkit.Data(f.Sid, f.B2&0x7f, f.B3+1, false, f.SbU32(), asciiBody("ok")))
			} else if f.ST == peerkit.STLinktestReq {
				p.Send(peerkit.Ctl(peerkit.STLinktestRsp, 0xFFFF, f.SbU32()))
			}
		}
		b.wellSession.Store(false)
		b.log.add(lifeEv{K: "peerdrop"})
		switch mood {
		case 1, 4:
			p.Reset()
		default:
			p.Close()
		}
		b.cur.Store(nil)
	}
}

func lifeScenario(id int, seed int64) *lifeLine {
	r := rand.New(rand.NewSource(seed))
	passive := r.Intn(2) == 0
	line := &lifeLine{T: "life", ID: id, Role: map[bool]string{true: "passive", false: "active"}[passive], Ops: []lifeOp{},
		CloseTimeoutMs: int(lifeCloseTimeout / time.Millisecond), Kind: "random"}
	cut, err := lab.NewCUT(lab.Options{Passive: passive, Sid: 0x0102, T3: 80 * time.Millisecond, T5: lifeT5, T6: 150 * time.Millisecond,
		T7: 400 * time.Millisecond, T8: 100 * time.Millisecond, BackoffInit: 5 * time.Millisecond, BackoffMult: 2, CloseTimeout: lifeCloseTimeout,
		Linktest: []time.Duration{0, 25 * time.Millisecond}[r.Intn(2)], LinktestThreshold: 2})
	if err != nil {
		line.Fault = err.Error()
		return line
	}
	var pl *peerkit.PeerListener
	if !passive {
		pl, _ = peerkit.ListenPeer()
		defer pl.Close()
		cut.Net.SetTarget(pl.Addr())
	}
	log := &lifeLog{}
	cut.Net.Trace = func(ev string) { log.add(lifeEv{K: ev}) }
	bot := &peerBot{cut: cut, pl: pl, r: rand.New(rand.NewSource(seed + 7)), stop: make(chan struct{}), done: make(chan struct{}), log: log}
	go bot.run()
	// jitter monitor
	stopJ := make(chan struct{})
	var jwg sync.WaitGroup
	jwg.Add(1)
	go func() {
		defer jwg.Done()
		for {
			select {
			case <-stopJ:
				return
			default:
			}
			ts := time.Now()
			time.Sleep(time.Millisecond)
			if over := int((time.Since(ts) - time.Millisecond) / time.Millisecond); over > line.JitterMs {
				line.JitterMs = over
			}
		}
	}()
	var mu sync.Mutex
	doOp := func(g int, name string, f func() error) {
		op := lifeOp{G: g, Op: name}
		done := make(chan struct{})
		t0 := time.Now()
		traced := name == "Open(bg)" || name == "Open(wait)" || name == "Close"
		if traced {
			log.add(lifeEv{K: "call", G: g, Op: name})
		}
		go func() {
			defer close(done)
			defer func() {
				if p := recover(); p != nil {
					op.Panic = fmt.Sprint(p)
				}
			}()
			op.Res = lifeErr(f())
		}()
		select {
		case <-done:
		case <-time.After(6 * time.Second):
			op.Hung = true
			op.Res = "hung"
		}
		if traced {
			log.add(lifeEv{K: "ret", G: g, Op: name, Res: op.Res})
		}
		op.Ms = int(time.Since(t0) / time.Millisecond)
		mu.Lock()
		line.Ops = append(line.Ops, op)
		mu.Unlock()
	}
	c := cut.Conn
	var wg sync.WaitGroup
	nG := 2 + r.Intn(2)
	for g := 0; g < nG; g++ {
		wg.Add(1)
		go func(g int, gr *rand.Rand) {
			defer wg.Done()
			for k := 0; k < 6+gr.Intn(6); k++ {
				time.Sleep(time.Duration(gr.Intn(12)) * time.Millisecond)
				switch gr.Intn(9) {
				case 0, 1:
					doOp(g, "Open(bg)", func() error { return c.Open(context.Background(), hsms.OpenBackground) })
				case 2:
					doOp(g, "Open(wait)", func() error {
						ctx, cancel := context.WithTimeout(context.Background(), time.Duration(20+gr.Intn(120))*time.Millisecond)
						defer cancel()
						return c.Open(ctx, hsms.OpenWaitSelected)
					})
				case 3, 4:
					doOp(g, "Close", func() error { return c.Close() })
				case 5, 6:
					doOp(g, "Send(W)", func() error {
						ctx, cancel := context.WithTimeout(context.Background(), 60*time.Millisecond)
						defer cancel()
						_, err := c.SendDataMessage(ctx, 1, 1, true, secs2.A("x"))
						return err
					})
				case 7:
					doOp(g, "UpdateConfig", func() error {
						return c.UpdateConfigOptions(hsms.WithT3(time.Duration(60+gr.Intn(60))*time.Millisecond), hsms.WithT8(100*time.Millisecond))
					})
				default:
					doOp(g, "SendAsync", func() error { return c.SendDataMessageAsync(context.Background(), 6, 11, false, secs2.U1(1)) })
				}
			}
		}(g, rand.New(rand.NewSource(seed*31+int64(g))))
	}
	wg.Wait()
	// the event log for trace validation covers the concurrent phase only
	log.mu.Lock()
	line.trace = &lifeTrace{T: "lifetrace", ID: id, Role: line.Role, Events: append([]lifeEv{}, log.evs...)}
	log.frozen = true
	log.mu.Unlock()
	// ---- quiescent open point: Open while open must be refused without side effects
	bot.wellBehaved.Store(true)
	doOp(9, "Open(bg)", func() error { return c.Open(context.Background(), hsms.OpenBackground) })
	for k := 0; k < 400 && !(bot.wellSession.Load() && cut.State() == "S"); k++ {
		time.Sleep(5 * time.Millisecond)
	}
	line.ReachedSelected = bot.wellSession.Load() && cut.State() == "S"
	if line.ReachedSelected {
		time.Sleep(5 * time.Millisecond)
		s0, d0, st0 := len(cut.Net.Conns()), cut.Net.DialCount(), cut.State()
		ctx, cancel := context.WithTimeout(context.Background(), 200*time.Millisecond)
		err := c.Open(ctx, []hsms.OpenMode{hsms.OpenBackground, hsms.OpenWaitSelected}[r.Intn(2)])
		cancel()
		time.Sleep(3 * lifeT5)
		line.ProbeDone = true
		line.ProbeRes = lifeErr(err)
		line.ProbeNewSockets = len(cut.Net.Conns()) - s0
		line.ProbeNewDials = cut.Net.DialCount() - d0
		line.ProbeStateSame = cut.State() == st0
	}
	// ---- final Close: bounded, idempotent, leak-free
	bot.wellBehaved.Store(false)
	if r.Intn(2) == 0 { // sometimes close while the peer has just vanished / refuses
		cut.Net.Refuse.Store(true)
	}
	cut.TakeNotes()
	t0 := time.Now()
	err = c.Close()
	line.FinalCloseMs = int(time.Since(t0) / time.Millisecond)
	line.FinalCloseRes = lifeErr(err)
	close(bot.stop)
	<-bot.done
	cut.Net.Refuse.Store(true)
	t1 := time.Now()
	err2 := c.Close()
	line.SecondCloseMs = int(time.Since(t1) / time.Millisecond)
	line.SecondCloseRes = lifeErr(err2)
	d0 := cut.Net.DialCount()
	l0 := len(cut.Net.Listens)
	time.Sleep(3 * lifeT5)
	line.DialsAfterClose = (cut.Net.DialCount() - d0) + (len(cut.Net.Listens) - l0)
	line.StateAfterClose = cut.State()
	for k := 0; k < 40; k++ { // goroutines need a moment to unwind
		line.LibGoroutines, line.LeakSample = libGoroutines()
		line.OpenSockets, line.OpenListeners = cut.Net.OpenSockets(), cut.Net.OpenListeners()
		line.DialOverlap, line.ListenOverlap = cut.Net.Overlaps()
		if line.LibGoroutines == 0 && line.OpenSockets == 0 && line.OpenListeners == 0 {
			break
		}
		time.Sleep(10 * time.Millisecond)
	}
	for _, n := range cut.TakeNotes() {
		if n.At.After(t1) {
			line.NotesAfterClose++
		}
	}
	// ---- a closed connection can be opened again and behaves like a fresh one
	cut.Net.Refuse.Store(false)
	bot2 := &peerBot{cut: cut, pl: pl, r: rand.New(rand.NewSource(seed + 9)), stop: make(chan struct{}), done: make(chan struct{})}
	bot2.wellBehaved.Store(true)
	go bot2.run()
	if err := c.Open(context.Background(), hsms.OpenBackground); err == nil && cut.WaitState("S", 3*time.Second) {
		line.ReopenOK = true
		ctx, cancel := context.WithTimeout(context.Background(), time.Second)
		rep, err := c.SendDataMessage(ctx, 1, 1, true, secs2.A("again"))
		cancel()
		line.ReopenRoundTrip = err == nil && rep != nil
	}
	t2 := time.Now()
	_ = c.Close()
	line.ReopenCloseMs = int(time.Since(t2) / time.Millisecond)
	close(bot2.stop)
	<-bot2.done
	close(stopJ)
	jwg.Wait()
	return line
}

// lifeAudit fills the post-Close audit fields (shared by the special scenarios).
func lifeAudit(line *lifeLine, cut *lab.CUT, closeFn func() error) {
	cut.TakeNotes()
	t0 := time.Now()
	err := closeFn()
	line.FinalCloseMs = int(time.Since(t0) / time.Millisecond)
	line.FinalCloseRes = lifeErr(err)
	cut.Net.Refuse.Store(true)
	t1 := time.Now()
	line.SecondCloseRes = lifeErr(cut.Conn.Close())
	line.SecondCloseMs = int(time.Since(t1) / time.Millisecond)
	d0, l0 := cut.Net.DialCount(), len(cut.Net.Listens)
	time.Sleep(3 * lifeT5)
	line.DialsAfterClose = (cut.Net.DialCount() - d0) + (len(cut.Net.Listens) - l0)
	line.StateAfterClose = cut.State()
	for k := 0; k < 40; k++ {
		line.LibGoroutines, line.LeakSample = libGoroutines()
		line.OpenSockets, line.OpenListeners = cut.Net.OpenSockets(), cut.Net.OpenListeners()
		line.DialOverlap, line.ListenOverlap = cut.Net.Overlaps()
		if line.LibGoroutines == 0 && line.OpenSockets == 0 && line.OpenListeners == 0 {
			break
		}
		time.Sleep(10 * time.Millisecond)
	}
	for _, n := range cut.TakeNotes() {
		if n.At.After(t1) {
			line.NotesAfterClose++
		}
	}
	line.ReopenOK, line.ReopenRoundTrip, line.ReachedSelected = true, true, true // not part of the special scenarios
}

// lifeAcceptRace: a peer connects to a passive endpoint exactly while Close runs: the accept goroutine is parked
// (verif gate tr.accepted) after Accept returned the socket and before it is published, Close starts, then the
// accept goroutine is released. The late socket must still be closed and Close must not ride out its timeout.
func lifeAcceptRace(id int, delay time.Duration) *lifeLine {
	line := &lifeLine{T: "life", ID: id, Role: "passive", Ops: []lifeOp{}, CloseTimeoutMs: int(lifeCloseTimeout / time.Millisecond), Kind: "accept-race"}
	cut, err := lab.NewCUT(lab.Options{Passive: true, Sid: 0x0102, T5: lifeT5, T7: 400 * time.Millisecond, BackoffInit: 5 * time.Millisecond, CloseTimeout: lifeCloseTimeout})
	if err != nil {
		line.Fault = err.Error()
		return line
	}
	if err := cut.Open(); err != nil {
		line.Fault = err.Error()
		return line
	}
	parked, release := make(chan struct{}), make(chan struct{})
	var once sync.Once
	hsms.VerifSetGate(func(name string) {
		if name == "tr.accepted" {
			first := false
			once.Do(func() { first = true })
			if first {
				close(parked)
				<-release
			}
		}
	})
	defer hsms.VerifSetGate(nil)
	l := cut.Net.WaitListener(2 * time.Second)
	if l == nil {
		line.Fault = "no listener"
		close(release)
		return line
	}
	p, err := peerkit.DialPeer(l.Addr().String(), time.Second)
	if err != nil {
		line.Fault = "dial: " + err.Error()
		close(release)
		return line
	}
	defer p.Close()
	select {
	case <-parked:
	case <-time.After(2 * time.Second):
		line.Fault = "accept goroutine never reached the gate"
		close(release)
		return line
	}
	go func() {
		time.Sleep(delay)
		close(release)
	}()
	lifeAudit(line, cut, cut.Conn.Close)
	return line
}

// lifeDialRace: the active mirror image of lifeAcceptRace. The first session is lost, the reconnect loop dials again and
// its Start is parked (verif gate tr.start.dialed) after the dial succeeded and before the socket is registered; Close
// starts, then Start is released: it finds the transport sealed. The late socket must still be closed (no socket may
// outlive Close) and Close must not ride out its timeout.
func lifeDialRace(id int, delay time.Duration) *lifeLine {
	line := &lifeLine{T: "life", ID: id, Role: "active", Ops: []lifeOp{}, CloseTimeoutMs: int(lifeCloseTimeout / time.Millisecond), Kind: "dial-race"}
	cut, err := lab.NewCUT(lab.Options{Sid: 0x0102, T5: lifeT5, T6: 300 * time.Millisecond, T7: 400 * time.Millisecond, BackoffInit: 5 * time.Millisecond, BackoffMult: 1, CloseTimeout: lifeCloseTimeout})
	if err != nil {
		line.Fault = err.Error()
		return line
	}
	pl, err := peerkit.ListenPeer()
	if err != nil {
		line.Fault = err.Error()
		return line
	}
	defer pl.Close()
	cut.Net.SetTarget(pl.Addr())
	parked, release := make(chan struct{}), make(chan struct{})
	var dials atomic.Int32
	hsms.VerifSetGate(func(name string) {
		if name == "tr.start.dialed" && dials.Add(1) == 2 {
			close(parked)
			<-release
		}
	})
	defer hsms.VerifSetGate(nil)
	released := false
	rel := func() {
		if !released {
			released = true
			close(release)
		}
	}
	defer rel()
	if err := cut.Open(); err != nil {
		line.Fault = err.Error()
		return line
	}
	p1, err := cut.ConnectPeer(pl, 3*time.Second)
	if err != nil {
		line.Fault = "connect: " + err.Error()
		cut.Conn.Close()
		return line
	}
	if f, ok := p1.Next(2 * time.Second); ok && f.ST == peerkit.STSelectReq {
		p1.Send(peerkit.CtlStatus(peerkit.STSelectRsp, f.Sid, 0, f.SbU32()))
	}
	if !cut.WaitState("S", 2*time.Second) {
		line.Fault = "could not establish the first session"
		p1.Close()
		cut.Conn.Close()
		return line
	}
	p1.Reset() // the session is lost: the reconnect loop dials again
	select {
	case <-parked:
	case <-time.After(3 * time.Second):
		line.Fault = "the reconnect dial never reached the gate"
		cut.Conn.Close()
		return line
	}
	go func() {
		time.Sleep(delay)
		close(release)
	}()
	released = true
	lifeAudit(line, cut, cut.Conn.Close)
	return line
}

// lifeOpenDuringReconnect: open -> selected -> peer drops and is unreachable -> a redundant Open while the
// reconnect loop is backing off (must be refused with already-open and change nothing) -> peer comes back:
// the connection must recover.
func lifeOpenDuringReconnect(id int, mode hsms.OpenMode) *lifeLine {
	line := &lifeLine{T: "life", ID: id, Role: "active", Ops: []lifeOp{}, CloseTimeoutMs: int(lifeCloseTimeout / time.Millisecond), Kind: "open-during-reconnect"}
	cut, err := lab.NewCUT(lab.Options{Sid: 0x0102, T5: lifeT5, T6: 150 * time.Millisecond, BackoffInit: 20 * time.Millisecond, BackoffMult: 1, CloseTimeout: lifeCloseTimeout})
	if err != nil {
		line.Fault = err.Error()
		return line
	}
	pl, _ := peerkit.ListenPeer()
	defer pl.Close()
	cut.Net.SetTarget(pl.Addr())
	bot := &peerBot{cut: cut, pl: pl, r: rand.New(rand.NewSource(int64(id))), stop: make(chan struct{}), done: make(chan struct{})}
	bot.wellBehaved.Store(true)
	go bot.run()
	if err := cut.Open(); err != nil || !cut.WaitState("S", 3*time.Second) {
		line.Fault = "could not establish the first session"
		close(bot.stop)
		return line
	}
	cut.Net.Refuse.Store(true)
	dials := cut.Net.DialCount()
	if p := bot.cur.Load(); p != nil {
		p.Reset()
	}
	cut.WaitDropped(dials, time.Second)
	time.Sleep(30 * time.Millisecond) // the loop is now between refused dials
	ctx, cancel := context.WithTimeout(context.Background(), 100*time.Millisecond)
	err = cut.Conn.Open(ctx, mode)
	cancel()
	line.ProbeDone, line.ProbeRes, line.ProbeStateSame = true, lifeErr(err), true
	cut.Net.Refuse.Store(false) // the peer is back
	reached := false
	for k := 0; k < 300 && !reached; k++ {
		reached = bot.wellSession.Load() && cut.State() == "S"
		time.Sleep(5 * time.Millisecond)
	}
	close(bot.stop)
	<-bot.done
	lifeAudit(line, cut, cut.Conn.Close)
	line.ReachedSelected = reached
	return line
}

// lifeCloseDuringOpenWait: Open(OpenWaitSelected) is parked waiting for a selection that does not come (active: the
// peer accepts the TCP connection but never answers Select.req; passive: nobody connects) when another goroutine
// calls Close. Close must not wait for the Open: it returns within the close timeout, and the Open returns too.
func lifeCloseDuringOpenWait(id int, passive bool) *lifeLine {
	line := &lifeLine{T: "life", ID: id, Role: map[bool]string{true: "passive", false: "active"}[passive], Ops: []lifeOp{},
		CloseTimeoutMs: int(lifeCloseTimeout / time.Millisecond), Kind: "close-during-open-wait"}
	cut, err := lab.NewCUT(lab.Options{Passive: passive, Sid: 0x0102, T5: lifeT5, T6: 3 * time.Second, T7: 5 * time.Second, BackoffInit: 20 * time.Millisecond, BackoffMult: 1,
		CloseTimeout: lifeCloseTimeout})
	if err != nil {
		line.Fault = err.Error()
		return line
	}
	var pl *peerkit.PeerListener
	if !passive {
		pl, _ = peerkit.ListenPeer() // accepts, reads, never answers
		defer pl.Close()
		cut.Net.SetTarget(pl.Addr())
	}
	openDone := make(chan lifeOp, 1)
	go func() {
		t0 := time.Now()
		ctx, cancel := context.WithTimeout(context.Background(), 3*time.Second)
		defer cancel()
		err := cut.Conn.Open(ctx, hsms.OpenWaitSelected)
		openDone <- lifeOp{G: 0, Op: "Open(wait)", Res: lifeErr(err), Ms: int(time.Since(t0) / time.Millisecond)}
	}()
	time.Sleep(60 * time.Millisecond) // the Open is now waiting for Selected
	t0 := time.Now()
	cerr := cut.Conn.Close()
	line.Ops = append(line.Ops, lifeOp{G: 1, Op: "Close", Res: lifeErr(cerr), Ms: int(time.Since(t0) / time.Millisecond)})
	select {
	case op := <-openDone:
		op.Ms = int(time.Since(t0) / time.Millisecond) // how long after Close STARTED the parked Open came back
		line.Ops = append(line.Ops, op)
	case <-time.After(3500 * time.Millisecond):
		line.Ops = append(line.Ops, lifeOp{G: 0, Op: "Open(wait)", Res: "hung", Hung: true, Ms: 3500})
	}
	lifeAudit(line, cut, cut.Conn.Close)
	return line
}

func runLife(args []string) int {
	fs := flag.NewFlagSet("life", flag.ExitOnError)
	n := fs.Int("n", 10, "scenarios (run one after the other: the goroutine audit is process-wide)")
	seed := fs.Int64("seed", 1, "PRNG seed")
	out := fs.String("out", "", "observation file")
	traces := fs.String("traces", "", "optional file for the event traces of the random histories (trace validation against impl/Connection)")
	fs.Parse(args)
	w, err := rec.Create(*out)
	if err != nil {
		fmt.Fprintln(os.Stderr, err)
		return 2
	}
	var tw *rec.Writer
	if *traces != "" {
		if tw, err = rec.Create(*traces); err != nil {
			fmt.Fprintln(os.Stderr, err)
			return 2
		}
		defer tw.Close()
	}
	faults := 0
	for k, d := range []time.Duration{0, 2 * time.Millisecond, 30 * time.Millisecond} {
		w.Emit(lifeAcceptRace(9000+k, d))
	}
	for k, d := range []time.Duration{0, 2 * time.Millisecond, 30 * time.Millisecond} {
		w.Emit(lifeDialRace(9050+k, d))
	}
	w.Emit(lifeOpenDuringReconnect(9100, hsms.OpenBackground))
	w.Emit(lifeOpenDuringReconnect(9101, hsms.OpenWaitSelected))
	w.Emit(lifeCloseDuringOpenWait(9200, false))
	w.Emit(lifeCloseDuringOpenWait(9201, true))
	for i := 0; i < *n; i++ {
		line := lifeScenario(i+1, *seed*1000+int64(i))
		if line.Fault != "" {
			faults++
		}
		if tw != nil && line.trace != nil && line.Fault == "" {
			tw.Emit(line.trace)
		}
		w.Emit(line)
	}
	if err := w.Close(); err != nil {
		fmt.Fprintln(os.Stderr, err)
		return 2
	}
	b, _ := json.Marshal(map[string]int{"lines": w.N, "faults": faults})
	fmt.Println(string(b))
	return 0
}
