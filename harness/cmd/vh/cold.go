package main

import (
	"flag"
	"fmt"
	"os"
	"sync/atomic"
	"time"

	"verif/harness/lab"
	"verif/harness/peerkit"
	"verif/harness/rec"
)

func init() {
	register("cold", "the reconnecting gauge on a cold start: Open while the peer is unreachable, then the session comes up (C20)", runCold)
}

// coldLine: an active connection is opened while every dial is refused (refused = k dials), then the peer becomes
// reachable, the session is selected, a round trip is served, the connection is closed. The reconnecting gauge is read
// inside the dialer at every dial from the second on (a reconnect loop is certainly running then), sampled throughout,
// and read at the two quiescent points.
type coldLine struct {
	T             string `json:"t"` // "cold"
	Refused       int    `json:"refused"`
	Dials         int    `json:"dials"`
	GaugeAtRedial []int  `json:"gauge_at_redial"` // gauge read inside dial #2, #3, ...
	MinGauge      int    `json:"min_gauge"`
	AtSelected    int    `json:"gauge_at_selected"`
	AfterClose    int    `json:"gauge_after_close"`
	Selected      bool   `json:"selected"`
	Fault         string `json:"fault"`
}

func coldScenario(refused int) *coldLine {
	line := &coldLine{T: "cold", Refused: refused, GaugeAtRedial: []int{}}
	cut, err := lab.NewCUT(lab.Options{Sid: 0x0102, T3: time.Second, T5: 20 * time.Millisecond, T6: time.Second, T7: 5 * time.Second,
		BackoffInit: 5 * time.Millisecond, BackoffMult: 1, CloseTimeout: time.Second})
	if err != nil {
		line.Fault = err.Error()
		return line
	}
	pl, err := peerkit.ListenPeer()
	if err != nil {
		line.Fault = err.Error()
		return line
	}
	defer pl.Close()
	cut.Net.SetTarget(pl.Addr())
	cut.Net.RefuseN.Store(int32(refused))
	m := cut.Conn.Metrics()
	var min atomic.Int64
	note := func() int {
		v := int64(m.Reconnecting())
		for {
			cur := min.Load()
			if v >= cur || min.CompareAndSwap(cur, v) {
				break
			}
		}
		return int(v)
	}
	redial := make(chan int, 64)
	cut.Net.DialGate = func(n int) {
		v := note()
		if n >= 2 {
			select {
			case redial <- v:
			default:
			}
		}
	}
	stop := make(chan struct{})
	done := make(chan struct{})
	go func() {
		defer close(done)
		for {
			select {
			case <-stop:
				return
			default:
				note()
				time.Sleep(200 * time.Microsecond)
			}
		}
	}()
	finish := func() {
		close(stop)
		<-done
		close(redial)
		for v := range redial {
			line.GaugeAtRedial = append(line.GaugeAtRedial, v)
		}
		line.MinGauge = int(min.Load())
		line.Dials = cut.Net.DialCount()
	}
	if err := cut.Open(); err != nil {
		line.Fault = "open: " + err.Error()
		finish()
		return line
	}
	p, err := cut.ConnectPeer(pl, 5*time.Second)
	if err != nil {
		line.Fault = "connect: " + err.Error()
		cut.Conn.Close()
		finish()
		return line
	}
	defer p.Close()
	if f, ok := p.Next(2 * time.Second); ok && f.ST == peerkit.STSelectReq {
		p.Send(peerkit.CtlStatus(peerkit.STSelectRsp, f.Sid, 0, f.SbU32()))
	}
	line.Selected = cut.WaitState("S", 2*time.Second)
	if !line.Selected {
		line.Fault = "the session was not selected"
		cut.Conn.Close()
		finish()
		return line
	}
	// quiescent: nothing in flight, no loop running -- "quiescent" is reached when the loop goroutine has returned, which
	// is asynchronous to the Selected notification: wait for the gauge to settle (a gauge that never does is reported)
	settle := func() int {
		v := note()
		for end := time.Now().Add(time.Second); v != 0 && time.Now().Before(end); v = note() {
			time.Sleep(2 * time.Millisecond)
		}
		return v
	}
	time.Sleep(10 * time.Millisecond)
	line.AtSelected = settle()
	cut.Conn.Close()
	line.AfterClose = settle()
	finish()
	return line
}

func runCold(args []string) int {
	fs := flag.NewFlagSet("cold", flag.ExitOnError)
	out := fs.String("out", "", "observation file")
	reps := fs.Int("reps", 2, "repetitions per number of refused dials")
	fs.Parse(args)
	w, err := rec.Create(*out)
	if err != nil {
		fmt.Fprintln(os.Stderr, err)
		return 2
	}
	for i := 0; i < *reps; i++ {
		for _, k := range []int{0, 1, 2, 4} {
			w.Emit(coldScenario(k))
		}
	}
	if err := w.Close(); err != nil {
		fmt.Fprintln(os.Stderr, err)
		return 2
	}
	fmt.Printf("{\"lines\": %d}\n", w.N)
	return 0
}
