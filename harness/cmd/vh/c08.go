package main

import (
	"context"
	"encoding/json"
	"flag"
	"fmt"
	"github.com/arloliu/go-secs/v2/hsms"
	"github.com/arloliu/go-secs/v2/secs2"
	"math/rand"
	"os"
	"sync"
	"time"

	"verif/harness/lab"
	"verif/harness/peerkit"
	"verif/harness/rec"
)

func init() {
	register("c08", "play peer frame sequences against a live hsmsss connection, record the answers", runC08)
}

// the frame alphabet (C08 quantifier); every instance gets fresh system bytes
type sym int

const (
	symSelectReq sym = iota
	symSelectReqOtherSid
	symDeselectReq
	symLinktestReq
	symSeparateReq
	symSelectRspOrphan
	symDeselectRspOrphan
	symLinktestRspOrphan
	symRejectReqOrphan
	symDataPrimaryW
	symDataSecondary
	symDataBadSid
	symCtlWithBody
	symBadPType
	symUndefSType8
	symUndefSType255
	symS9F1OtherSid
	symDataPrimaryNoW
	symSecondConn // not a frame: a second TCP connection to the (passive) endpoint while the session is live
	nSyms
)

var symNames = []string{"SelectReq", "SelectReqOtherSid", "DeselectReq", "LinktestReq", "SeparateReq", "SelectRspOrphan",
	"DeselectRspOrphan", "LinktestRspOrphan", "RejectReqOrphan", "DataPrimaryW", "DataSecondary", "DataBadSid", "CtlWithBody",
	"BadPType", "UndefSType8", "UndefSType255", "S9F1OtherSid", "DataPrimaryNoW", "SecondConn"}

const cutSid = 0x0102
const otherSid = 0x7777

func mkFrame(s sym, sb uint32, r *rand.Rand) peerkit.Frame {
	switch s {
	case symSelectReq:
		return peerkit.Ctl(peerkit.STSelectReq, cutSid, sb)
	case symSelectReqOtherSid:
		return peerkit.Ctl(peerkit.STSelectReq, 0xFFFF, sb)
	case symDeselectReq:
		return peerkit.Ctl(peerkit.STDeselectReq, cutSid, sb)
	case symLinktestReq:
		return peerkit.Ctl(peerkit.STLinktestReq, 0xFFFF, sb)
	case symSeparateReq:
		return peerkit.Ctl(peerkit.STSeparateReq, cutSid, sb)
	case symSelectRspOrphan:
		return peerkit.CtlStatus(peerkit.STSelectRsp, cutSid, r.Intn(3), sb)
	case symDeselectRspOrphan:
		return peerkit.CtlStatus(peerkit.STDeselectRsp, cutSid, r.Intn(2), sb)
	case symLinktestRspOrphan:
		return peerkit.Ctl(peerkit.STLinktestRsp, 0xFFFF, sb)
	case symRejectReqOrphan:
		f := peerkit.CtlStatus(peerkit.STRejectReq, cutSid, 1+r.Intn(4), sb)
		f.B2 = r.Intn(10)
		return f
	case symDataPrimaryW:
		return peerkit.Data(cutSid, 1, 1, true, sb, nil)
	case symDataPrimaryNoW:
		return peerkit.Data(cutSid, 6, 11, false, sb, []byte{0x41, 0x02, 'h', 'i'})
	case symDataSecondary:
		return peerkit.Data(cutSid, 1, 2, false, sb, []byte{0x41, 0x01, 'x'})
	case symDataBadSid:
		return peerkit.Data(otherSid, 1, 3, true, sb, []byte{0xA5, 0x01, 0x07})
	case symCtlWithBody:
		f := peerkit.Ctl([]int{peerkit.STSelectReq, peerkit.STLinktestReq, peerkit.STDeselectReq, peerkit.STSeparateReq,
			peerkit.STSelectRsp, peerkit.STRejectReq}[r.Intn(6)], cutSid, sb)
		f.Body = []int{0x41, 0x01, 0x42}[:1+r.Intn(3)]
		return f
	case symBadPType:
		f := peerkit.Ctl([]int{peerkit.STData, peerkit.STSelectReq, 8, 200}[r.Intn(4)], cutSid, sb)
		f.PT = []int{1, 2, 127, 255}[r.Intn(4)]
		if r.Intn(2) == 0 {
			f.Body = []int{1, 2, 3}
		}
		return f
	case symUndefSType8:
		return peerkit.Ctl([]int{8, 10, 11, 64}[r.Intn(4)], cutSid, sb)
	case symUndefSType255:
		f := peerkit.Ctl([]int{255, 128, 254}[r.Intn(3)], r.Intn(65536), sb)
		if r.Intn(2) == 0 {
			f.Body = []int{9}
		}
		return f
	case symS9F1OtherSid:
		return peerkit.Data(otherSid, 9, 1, false, sb, append([]byte{0x21, 0x0A}, make([]byte, 10)...))
	}
	panic("sym")
}

type c08Step struct {
	Syms      []string        `json:"syms"`
	Tx        []peerkit.Frame `json:"tx"`
	Rx        []peerkit.Frame `json:"rx"`
	Delivered [][]int         `json:"delivered"`
	State     string          `json:"state"`
	Alive     bool            `json:"alive"`
	Second    int             `json:"second"`        // -1: no second connection attempted; else frames read on it
	SecondEnd bool            `json:"second_closed"` // the second connection was closed by the endpoint
}

type c08Line struct {
	T                 string          `json:"t"`
	ID                int             `json:"id"`
	Role              string          `json:"role"`
	Validate          bool            `json:"validate"`
	CutSid            int             `json:"cut_sid"`
	Mode              string          `json:"mode"`
	Pre               []peerkit.Frame `json:"pre"`
	Steps             []c08Step       `json:"steps"`
	Fault             string          `json:"fault"`
	SendAfterDeselect *c08Send        `json:"send_after_deselect,omitempty"`
}

type c08Send struct {
	Err      string `json:"err"`
	PeerData int    `json:"peer_data"`
}

type c08Scenario struct {
	id           int
	mode         string // "barrier": one frame per step; "burst": all frames in one write; "f1": Select+Deselect burst
	syms         []sym
	split        int // burst mode: write the burst in this many pieces (1 = one write)
	cutAt        int // burst mode: >0 = write the burst in two pieces cut at exactly this byte offset
	selRspStatus int // active role: status of the Select.rsp that is played first (-1: none)
}

func frames(fs []peerkit.RxFrame) []peerkit.Frame {
	out := make([]peerkit.Frame, len(fs))
	for i, f := range fs {
		out[i] = f.Frame
	}
	return out
}

// worker owns one CUT and runs scenarios on successive TCP generations.
func c08Worker(passive, validate bool, jobs <-chan c08Scenario, w *rec.Writer, seed int64, wg *sync.WaitGroup, faults *int) {
	defer wg.Done()
	r := rand.New(rand.NewSource(seed))
	cut, err := lab.NewCUT(lab.Options{Passive: passive, Sid: cutSid, ValidateSid: validate, T7: 30 * time.Second, T6: 3 * time.Second})
	if err != nil {
		panic(err)
	}
	var pl *peerkit.PeerListener
	if !passive {
		pl, _ = peerkit.ListenPeer()
		cut.Net.SetTarget(pl.Addr())
		defer pl.Close()
	}
	if err := cut.Open(); err != nil {
		panic(err)
	}
	defer cut.Conn.Close()
	sbCounter := uint32(0x10000000 + seed<<16)
	role := "active"
	if passive {
		role = "passive"
	}
	for sc := range jobs {
		line := &c08Line{T: "c08", ID: sc.id, Role: role, Validate: validate, CutSid: cutSid, Mode: sc.mode, Pre: []peerkit.Frame{}, Steps: []c08Step{}}
		func() {
			var preBurst []peerkit.Frame
			var preNames []string
			p, err := cut.ConnectPeer(pl, 5*time.Second)
			if err != nil {
				line.Fault = "connect: " + err.Error()
				return
			}
			dials := cut.Net.DialCount()
			defer func() {
				p.Close()
				cut.WaitDropped(dials, 2*time.Second)
				cut.TakeDeliveries()
			}()
			if !passive {
				// the active CUT opens with Select.req; optionally answer it
				f, ok := p.Next(3 * time.Second)
				if !ok || f.ST != peerkit.STSelectReq {
					line.Fault = "active CUT did not send Select.req"
					return
				}
				line.Pre = append(line.Pre, f.Frame)
				if sc.selRspStatus >= 0 && sc.selRspStatus <= 1 && sc.mode == "burst" {
					// pipeline the data directly behind the Select.rsp that establishes the session (C07)
					preBurst = append(preBurst, peerkit.CtlStatus(peerkit.STSelectRsp, f.Sid, sc.selRspStatus, f.SbU32()))
					preNames = append(preNames, fmt.Sprintf("SelectRsp(%d)", sc.selRspStatus))
				} else if sc.selRspStatus >= 0 {
					rsp := peerkit.CtlStatus(peerkit.STSelectRsp, f.Sid, sc.selRspStatus, f.SbU32())
					got, ok := step(cut, p, []peerkit.Frame{rsp}, []string{fmt.Sprintf("SelectRsp(%d)", sc.selRspStatus)}, 1)
					line.Steps = append(line.Steps, got)
					if !ok {
						return
					}
				}
			} else if !cut.WaitState("NS", 2*time.Second) {
				line.Fault = "passive CUT did not reach NotSelected after TCP connect"
				return
			}
			burst := preBurst
			names := preNames
			for _, s := range sc.syms {
				sbCounter++
				if s == symSecondConn {
					if !passive || sc.mode != "barrier" {
						continue
					}
					got, ok := secondConn(cut, p)
					line.Steps = append(line.Steps, got)
					if !ok {
						return
					}
					continue
				}
				f := mkFrame(s, sbCounter, r)
				if sc.mode == "barrier" {
					got, ok := step(cut, p, []peerkit.Frame{f}, []string{symNames[s]}, 1)
					line.Steps = append(line.Steps, got)
					if !ok {
						return
					}
				} else {
					burst = append(burst, f)
					names = append(names, symNames[s])
				}
			}
			if len(burst) > 0 {
				pieces := sc.split
				if sc.cutAt > 0 {
					pieces = -sc.cutAt
				}
				got, _ := step(cut, p, burst, names, pieces)
				line.Steps = append(line.Steps, got)
			}
		}()
		if line.Fault != "" {
			*faults++
		}
		w.Emit(line)
	}
}

// secondConn dials the passive endpoint again while p is live; the endpoint must refuse it silently.
func secondConn(cut *lab.CUT, p *peerkit.PeerConn) (c08Step, bool) {
	st := c08Step{Syms: []string{"SecondConn"}, Tx: []peerkit.Frame{}, Rx: []peerkit.Frame{}, Delivered: [][]int{}, Second: 0}
	if l := cut.Net.CurrentListener(); l != nil {
		if p2, err := peerkit.DialPeer(l.Addr().String(), time.Second); err == nil {
			st.SecondEnd = p2.EOF(time.Second)
			st.Second = len(p2.Drain())
			p2.Close()
		} else {
			st.SecondEnd = true // refused at the TCP level
		}
	}
	got, ok := p.Barrier(3 * time.Second)
	st.Rx = frames(got)
	st.Alive = ok
	for _, d := range cut.TakeDeliveries() {
		st.Delivered = append(st.Delivered, d.Sb)
	}
	st.State = cut.State()
	return st, ok
}

// step writes the frames (in `pieces` writes), runs the barrier, and snapshots what the CUT did.
func step(cut *lab.CUT, p *peerkit.PeerConn, tx []peerkit.Frame, names []string, pieces int) (c08Step, bool) {
	st := c08Step{Syms: names, Tx: tx, Rx: []peerkit.Frame{}, Delivered: [][]int{}, Second: -1}
	var buf []byte
	for _, f := range tx {
		buf = append(buf, f.Bytes()...)
	}
	if pieces < 0 { // one explicit cut
		_ = p.WriteSplit(buf, []int{-pieces}, 400*time.Microsecond)
	} else if pieces <= 1 {
		_ = p.Write(buf)
	} else {
		var cuts []int
		for i := 1; i < pieces; i++ {
			cuts = append(cuts, i*len(buf)/pieces)
		}
		_ = p.WriteSplit(buf, cuts, 300*time.Microsecond)
	}
	got, ok := p.Barrier(3 * time.Second)
	st.Rx = frames(got)
	if ok {
		// frames that MAY end the connection do so asynchronously (another goroutine calls TCPDown):
		// give the drop a moment to show before declaring the link alive
		mayDrop := false
		for _, f := range tx {
			if f.PT == 0 && (f.ST == peerkit.STSeparateReq || f.ST == peerkit.STSelectRsp || f.ST == peerkit.STRejectReq) {
				mayDrop = true
			}
		}
		if mayDrop && p.EOF(120*time.Millisecond) {
			ok = false
			st.Rx = append(st.Rx, frames(p.Drain())...)
		}
	}
	st.Alive = ok
	if !ok {
		// the link went down (or the barrier timed out): give the CUT a moment to settle its state
		p.EOF(500 * time.Millisecond)
		cut.WaitDropped(cut.Net.DialCount()-1, time.Second)
	}
	for _, d := range cut.TakeDeliveries() {
		st.Delivered = append(st.Delivered, d.Sb)
	}
	st.State = cut.State()
	return st, ok
}

// c08F1Gated provokes finding F1 (fixed by cbc5287) deterministically for the scripted-peer view: the supervisor goroutine is parked
// (verif gate sup.step.loaded) while the receive goroutine commits the peer's Select.req AND the Deselect.req that
// follows it (two sup.commit.cas gates after arming), then released: it now applies the stale echo of the Select after
// the Deselect commit. The scenario is recorded like any other burst and judged by the same transducer.
func c08F1Gated(id int, extraSend bool) *c08Line {
	line := &c08Line{T: "c08", ID: id, Role: "passive", Validate: false, CutSid: cutSid, Mode: "f1gated", Pre: []peerkit.Frame{}, Steps: []c08Step{}}
	cut, err := lab.NewCUT(lab.Options{Passive: true, Sid: cutSid, T7: 30 * time.Second, T6: 3 * time.Second, T3: 200 * time.Millisecond})
	if err != nil {
		line.Fault = err.Error()
		return line
	}
	var mu sync.Mutex
	armed := false
	commits := 0
	parked := make(chan struct{})
	release := make(chan struct{})
	var parkOnce, relOnce sync.Once
	hsms.VerifSetGate(func(name string) {
		mu.Lock()
		on := armed
		mu.Unlock()
		if !on {
			return
		}
		switch name {
		case "sup.step.loaded":
			first := false
			parkOnce.Do(func() { first = true })
			if first {
				close(parked)
				select {
				case <-release:
				case <-time.After(2 * time.Second):
				}
			}
		case "sup.commit.cas":
			mu.Lock()
			commits++
			n := commits
			mu.Unlock()
			if n == 3 { // CommitConnected, CommitSelected, CommitSelectLost: both peer commits are in
				relOnce.Do(func() { close(release) })
			}
		}
	})
	defer hsms.VerifSetGate(nil)
	defer relOnce.Do(func() { close(release) })
	mu.Lock()
	armed = true
	mu.Unlock()
	if err := cut.Open(); err != nil {
		line.Fault = err.Error()
		return line
	}
	defer cut.Conn.Close()
	p, err := cut.ConnectPeer(nil, 3*time.Second)
	if err != nil {
		line.Fault = err.Error()
		return line
	}
	defer p.Close()
	select {
	case <-parked:
	case <-time.After(time.Second):
		line.Fault = "the supervisor never reached the gate"
		return line
	}
	r := rand.New(rand.NewSource(int64(id)))
	tx := []peerkit.Frame{mkFrame(symSelectReq, 0x63000001, r), mkFrame(symDeselectReq, 0x63000002, r)}
	st, _ := step(cut, p, tx, []string{"SelectReq", "DeselectReq"}, 1)
	time.Sleep(20 * time.Millisecond) // let the released supervisor drain its queue
	st.State = cut.State()
	line.Steps = append(line.Steps, st)
	if extraSend { // C07's view: a data send after the accepted deselection must be refused and must not reach the peer
		p.Drain()
		ctx, cancel := context.WithTimeout(context.Background(), 150*time.Millisecond)
		_, serr := cut.Conn.SendDataMessage(ctx, 1, 1, false, secs2.A("after-deselect"))
		cancel()
		got, _ := p.Barrier(time.Second)
		n := 0
		for _, f := range got {
			if f.ST == peerkit.STData {
				n++
			}
		}
		line.SendAfterDeselect = &c08Send{Err: errClass(serr), PeerData: n}
	}
	return line
}

func runC08(args []string) int {
	fs := flag.NewFlagSet("c08", flag.ExitOnError)
	maxLen := fs.Int("len", 2, "exhaustive sequence length over the alphabet")
	extra := fs.Int("extra", 300, "additional random longer sequences per configuration")
	seed := fs.Int64("seed", 1, "PRNG seed")
	out := fs.String("out", "", "observation file")
	workers := fs.Int("workers", 6, "CUTs per configuration")
	pipeline := fs.Bool("pipeline", false, "only the pipelining family: select + k data frames in one burst, cut at every byte offset")
	fs.Parse(args)
	w, err := rec.Create(*out)
	if err != nil {
		fmt.Fprintln(os.Stderr, err)
		return 2
	}
	r := rand.New(rand.NewSource(*seed))
	// enumerate scenarios
	var seqs [][]sym
	var gen func(prefix []sym)
	gen = func(prefix []sym) {
		if len(prefix) > 0 {
			seqs = append(seqs, append([]sym{}, prefix...))
		}
		if len(prefix) == *maxLen {
			return
		}
		for s := sym(0); s < nSyms; s++ {
			gen(append(prefix, s))
		}
	}
	gen(nil)
	for i := 0; i < *extra; i++ {
		n := *maxLen + 1 + r.Intn(3)
		q := make([]sym, n)
		for j := range q {
			q[j] = sym(r.Intn(int(nSyms)))
		}
		seqs = append(seqs, q)
	}
	hasF1Pattern := func(q []sym) bool { // a Select followed later by a Deselect in one burst (the shape of finding F1; counted)
		sel := false
		for _, s := range q {
			if s == symSelectReq || s == symSelectReqOtherSid {
				sel = true
			}
			if s == symDeselectReq && sel {
				return true
			}
		}
		return false
	}
	faults := 0
	f1Bursts := 0
	id := 0
	if *pipeline {
		for _, passive := range []bool{true, false} {
			jobs := make(chan c08Scenario, 256)
			var wg sync.WaitGroup
			for k := 0; k < *workers; k++ {
				wg.Add(1)
				go c08Worker(passive, false, jobs, w, *seed*100+int64(k)+500, &wg, &faults)
			}
			datas := []sym{symDataPrimaryW, symDataPrimaryNoW, symDataSecondary}
			for k := 1; k <= 3; k++ {
				q := []sym{}
				if passive {
					q = append(q, symSelectReq)
				}
				for j := 0; j < k; j++ {
					q = append(q, datas[(j+int(*seed))%3])
				}
				total := 0
				for _, s := range q {
					total += len(mkFrame(s, 1, r).Bytes())
				}
				if !passive {
					total += 14 // the pipelined Select.rsp
				}
				for cut := 0; cut < total; cut++ {
					id++
					jobs <- c08Scenario{id: id, mode: "burst", syms: q, split: 1, cutAt: cut, selRspStatus: 0}
				}
			}
			// the inbound half of the gate while NOT Selected: data with the endpoint's own and with a foreign session id,
			// before any select, after a deselection, around a select -- Reject reason 4 echoing session id and system bytes
			for _, q := range [][]sym{{symDataBadSid}, {symDataPrimaryW}, {symDataPrimaryNoW, symDataBadSid, symDataSecondary},
				{symSelectReq, symDeselectReq, symDataBadSid, symDataPrimaryW}, {symDataBadSid, symSelectReq, symDataBadSid, symDataPrimaryW}} {
				id++
				jobs <- c08Scenario{id: id, mode: "barrier", syms: q, selRspStatus: -1}
				id++
				jobs <- c08Scenario{id: id, mode: "burst", syms: q, split: 1, selRspStatus: -1}
			}
			close(jobs)
			wg.Wait()
		}
		for k := 0; k < 2; k++ { // finding F1 (fixed by cbc5287), provoked deterministically with gates
			w.Emit(c08F1Gated(900000+k, *pipeline))
		}
		if err := w.Close(); err != nil {
			fmt.Fprintln(os.Stderr, err)
			return 2
		}
		b, _ := json.Marshal(map[string]int{"lines": w.N, "faults": faults})
		fmt.Println(string(b))
		return 0
	}
	for _, cfg := range []struct{ passive, validate bool }{{true, false}, {true, true}, {false, false}, {false, true}} {
		jobs := make(chan c08Scenario, 256)
		var wg sync.WaitGroup
		for k := 0; k < *workers; k++ {
			wg.Add(1)
			go c08Worker(cfg.passive, cfg.validate, jobs, w, *seed*100+int64(k)+map[bool]int64{true: 10, false: 20}[cfg.passive]+map[bool]int64{true: 1, false: 2}[cfg.validate]*40, &wg, &faults)
		}
		for _, q := range seqs {
			// thin out: validation-on and active configurations take a seed-dependent half of the long sequences
			if (cfg.validate || !cfg.passive) && len(q) > 1 && r.Intn(2) == 0 {
				continue
			}
			sel := -1
			if !cfg.passive {
				sel = []int{0, 0, 0, 1, 2, -1}[r.Intn(6)]
			}
			id++
			jobs <- c08Scenario{id: id, mode: "barrier", syms: q, selRspStatus: sel}
			f1 := hasF1Pattern(q)
			if !cfg.passive && sel == 0 { // the pipelined Select.rsp(0) is itself a select commit
				for _, s := range q {
					if s == symDeselectReq {
						f1 = true
					}
				}
			}
			if len(q) >= 2 {
				if f1 {
					f1Bursts++
				}
				id++
				jobs <- c08Scenario{id: id, mode: "burst", syms: q, split: 1 + r.Intn(3), selRspStatus: sel}
			}
		}
		close(jobs)
		wg.Wait()
	}
	for k := 0; k < 2; k++ { // finding F1 (fixed by cbc5287), provoked deterministically with gates
		w.Emit(c08F1Gated(900000+k, *pipeline))
	}
	if err := w.Close(); err != nil {
		fmt.Fprintln(os.Stderr, err)
		return 2
	}
	b, _ := json.Marshal(map[string]int{"lines": w.N, "faults": faults, "select_deselect_bursts": f1Bursts})
	fmt.Println(string(b))
	return 0
}
