package main

import (
	"context"
	"encoding/json"
	"errors"
	"flag"
	"fmt"
	"math/rand"
	"net"
	"os"
	"strings"
	"sync"
	"time"

	"github.com/arloliu/go-secs/v2/hsms"
	"github.com/arloliu/go-secs/v2/secs2"

	"verif/harness/lab"
	"verif/harness/peerkit"
	"verif/harness/rec"
)

func init() {
	register("s1", "SECS-I: block format, inbound assembly, faulty-line retransmission and contention against an E4 reference peer (C17/C18)", runS1)
}

const (
	s1T1 = 60 * time.Millisecond
	s1T2 = 150 * time.Millisecond
	s1T4 = 300 * time.Millisecond
)

type s1Session struct {
	cut  *lab.S1CUT
	pl   net.Listener
	peer *peerkit.E4Peer
	raw  net.Conn
}

func newS1Session(passive, equip bool, device, retry int) (*s1Session, error) {
	cut, err := lab.NewS1CUT(lab.S1Options{Passive: passive, Equip: equip, Device: device, T1: s1T1, T2: s1T2, T4: s1T4, Retry: retry,
		T3: 400 * time.Millisecond, T5: 30 * time.Millisecond, BackoffInit: 2 * time.Millisecond})
	if err != nil {
		return nil, err
	}
	s := &s1Session{cut: cut}
	if !passive {
		l, err := net.Listen("tcp", "127.0.0.1:0")
		if err != nil {
			return nil, err
		}
		s.pl = l
		cut.Net.SetTarget(l.Addr().String())
	}
	if err := cut.Open(); err != nil {
		return nil, err
	}
	if err := s.connect(); err != nil {
		s.close()
		return nil, err
	}
	return s, nil
}

func (s *s1Session) connect() error {
	raw, err := s.cut.ConnectRaw(s.pl, 3*time.Second)
	if err != nil {
		return err
	}
	s.raw = raw
	s.peer = peerkit.NewE4Peer(raw, s1T1, s1T2, !s.cut.Equip) // the peer plays the opposite role
	if !s.cut.WaitState("S", 2*time.Second) {
		return fmt.Errorf("secs1 CUT did not reach Selected")
	}
	return nil
}

func (s *s1Session) close() {
	if s.raw != nil {
		s.raw.Close()
	}
	s.cut.Conn.Close()
	if s.pl != nil {
		s.pl.Close()
	}
}

// ---------------------------------------------------------------- C17 send half
type s1Send struct {
	T       string  `json:"t"` // "e4send"
	IsEquip bool    `json:"is_equip"`
	Device  int     `json:"device"`
	S       int     `json:"s"`
	F       int     `json:"f"`
	W       bool    `json:"w"`
	Sb      []int   `json:"sb"`
	Body    []int   `json:"body"`
	Blocks  [][]int `json:"blocks"`
	SendErr string  `json:"send_err"`
	Fault   string  `json:"fault"`
}

func s1SendHalf(w *rec.Writer, r *rand.Rand, full bool) {
	lens := []int{0, 1, 243, 244, 245, 487, 488, 489, 732, 733}
	if full {
		lens = append(lens, 2, 242, 246, 486, 490, 731, 734, 976, 977, 1220, 1221)
	}
	type combo struct {
		passive, equip bool
		device         int
	}
	combos := []combo{{false, false, 0x0001}, {true, true, 0x7FFF}, {false, true, 0x0123}, {true, false, 0x0100}}
	var wg sync.WaitGroup
	var mu sync.Mutex
	for _, cb := range combos {
		wg.Add(1)
		go func(cb combo, gr *rand.Rand) {
			defer wg.Done()
			ses, err := newS1Session(cb.passive, cb.equip, cb.device, 1)
			if err != nil {
				mu.Lock()
				w.Emit(&s1Send{T: "e4send", Fault: err.Error(), Sb: []int{}, Body: []int{}, Blocks: [][]int{}})
				mu.Unlock()
				return
			}
			defer ses.close()
			mylens := lens
			if cb.device == 0x0123 {
				mylens = append(append([]int{}, lens...), 255*244, 256*244+1) // block numbers beyond one byte
			}
			for _, n := range mylens {
				// an item whose ENCODED length is exactly n: binary payload with a 2/3/4-byte item header
				var item secs2.Item
				switch {
				case n == 0:
					item = nil
				case n == 1:
					item = nil // a 1-byte body cannot be a well-formed item; skip to 2 via an empty list
					n = 2
					item = secs2.L()
				case n-2 <= 255:
					item = secs2.B(randBytesN(gr, n-2))
				case n-3 <= 65535:
					item = secs2.B(randBytesN(gr, n-3))
				default:
					item = secs2.B(randBytesN(gr, n-4))
				}
				stream, function := []int{1, 6, 64, 127}[gr.Intn(4)], []int{1, 3, 11, 255}[gr.Intn(4)]
				line := &s1Send{T: "e4send", IsEquip: cb.equip, Device: cb.device, S: stream, F: function, W: false, Sb: []int{}, Body: []int{}, Blocks: [][]int{}}
				if item != nil {
					line.Body = rec.Ints(item.ToBytes())
				}
				done := make(chan error, 1)
				go func() {
					_, err := ses.cut.Conn.SendDataMessage(context.Background(), byte(stream), byte(function), false, item)
					done <- err
				}()
				for {
					raw, good, what := ses.peer.RecvBlock(2*time.Second, peerkit.RecvOpts{})
					if what != "block" || !good {
						line.Fault = "peer could not receive a block: " + what
						break
					}
					line.Blocks = append(line.Blocks, rec.Ints(raw))
					if raw[5]&0x80 != 0 { // E-bit
						line.Sb = rec.Ints(raw[7:11])
						break
					}
				}
				select {
				case err := <-done:
					if err != nil {
						line.SendErr = err.Error()
					}
				case <-time.After(3 * time.Second):
					line.SendErr = "send did not return"
				}
				mu.Lock()
				w.Emit(line)
				mu.Unlock()
			}
		}(cb, rand.New(rand.NewSource(r.Int63())))
	}
	wg.Wait()
}

func randBytesN(r *rand.Rand, n int) []byte {
	b := make([]byte, n)
	r.Read(b)
	return b
}

// ---------------------------------------------------------------- C17 receive half
type s1Sent struct {
	Cls   string `json:"cls"`
	Raw   []int  `json:"raw"`
	Good  bool   `json:"good"`
	GapMs int    `json:"gap_ms"` // time since the previous accepted block was put on the line
	AtMs  int    `json:"at_ms"`  // when the reply to this block came back, relative to the scenario start
	Reply string `json:"reply"`
}

type s1Recv struct {
	T         string           `json:"t"` // "e4recv"
	IsEquip   bool             `json:"is_equip"`
	Device    int              `json:"device"`
	T4Ms      int              `json:"t4_ms"`
	Sent      []s1Sent         `json:"sent"`
	Delivered []lab.S1Delivery `json:"delivered"`
	Notices   [][]int          `json:"notices"` // block images the library sent on its own (S9Fx of the equipment role)
	Alive     bool             `json:"alive"`
	State     string           `json:"state"`
	Fault     string           `json:"fault"`
}

var s1Classes = []string{"V", "V", "V", "D", "K", "H", "X", "R", "C", "L", "Z", "N", "T", "S"}

// scripted inbound sequences (3-block messages) that random sampling rarely hits
var s1Scripts = []string{"VSS", "VSSVSS", "VSTV", "VTV", "VDVDV", "VVDDV", "VKVVV", "VXVRV", "ZVVV", "VCVLV", "VHVVV", "VVNVV", "VSDSV", "DVVV", "KVVV"}

func s1RecvScenario(ses *s1Session, r *rand.Rand, n int, script string) *s1Recv {
	cut := ses.cut
	line := &s1Recv{T: "e4recv", IsEquip: cut.Equip, Device: cut.Device, T4Ms: int(s1T4 / time.Millisecond), Sent: []s1Sent{}, Delivered: []lab.S1Delivery{}, Notices: [][]int{}}
	cut.TakeDeliveries()
	ses.peer.Drain(5 * time.Millisecond)
	ses.peer.TakeYielded()
	peerIsEquip := !cut.Equip
	// the message currently being sent by the peer
	var sb uint32 = r.Uint32()
	stream, function := 1+r.Intn(100), 1+2*r.Intn(100)
	nblocks := 1 + r.Intn(3)
	if script != "" {
		nblocks, n = 3, len(script)
	}
	next := 1
	var lastRaw []byte
	newMsg := func() {
		sb = r.Uint32()
		stream, function = 1+r.Intn(100), 1+2*r.Intn(100)
		nblocks = 1 + r.Intn(3)
		if script != "" {
			nblocks = 3
		}
		next = 1
	}
	lastSend := time.Now()
	scenStart := lastSend
	for i := 0; i < n; i++ {
		cls := s1Classes[r.Intn(len(s1Classes))]
		if script != "" {
			cls = script[i : i+1]
		}
		body := randBytesN(r, []int{0, 1, 10, 244}[r.Intn(4)])
		var raw []byte
		gap := time.Duration(0)
		mk := func(dev int, rb bool, f, no int, e bool) []byte {
			return peerkit.E4Block(dev, rb, stream, f, false, no, e, sb, body)
		}
		switch cls {
		case "V":
			raw = mk(cut.Device, peerIsEquip, function, next, next == nblocks)
			next++
		case "D":
			if lastRaw == nil {
				raw = mk(cut.Device, peerIsEquip, function, next, next == nblocks)
				next++
				cls = "V"
			} else {
				raw = lastRaw
			}
		case "K":
			raw = mk(cut.Device, peerIsEquip, function, next+1, false)
		case "H":
			raw = mk(cut.Device, peerIsEquip, function+2, next, next == nblocks)
		case "X":
			raw = mk((cut.Device+1)&0x7fff, peerIsEquip, function, next, next == nblocks)
		case "R":
			raw = mk(cut.Device, !peerIsEquip, function, next, next == nblocks)
		case "C":
			raw = mk(cut.Device, peerIsEquip, function, next, next == nblocks)
			raw[len(raw)-1] ^= 0x01
		case "L":
			raw = mk(cut.Device, peerIsEquip, function, next, next == nblocks)
			raw[0] = byte(3 + r.Intn(6)) // a length byte below 10
		case "Z":
			raw = mk(cut.Device, peerIsEquip, function, 0, true)
		case "N":
			newMsg()
			raw = mk(cut.Device, peerIsEquip, function, 1, nblocks == 1)
			next = 2
		case "T":
			gap = s1T4 + 250*time.Millisecond
			raw = mk(cut.Device, peerIsEquip, function, next, next == nblocks)
			next++
		case "S": // slow, but inside T4
			gap = s1T4 * 2 / 3
			raw = mk(cut.Device, peerIsEquip, function, next, next == nblocks)
			next++
		}
		if gap > 0 {
			ses.peer.ServeFor(gap)
		}
		sendAt := time.Now()
		res := ses.peer.SendBlock(raw, peerkit.SendOpts{})
		good := cls != "C" && cls != "L"
		line.Sent = append(line.Sent, s1Sent{Cls: cls, Raw: rec.Ints(raw), Good: good, GapMs: int(sendAt.Sub(lastSend) / time.Millisecond),
			AtMs: int(time.Since(scenStart) / time.Millisecond), Reply: res})
		if good && res == "ack" {
			lastSend = sendAt
			lastRaw = raw
		}
		if next > nblocks && (cls == "V" || cls == "T" || cls == "S") {
			newMsg()
		}
		if res == "io" || res == "no-eot" {
			break
		}
	}
	ses.peer.Drain(120 * time.Millisecond) // S9 notices travel through the async send queue: on a loaded machine 40 ms missed a late one
	for _, y := range ses.peer.TakeYielded() {
		line.Notices = append(line.Notices, rec.Ints(y.Raw))
	}
	line.Delivered = cut.AwaitDeliveries(0, 0, 15*time.Millisecond)
	line.State = cut.State()
	line.Alive = !ses.peer.IsClosedByRemote(20*time.Millisecond) && line.State == "S"
	return line
}

// ---------------------------------------------------------------- C18: the library sends over a faulty line
type s1Line struct {
	T          string   `json:"t"` // "e4line"
	IsEquip    bool     `json:"is_equip"`
	Retry      int      `json:"retry"`
	Faults     []string `json:"faults"`
	FaultsRow  int      `json:"faults_in_a_row"`
	Attempts   int      `json:"attempts"`    // ENQs of the library for this block (until success or give-up)
	SendResult string   `json:"send_result"` // "nil" or the error text
	PeerGood   int      `json:"peer_got_good"`
	Relinked   bool     `json:"relinked"`
	Fault      string   `json:"fault"`
	trace      *s1Trace
}

var s1FaultKinds = []string{"ignore-enq", "nak", "garbage-reply", "no-reply", "wrong-grant", "contend-bad"}

func s1LineScenario(passive, equip bool, retry, faults int, r *rand.Rand) *s1Line {
	line := &s1Line{T: "e4line", IsEquip: equip, Retry: retry, FaultsRow: faults, Faults: []string{}}
	ses, err := newS1Session(passive, equip, 0x0042, retry)
	if err != nil {
		line.Fault = err.Error()
		return line
	}
	defer ses.close()
	done := make(chan error, 1)
	go func() {
		_, err := ses.cut.Conn.SendDataMessage(context.Background(), 6, 11, false, secs2.A("payload"))
		done <- err
	}()
	deadline := time.Now().Add(time.Duration(retry+3) * (s1T2*2 + s1T1*3 + 100*time.Millisecond))
	for time.Now().Before(deadline) {
		select {
		case err := <-done:
			line.SendResult = "nil"
			if err != nil {
				line.SendResult = err.Error()
			}
			goto finished
		default:
		}
		k := line.Attempts
		opts := peerkit.RecvOpts{}
		kind := "pass"
		if k < faults {
			kind = s1FaultKinds[r.Intn(len(s1FaultKinds))]
			if kind == "contend-bad" && equip {
				kind = "nak" // only a host (slave) yields to contention
			}
		}
		switch kind {
		case "ignore-enq":
			opts.IgnoreENQ = true
		case "nak":
			opts.Reply = peerkit.NAK
		case "garbage-reply":
			opts.Reply = 0x7E
		case "no-reply":
			opts.Reply = 0xFF
		case "wrong-grant":
			opts.WrongGrant = 0x7E
		}
		if kind == "contend-bad" {
			// the master contends: it sends its own ENQ instead of granting, then a block with a flipped character
			raw, _, what := ses.peer.RecvBlock(300*time.Millisecond, peerkit.RecvOpts{WrongGrant: peerkit.ENQ})
			_ = raw
			if what == "idle" || what == "io" {
				continue
			}
			line.Attempts++
			line.Faults = append(line.Faults, kind)
			// the library (slave) should now grant with EOT; deliver a corrupted block
			bad := peerkit.E4Block(0x0042, true, 1, 1, false, 1, true, 0x99, []byte{1, 2, 3})
			bad[5] ^= 0x10
			ses.peer.SendBlock(bad, peerkit.SendOpts{EnqSent: true})
			continue
		}
		raw, good, what := ses.peer.RecvBlock(300*time.Millisecond, opts)
		if what == "idle" {
			continue
		}
		if what == "io" {
			break
		}
		line.Attempts++
		if kind != "pass" {
			line.Faults = append(line.Faults, kind)
		}
		if what == "block" && good && kind == "pass" {
			line.PeerGood++
			_ = raw
		}
	}
	select {
	case err := <-done:
		line.SendResult = "nil"
		if err != nil {
			line.SendResult = err.Error()
		}
	case <-time.After(2 * time.Second):
		line.SendResult = "hung"
	}
finished:
	if line.SendResult == "nil" {
		line.trace = s1MakeTrace("line", ses, ses.peer.Events(), retry, []int{1}, []string{"ok"}, nil)
	}
	if line.SendResult != "nil" {
		// after a failed send the link is re-established: the old socket is closed by the library and a new generation comes up
		closed := ses.peer.IsClosedByRemote(time.Second)
		if closed {
			ses.peer.NoteClosed()
			line.trace = s1MakeTrace("line", ses, ses.peer.Events(), retry, []int{1}, []string{"failed"}, nil)
			ses.raw.Close()
			if err := ses.connect(); err == nil {
				line.Relinked = true
			}
		}
	}
	return line
}

// ---------------------------------------------------------------- C18: the peer sends; ACKs get "lost" so blocks are retransmitted
type s1Once struct {
	T         string  `json:"t"` // "e4once"
	IsEquip   bool    `json:"is_equip"`
	Pattern   string  `json:"pattern"`
	Expected  [][]int `json:"expected"`  // bodies of the messages the peer sent, in order
	Delivered [][]int `json:"delivered"` // bodies handed to the handler, in order
	Alive     bool    `json:"alive"`
	Fault     string  `json:"fault"`
	trace     *s1Trace
}

func s1OnceScenario(ses *s1Session, r *rand.Rand) *s1Once {
	cut := ses.cut
	line := &s1Once{T: "e4once", IsEquip: cut.Equip, Expected: [][]int{}, Delivered: [][]int{}}
	cut.TakeDeliveries()
	logStart := len(ses.peer.Events())
	peerIsEquip := !cut.Equip
	pat := ""
	for m := 0; m < 3; m++ {
		nb := 1 + r.Intn(3)
		sb := r.Uint32()
		var whole []byte
		for b := 1; b <= nb; b++ {
			body := randBytesN(r, []int{1, 7, 244}[r.Intn(3)])
			if b < nb {
				body = randBytesN(r, 244)
			}
			whole = append(whole, body...)
			raw := peerkit.E4Block(cut.Device, peerIsEquip, 5, 1, false, b, b == nb, sb, body)
			switch r.Intn(4) {
			case 0: // clean
				pat += "s"
				ses.peer.SendBlock(raw, peerkit.SendOpts{})
			case 1: // our copy of the ACK is "lost": retransmit the already accepted block (once or twice)
				pat += "d"
				ses.peer.SendBlock(raw, peerkit.SendOpts{})
				for k := 0; k <= r.Intn(2); k++ {
					ses.peer.SendBlock(raw, peerkit.SendOpts{})
				}
			case 2: // one character flipped on the first attempt: NAK, then the good block
				pat += "f"
				bad := append([]byte{}, raw...)
				bad[1+r.Intn(len(bad)-1)] ^= 1 << uint(r.Intn(8))
				ses.peer.SendBlock(bad, peerkit.SendOpts{})
				ses.peer.SendBlock(raw, peerkit.SendOpts{})
			case 3: // truncated first attempt (T1 at the receiver), then the good block
				pat += "t"
				ses.peer.SendBlock(raw, peerkit.SendOpts{CutAt: 1 + r.Intn(len(raw)-2)})
				ses.peer.ServeFor(s1T1 + 20*time.Millisecond)
				ses.peer.SendBlock(raw, peerkit.SendOpts{})
			}
		}
		pat += "|"
		line.Expected = append(line.Expected, rec.Ints(whole))
	}
	line.Pattern = pat
	dels := cut.AwaitDeliveries(3, time.Second, 10*time.Millisecond)
	for _, d := range dels {
		line.Delivered = append(line.Delivered, d.Body)
	}
	line.trace = s1MakeTrace("once", ses, ses.peer.Events()[logStart:], 1, []int{}, []string{}, dels)
	line.Alive = !ses.peer.IsClosedByRemote(20*time.Millisecond) && cut.State() == "S"
	return line
}

// ---------------------------------------------------------------- C18: contention
type s1Cont struct {
	T          string           `json:"t"` // "e4cont"
	IsEquip    bool             `json:"is_equip"` // role of the library end
	SendResult string           `json:"send_result"`
	PeerGood   int              `json:"peer_got_good"`
	Delivered  []lab.S1Delivery `json:"delivered"`
	FirstOnLine string          `json:"first_on_line"` // whose block crossed the line first: "equipment" | "host"
	Multi      bool             `json:"multi"`    // both messages have two blocks; the contention hits between the peer's two blocks
	WantGood   int              `json:"want_peer_good"`
	WantLen    int              `json:"want_len"` // body length of the message the library must deliver
	Fault      string           `json:"fault"`
	trace      *s1Trace
}

// s1ContMulti: the library is the host (slave). The equipment peer is in the middle of a two-block message -- block 1
// went over an idle line -- when the application sends a two-block message of its own: the library's ENQ collides with the
// peer's ENQ for block 2, the library yields and takes block 2 inside its own send, then sends its two blocks. The peer's
// message is delivered exactly once and whole, the library's message arrives whole.
func s1ContMulti(passive bool) *s1Cont {
	line := &s1Cont{T: "e4cont", IsEquip: false, Multi: true, WantGood: 2, Delivered: []lab.S1Delivery{}}
	ses, err := newS1Session(passive, false, 0x0010, 2)
	if err != nil {
		line.Fault = err.Error()
		return line
	}
	defer ses.close()
	ses.cut.TakeDeliveries()
	text := make([]byte, 300)
	for i := range text {
		text[i] = byte('a' + i%26)
	}
	body := append([]byte{0x42, 0x01, 0x2C}, text...)
	line.WantLen = len(body)
	b1 := peerkit.E4Block(0x0010, true, 7, 1, false, 1, false, 0x778, body[:244])
	b2 := peerkit.E4Block(0x0010, true, 7, 1, false, 2, true, 0x778, body[244:])
	if res := ses.peer.SendBlock(b1, peerkit.SendOpts{}); res != "ack" {
		line.Fault = "first block of the peer's message was not accepted: " + res
		return line
	}
	tB1 := time.Now()
	done := make(chan error, 1)
	go func() {
		_, err := ses.cut.Conn.SendDataMessage(context.Background(), 6, 11, false, secs2.A(string(text)))
		done <- err
	}()
	if _, _, what := ses.peer.RecvBlock(2*time.Second, peerkit.RecvOpts{WrongGrant: peerkit.ENQ}); what != "wrong-grant" {
		line.Fault = "no ENQ from the library: " + what
		return line
	}
	if ses.peer.SendBlock(b2, peerkit.SendOpts{EnqSent: true}) == "ack" {
		line.FirstOnLine = "equipment"
	}
	if gap := time.Since(tB1); gap > s1T4/2 { // the library's T4 may legitimately have discarded the partial message
		line.Fault = fmt.Sprintf("harness too slow between the peer's two blocks (%v, T4 %v)", gap, s1T4)
		return line
	}
	for k := 0; k < 2; k++ {
		if _, good, what := ses.peer.RecvBlock(2*time.Second, peerkit.RecvOpts{}); what == "block" && good {
			line.PeerGood++
		}
	}
	select {
	case err := <-done:
		line.SendResult = "nil"
		if err != nil {
			line.SendResult = err.Error()
		}
	case <-time.After(3 * time.Second):
		line.SendResult = "hung"
	}
	line.Delivered = ses.cut.AwaitDeliveries(1, time.Second, 10*time.Millisecond)
	return line
}

func s1ContScenario(passive, equip bool) *s1Cont {
	line := &s1Cont{T: "e4cont", IsEquip: equip, WantGood: 1, WantLen: 6, Delivered: []lab.S1Delivery{}}
	ses, err := newS1Session(passive, equip, 0x0010, 2)
	if err != nil {
		line.Fault = err.Error()
		return line
	}
	defer ses.close()
	ses.cut.TakeDeliveries()
	done := make(chan error, 1)
	go func() {
		_, err := ses.cut.Conn.SendDataMessage(context.Background(), 6, 11, false, secs2.A("from-library"))
		done <- err
	}()
	mine := peerkit.E4Block(0x0010, !equip, 7, 1, false, 1, true, 0x777, []byte{0x41, 0x04, 'p', 'e', 'e', 'r'})
	// wait for the library's ENQ, then contend with our own ENQ instead of granting
	raw, _, what := ses.peer.RecvBlock(2*time.Second, peerkit.RecvOpts{WrongGrant: peerkit.ENQ})
	_ = raw
	if what != "wrong-grant" {
		line.Fault = "no ENQ from the library: " + what
		return line
	}
	if !equip {
		// the library is the host (slave): it must yield -- grant with EOT and take our block first
		res := ses.peer.SendBlock(mine, peerkit.SendOpts{EnqSent: true})
		if res == "ack" {
			line.FirstOnLine = "equipment"
		}
		// then its postponed block follows
		_, good, what := ses.peer.RecvBlock(2*time.Second, peerkit.RecvOpts{})
		if what == "block" && good {
			line.PeerGood++
		}
	} else {
		// the library is the equipment (master): it ignores our ENQ and keeps waiting for EOT -- we (slave) yield
		_, good, what := ses.peer.RecvBlock(10*time.Millisecond, peerkit.RecvOpts{})
		if what == "idle" {
			// it already sent its ENQ; grant now
			_ = ses.raw.SetWriteDeadline(time.Now().Add(time.Second))
			ses.raw.Write([]byte{peerkit.EOT})
			raw2, g2, w2 := recvAfterGrant(ses.peer)
			_ = raw2
			good, what = g2, w2
		}
		if what == "block" && good {
			line.PeerGood++
			line.FirstOnLine = "equipment"
		}
		if ses.peer.SendBlock(mine, peerkit.SendOpts{}) != "ack" {
			line.Fault = "postponed host block was not accepted"
		}
	}
	select {
	case err := <-done:
		line.SendResult = "nil"
		if err != nil {
			line.SendResult = err.Error()
		}
	case <-time.After(3 * time.Second):
		line.SendResult = "hung"
	}
	line.Delivered = ses.cut.AwaitDeliveries(1, time.Second, 10*time.Millisecond)
	if line.SendResult == "nil" {
		line.trace = s1MakeTrace("cont", ses, ses.peer.Events(), 2, []int{1}, []string{"ok"}, line.Delivered)
	}
	return line
}

// recvAfterGrant reads one block after the EOT was already written by the caller.
func recvAfterGrant(p *peerkit.E4Peer) ([]byte, bool, string) {
	return p.RecvAfterGrant()
}


// ---------------------------------------------------------------- C17: a violation notice must not wedge the line engine
type s1Wedge struct {
	T            string `json:"t"` // "e4wedge"
	Violation    string `json:"violation"`
	Queued       int    `json:"queued_async_sends"`
	BlocksBefore int    `json:"blocks_before_violation"`
	BlocksAfter  int    `json:"blocks_after_violation"` // blocks the library put on the line after the malformed block (progress)
	Notices      int    `json:"notices"`
	ProbeResult  string `json:"probe_send_result"` // a synchronous send issued after the violation: "nil" | error | "hung"
	State        string `json:"state"`
	Alive        bool   `json:"alive"`
	Fault        string `json:"fault"`
}

func s1WedgeScenario(violation string) *s1Wedge {
	line := &s1Wedge{T: "e4wedge", Violation: violation, Queued: 150}
	ses, err := newS1Session(true, true, 0x0021, 3) // the library is the equipment: it owes S9 notices
	if err != nil {
		line.Fault = err.Error()
		return line
	}
	defer ses.close()
	// the application floods fire-and-forget sends (the async queue fills and its producers block)
	stop := make(chan struct{})
	var wg sync.WaitGroup
	for g := 0; g < 3; g++ {
		wg.Add(1)
		go func() {
			defer wg.Done()
			for i := 0; i < line.Queued/3; i++ {
				select {
				case <-stop:
					return
				default:
				}
				ctx, cancel := context.WithTimeout(context.Background(), 6*time.Second)
				_ = ses.cut.Conn.SendDataMessageAsync(ctx, 6, 11, false, secs2.A("flood"))
				cancel()
			}
		}()
	}
	defer func() { close(stop); ses.raw.Close(); wg.Wait() }()
	bad := func() []byte {
		switch violation {
		case "wrong-device":
			return peerkit.E4Block(0x0022, false, 1, 1, false, 1, true, 0xABC, []byte{1})
		case "skipped-block":
			return peerkit.E4Block(0x0021, false, 1, 1, false, 5, true, 0xABD, []byte{1})
		}
		return peerkit.E4Block(0x0021, false, 1, 1, false, 1, true, 0xABE, []byte{1}) // "none": a well-formed message (control)
	}()
	// serve the library's blocks; after a few of them put the malformed block on the line right behind an ACK
	sentBad := false
	deadline := time.Now().Add(5 * time.Second)
	quiet := 0
	for time.Now().Before(deadline) {
		raw, good, what := ses.peer.RecvBlock(400*time.Millisecond, peerkit.RecvOpts{})
		if what == "idle" {
			quiet++
			if sentBad && quiet >= 3 {
				break
			}
			continue
		}
		if what == "io" {
			break
		}
		quiet = 0
		if what == "block" && good && len(raw) > 5 {
			if raw[3]&0x7f == 9 {
				line.Notices++
			} else if sentBad {
				line.BlocksAfter++
			} else {
				line.BlocksBefore++
			}
		}
		if !sentBad && line.BlocksBefore >= 5 {
			sentBad = true
			for try := 0; try < 6; try++ { // as the slave the peer may lose the line to the master: ask again
				if res := ses.peer.SendBlock(bad, peerkit.SendOpts{}); res == "ack" {
					break
				}
			}
			for _, y := range ses.peer.TakeYielded() {
				if len(y.Raw) > 5 && y.Good {
					if y.Raw[3]&0x7f == 9 {
						line.Notices++
					} else {
						line.BlocksAfter++
					}
				}
			}
		}
		if line.BlocksAfter >= 20 {
			break
		}
	}
	if !sentBad {
		line.Fault = "the malformed block was never sent"
		return line
	}
	// a synchronous send after the violation must still get through
	probe := make(chan error, 1)
	go func() {
		ctx, cancel := context.WithTimeout(context.Background(), 8*time.Second)
		defer cancel()
		_, err := ses.cut.Conn.SendDataMessage(ctx, 6, 13, false, secs2.A("probe"))
		probe <- err
	}()
	end := time.Now().Add(9 * time.Second)
	for time.Now().Before(end) {
		select {
		case err := <-probe:
			line.ProbeResult = "nil"
			if err != nil {
				line.ProbeResult = err.Error()
			}
			end = time.Now()
		default:
			if _, _, what := ses.peer.RecvBlock(100*time.Millisecond, peerkit.RecvOpts{}); what == "block" {
				line.BlocksAfter++
			}
		}
	}
	if line.ProbeResult == "" {
		line.ProbeResult = "hung"
	}
	line.State = ses.cut.State()
	line.Alive = !ses.peer.IsClosedByRemote(10 * time.Millisecond)
	return line
}

// ---------------------------------------------------------------- C20 on SECS-I: counters and gauges at quiescent points
type s1Met struct {
	T            string     `json:"t"` // "e4met"
	IsEquip      bool       `json:"is_equip"`
	Passive      bool       `json:"passive"`
	M0           txnMetrics `json:"m0"`
	M1           txnMetrics `json:"m1"` // quiescent, generation 1: every call has returned
	M2           txnMetrics `json:"m2"` // quiescent, generation 2 Selected
	SentOK       int        `json:"sends_ok"`       // send calls that returned nil (no-W) or a reply (W)
	SentT3       int        `json:"sends_t3"`       // W sends that ended in T3
	PeerGotMsgs  int        `json:"peer_got_msgs"`  // complete messages (E-bit block ACKed) the peer received in generation 1
	PeerSentMsgs int        `json:"peer_sent_msgs"` // complete well-formed messages the peer sent in generation 1
	Delivered    int        `json:"delivered"`
	MinInflight  int        `json:"min_inflight"`
	MinReconn    int        `json:"min_reconnecting"`
	Gen2         bool       `json:"gen2_selected"`
	Fault        string     `json:"fault"`
}

func s1MetScenario(passive, equip bool) *s1Met {
	line := &s1Met{T: "e4met", IsEquip: equip, Passive: passive}
	cut, err := lab.NewS1CUT(lab.S1Options{Passive: passive, Equip: equip, Device: 0x0044, T1: s1T1, T2: s1T2, T4: s1T4, Retry: 2,
		T3: 150 * time.Millisecond, T5: 30 * time.Millisecond, BackoffInit: 2 * time.Millisecond})
	if err != nil {
		line.Fault = err.Error()
		return line
	}
	ses := &s1Session{cut: cut}
	if !passive {
		l, err := net.Listen("tcp", "127.0.0.1:0")
		if err != nil {
			line.Fault = err.Error()
			return line
		}
		ses.pl = l
		cut.Net.SetTarget(l.Addr().String())
	}
	if err := cut.Open(); err != nil {
		line.Fault = err.Error()
		return line
	}
	defer ses.close()
	if err := ses.connect(); err != nil {
		line.Fault = err.Error()
		return line
	}
	stop := make(chan struct{})
	var swg sync.WaitGroup
	swg.Add(1)
	go func() { // gauges are sampled throughout
		defer swg.Done()
		m := cut.Conn.Metrics()
		for {
			select {
			case <-stop:
				return
			default:
			}
			if v := int(m.DataMsgInflightCount()); v < line.MinInflight {
				line.MinInflight = v
			}
			if v := int(m.Reconnecting()); v < line.MinReconn {
				line.MinReconn = v
			}
			time.Sleep(500 * time.Microsecond)
		}
	}()
	line.M0 = snapMetrics(cut.Conn)
	// the library sends: two fire-and-wait-free messages, one W answered, one W never answered (T3)
	type res struct {
		w   bool
		err error
	}
	results := make(chan res, 4)
	peerIsEquip := !equip
	serve := func(reply bool) bool { // receive one complete message; optionally answer it
		var last []byte
		for {
			raw, good, what := ses.peer.RecvBlock(time.Second, peerkit.RecvOpts{})
			if what != "block" || !good {
				return false
			}
			last = raw
			if raw[5]&0x80 != 0 {
				break
			}
		}
		line.PeerGotMsgs++
		if reply {
			sb := uint32(last[7])<<24 | uint32(last[8])<<16 | uint32(last[9])<<8 | uint32(last[10])
			blk := peerkit.E4Block(0x0044, peerIsEquip, int(last[3]&0x7f), int(last[4])+1, false, 1, true, sb, []byte{0x41, 0x02, 'o', 'k'})
			if ses.peer.SendBlock(blk, peerkit.SendOpts{}) == "ack" {
				line.PeerSentMsgs++
			}
		}
		return true
	}
	for i, w := range []bool{false, false, true, true} {
		go func(i int, w bool) {
			_, err := cut.Conn.SendDataMessage(context.Background(), 6, byte(1+2*i), w, secs2.A(fmt.Sprint("m", i)))
			results <- res{w, err}
		}(i, w)
		if !serve(w && i == 2) {
			line.Fault = "the peer did not receive message " + fmt.Sprint(i)
			break
		}
		r := <-results
		switch {
		case r.err == nil:
			line.SentOK++
		case errors.Is(r.err, hsms.ErrT3Timeout):
			line.SentT3++
		default:
			line.Fault = "unexpected send result: " + r.err.Error()
		}
	}
	// the peer sends two more complete messages (one of two blocks)
	if line.Fault == "" {
		b1 := peerkit.E4Block(0x0044, peerIsEquip, 5, 1, false, 1, false, 0x5001, randBytesN(rand.New(rand.NewSource(1)), 244))
		b2 := peerkit.E4Block(0x0044, peerIsEquip, 5, 1, false, 2, true, 0x5001, []byte{1, 2, 3})
		b3 := peerkit.E4Block(0x0044, peerIsEquip, 5, 3, false, 1, true, 0x5002, []byte{0x41, 0x01, 'x'})
		if ses.peer.SendBlock(b1, peerkit.SendOpts{}) == "ack" && ses.peer.SendBlock(b2, peerkit.SendOpts{}) == "ack" {
			line.PeerSentMsgs++
		}
		if ses.peer.SendBlock(b3, peerkit.SendOpts{}) == "ack" {
			line.PeerSentMsgs++
		}
	}
	ses.peer.Drain(60 * time.Millisecond) // the library's own messages (S9F9 after the T3 of an equipment) count as sent too
	for _, y := range ses.peer.TakeYielded() {
		if y.Good && len(y.Raw) > 6 && y.Raw[5]&0x80 != 0 {
			line.PeerGotMsgs++
		}
	}
	line.M1 = snapMetrics(cut.Conn)
	line.Delivered = len(cut.AwaitDeliveries(0, 0, 15*time.Millisecond))
	// drop, relink, quiescent again
	ses.raw.Close()
	if err := ses.connect(); err == nil {
		line.Gen2 = true
		time.Sleep(20 * time.Millisecond)
	}
	line.M2 = snapMetrics(cut.Conn)
	close(stop)
	swg.Wait()
	return line
}

// ---------------------------------------------------------------- C09 on SECS-I: nothing crosses generations
type s1GenSend struct {
	Name      string `json:"name"`
	Kind      string `json:"kind"` // "noW" | "W" | "async"
	Returned  bool   `json:"returned"`
	LatencyMs int    `json:"latency_ms"` // drop -> return (negative: returned before the drop)
	Err       string `json:"err"`
}

type s1Gen struct {
	T        string      `json:"t"` // "e4gen"
	IsEquip  bool        `json:"is_equip"`
	Mode     string      `json:"mode"` // "peer-close" | "peer-stall-close"
	Sends    []s1GenSend `json:"sends"`
	Stale    int         `json:"stale_blocks"` // blocks of the old generation's messages seen on the new generation's line
	NextGen  bool        `json:"next_gen_up"`
	Passive  bool        `json:"passive"`
	Reconnects int       `json:"reconnects_delta"` // Metrics().Reconnects() after - before the drop (active: one per successful re-dial)
	FreshOK  bool        `json:"fresh_send_ok"` // a send accepted on the new generation arrives there
	reconn0  int
	JitterMs int         `json:"max_jitter_ms"`
	Fault    string      `json:"fault"`
}

func s1GenScenario(passive, equip bool, mode string) *s1Gen {
	line := &s1Gen{T: "e4gen", IsEquip: equip, Passive: passive, Mode: mode, Sends: []s1GenSend{}}
	t0 := time.Now()
	cut, err := lab.NewS1CUT(lab.S1Options{Passive: passive, Equip: equip, Device: 0x0033, T1: s1T1, T2: s1T2, T4: s1T4, Retry: 6,
		T3: 5 * time.Second, T5: 30 * time.Millisecond, BackoffInit: 2 * time.Millisecond})
	if err != nil {
		line.Fault = err.Error()
		return line
	}
	ses := &s1Session{cut: cut}
	if !passive {
		l, err := net.Listen("tcp", "127.0.0.1:0")
		if err != nil {
			line.Fault = err.Error()
			return line
		}
		ses.pl = l
		cut.Net.SetTarget(l.Addr().String())
	}
	if err := cut.Open(); err != nil {
		line.Fault = err.Error()
		return line
	}
	defer ses.close()
	if err := ses.connect(); err != nil {
		line.Fault = err.Error()
		return line
	}
	type ret struct {
		i   int
		at  time.Time
		err error
	}
	rets := make(chan ret, 8)
	start := func(i int, kind, name string) {
		line.Sends = append(line.Sends, s1GenSend{Name: name, Kind: kind})
		go func() {
			var err error
			switch kind {
			case "noW":
				_, err = cut.Conn.SendDataMessage(context.Background(), 6, 11, false, secs2.A(name))
			case "W":
				_, err = cut.Conn.SendDataMessage(context.Background(), 1, 1, true, secs2.A(name))
			case "async":
				err = cut.Conn.SendDataMessageAsync(context.Background(), 6, 11, false, secs2.A(name))
			}
			rets <- ret{i, time.Now(), err}
		}()
	}
	if mode == "handler-busy" || mode == "handler-busy-close" {
		// the line engine is inside an inbound handler when a send reaches the transport and the generation ends
		cut.OnData = func(msg *hsms.DataMessage, _ hsms.SECS2Endpoint) {
			if msg.Function() == 99 {
				time.Sleep(300 * time.Millisecond)
			}
		}
		blk := peerkit.E4Block(0x0033, !equip, 7, 99, false, 1, true, 0x4242, []byte{0x41, 0x04, 's', 'l', 'o', 'w'})
		if res := ses.peer.SendBlock(blk, peerkit.SendOpts{}); res != "ack" {
			line.Fault = "slow message not acked: " + res
			return line
		}
		time.Sleep(20 * time.Millisecond)
		line.Sends = append(line.Sends, s1GenSend{Name: "old-W-acked-placeholder", Kind: "async", Returned: true, Err: "n/a"})
		start(1, "noW", "old-parked-at-handoff")
		start(2, "async", "old-parked-async")
		time.Sleep(30 * time.Millisecond)
	} else {
		s1GenFill(ses, start, line)
	}
	if line.Fault != "" {
		return line
	}
	line.reconn0 = int(cut.Conn.Metrics().Reconnects())
	dropAt := time.Now()
	if mode == "handler-busy-close" {
		// the generation is ended by the APPLICATION while the engine is still inside the handler: after the handler
		// returns the engine sees the teardown first and never takes the parked hand-off
		go func() { _ = ses.cut.Conn.Close() }()
	} else {
		ses.raw.Close()
	}
	deadline := time.After(2500 * time.Millisecond)
	pending := 0
	for _, sd := range line.Sends {
		if !sd.Returned {
			pending++
		}
	}
	for got := 0; got < pending; {
		select {
		case r := <-rets:
			sd := &line.Sends[r.i]
			sd.Returned = true
			sd.LatencyMs = int(r.at.Sub(dropAt) / time.Millisecond)
			if r.err != nil {
				sd.Err = r.err.Error()
			}
			got++
		case <-deadline:
			got = pending
		}
	}
	if mode == "handler-busy-close" {
		time.Sleep(400 * time.Millisecond) // let Close finish
		ses.raw.Close()
		if err := ses.cut.Open(); err != nil {
			line.Fault = "re-open: " + err.Error()
			return line
		}
	}
	return s1GenFinish(ses, line, t0)
}

func s1GenFill(ses *s1Session, start func(int, string, string), line *s1Gen) {
	// the first W send gets through and then waits for a reply that never comes
	start(0, "W", "old-W-acked")
	if _, good, what := ses.peer.RecvBlock(time.Second, peerkit.RecvOpts{}); what != "block" || !good {
		line.Fault = "first block not received: " + what
		return
	}
	// the second occupies the line engine: its ENQ is never granted (peer-stall) ...
	start(1, "noW", "old-stuck-on-line")
	ses.peer.RecvBlock(time.Second, peerkit.RecvOpts{IgnoreENQ: true})
	// ... while more sends queue up behind it
	start(2, "noW", "old-queued-1")
	start(3, "W", "old-queued-2")
	start(4, "async", "old-queued-async")
	time.Sleep(40 * time.Millisecond)
}

func s1GenFinish(ses *s1Session, line *s1Gen, t0 time.Time) *s1Gen {
	cut := ses.cut
	// the next generation: nothing of the old one may show up on its line
	if err := ses.connect(); err != nil {
		line.Fault = "no next generation: " + err.Error()
		return line
	}
	line.NextGen = true
	// the counter is bumped by the reconnect loop after Start returns, i.e. possibly a moment after State() says Selected
	for k := 0; k < 60 && int(cut.Conn.Metrics().Reconnects())-line.reconn0 < 1; k++ {
		time.Sleep(5 * time.Millisecond)
	}
	time.Sleep(20 * time.Millisecond)
	line.Reconnects = int(cut.Conn.Metrics().Reconnects()) - line.reconn0
	end := time.Now().Add(500 * time.Millisecond)
	for time.Now().Before(end) {
		raw, good, what := ses.peer.RecvBlock(time.Until(end), peerkit.RecvOpts{})
		if what == "block" && good && len(raw) > 13 {
			line.Stale++
		}
		if what == "io" {
			break
		}
	}
	fresh := make(chan error, 1)
	go func() {
		_, err := cut.Conn.SendDataMessage(context.Background(), 6, 11, false, secs2.A("fresh"))
		fresh <- err
	}()
	raw, good, what := ses.peer.RecvBlock(time.Second, peerkit.RecvOpts{})
	if what == "block" && good && strings.Contains(string(raw), "fresh") {
		select {
		case err := <-fresh:
			line.FreshOK = err == nil
		case <-time.After(time.Second):
		}
	}
	line.JitterMs = s1JitterSince(t0)
	return line
}

// ---------------------------------------------------------------- line traces for impl/Secs1Line (trace validation)
type s1Ev struct {
	D  string `json:"d"` // "tx" (peer wrote) | "rx" (peer read, i.e. the library wrote) | "closed" (the library closed the socket)
	K  string `json:"k"` // ENQ EOT ACK NAK CHR BLK
	M  int    `json:"m"`
	No int    `json:"no"`
	E  int    `json:"e"`
	Ok bool   `json:"ok"`
	Dt int    `json:"dt_ms"` // time since the previous event of the peer's log
}

type s1Trace struct {
	T         string   `json:"t"` // "e4trace"
	Scenario  string   `json:"scenario"`
	IsEquip   bool     `json:"is_equip"`
	Retry     int      `json:"retry"`
	NBlocks   []int    `json:"nblocks"`   // blocks of each message the library was asked to send, in order
	Results   []string `json:"results"`   // "ok" | "failed" per such message
	Events    []s1Ev   `json:"events"`
	Delivered []int    `json:"delivered"` // ids (201..) of the peer's messages handed to the handler, in order
	JitterMs  int      `json:"max_jitter_ms"`
	Fault     string   `json:"fault"`
}

// scheduler-noise monitor: how late a 1 ms sleep wakes up
var s1Jit struct {
	mu      sync.Mutex
	samples []s1JitSample
}

type s1JitSample struct {
	at   time.Time
	over int
}

func s1JitterStart(stop chan struct{}) {
	go func() {
		for {
			select {
			case <-stop:
				return
			default:
			}
			ts := time.Now()
			time.Sleep(time.Millisecond)
			if over := int((time.Since(ts) - time.Millisecond) / time.Millisecond); over >= 5 {
				s1Jit.mu.Lock()
				s1Jit.samples = append(s1Jit.samples, s1JitSample{ts, over})
				s1Jit.mu.Unlock()
			}
		}
	}()
}

func s1JitterSince(t time.Time) int {
	s1Jit.mu.Lock()
	defer s1Jit.mu.Unlock()
	m := 0
	for _, x := range s1Jit.samples {
		if x.at.After(t.Add(-50*time.Millisecond)) && x.over > m {
			m = x.over
		}
	}
	return m
}

func e4Good(raw []int) bool {
	if len(raw) < 13 || raw[0] < 10 || raw[0] > 254 || len(raw) != raw[0]+3 {
		return false
	}
	sum := 0
	for _, b := range raw[1 : len(raw)-2] {
		sum += b
	}
	return sum>>8&0xff == raw[len(raw)-2] && sum&0xff == raw[len(raw)-1]
}

// s1Abstract maps the peer's character log to the alphabet of impl/Secs1Line. Message ids: the library's own
// messages are 1.. (equipment) or 101.. (host) in order of first appearance of their system bytes; the peer's are 201..
func s1Abstract(log []peerkit.E4Event, equip bool) (evs []s1Ev, peerIDs map[string]int) {
	own := map[string]int{}
	peerIDs = map[string]int{}
	base := 100
	if equip {
		base = 0
	}
	prevAt := int64(-1)
	dt := func(at int64) int {
		d := 0
		if prevAt >= 0 {
			d = int((at - prevAt) / 1000)
		}
		prevAt = at
		return d
	}
	for _, e := range log {
		switch e.Kind {
		case "TIMEOUT":
			continue
		case "CLOSED":
			evs = append(evs, s1Ev{D: "closed", K: "CHR", Ok: true, Dt: dt(e.AtUs)})
			continue
		case "BLK":
			ev := s1Ev{D: e.Dir, K: "BLK", Ok: e4Good(e.Raw), Dt: dt(e.AtUs)}
			if len(e.Raw) >= 11 {
				key := fmt.Sprint(e.Raw[7:11])
				ids := own
				b := base
				if e.Dir == "tx" {
					ids, b = peerIDs, 200
				}
				if ev.Ok {
					if _, ok := ids[key]; !ok {
						ids[key] = b + len(ids) + 1
					}
				}
				ev.M = ids[key]
				ev.No = (e.Raw[5]&0x7f)<<8 | e.Raw[6]
				ev.E = e.Raw[5] >> 7
			}
			if !ev.Ok {
				ev.M, ev.No, ev.E = 0, 0, 0
			}
			evs = append(evs, ev)
		default:
			evs = append(evs, s1Ev{D: e.Dir, K: e.Kind, Ok: true, Dt: dt(e.AtUs)})
		}
	}
	if evs == nil {
		evs = []s1Ev{}
	}
	return evs, peerIDs
}

func s1MakeTrace(scn string, ses *s1Session, log []peerkit.E4Event, retry int, nblocks []int, results []string, dels []lab.S1Delivery) *s1Trace {
	evs, ids := s1Abstract(log, ses.cut.Equip)
	tr := &s1Trace{T: "e4trace", Scenario: scn, IsEquip: ses.cut.Equip, Retry: retry, NBlocks: nblocks, Results: results, Events: evs, Delivered: []int{}}
	if len(log) > 0 {
		tr.JitterMs = s1JitterSince(peerkit.E4Time(log[0].AtUs))
	}
	for _, d := range dels {
		tr.Delivered = append(tr.Delivered, ids[fmt.Sprint(d.Sb)])
	}
	return tr
}

func runS1(args []string) int {
	fs := flag.NewFlagSet("s1", flag.ExitOnError)
	out := fs.String("out", "", "observation file")
	seed := fs.Int64("seed", 1, "PRNG seed")
	nrecv := fs.Int("recv", 60, "inbound block-class sequences")
	full := fs.Bool("full", false, "more body lengths")
	parts := fs.String("parts", "send,recv,line,cont", "which scenario families to run")
	fs.Parse(args)
	has := func(p string) bool { return strings.Contains(","+*parts+",", ","+p+",") }
	w, err := rec.Create(*out)
	if err != nil {
		fmt.Fprintln(os.Stderr, err)
		return 2
	}
	r := rand.New(rand.NewSource(*seed))
	stopJ := make(chan struct{})
	s1JitterStart(stopJ)
	defer close(stopJ)
	if has("send") {
		s1SendHalf(w, r, *full)
	}
	// receive half + exactly-once: a few sessions in parallel
	var wg sync.WaitGroup
	var mu sync.Mutex
	for k := 0; k < 6 && has("recv"); k++ {
		wg.Add(1)
		go func(k int, gr *rand.Rand) {
			defer wg.Done()
			ses, err := newS1Session(k%2 == 0, k%3 == 0, []int{1, 0x7FFF, 0x0203}[k%3], 1)
			if err != nil {
				mu.Lock()
				w.Emit(&s1Recv{T: "e4recv", Fault: err.Error(), Sent: []s1Sent{}, Delivered: []lab.S1Delivery{}, Notices: [][]int{}})
				mu.Unlock()
				return
			}
			defer ses.close()
			for i := 0; i < *nrecv/6; i++ {
				script := ""
				if i*6+k < len(s1Scripts) {
					script = s1Scripts[i*6+k]
				}
				line := s1RecvScenario(ses, gr, 3+gr.Intn(5), script)
				mu.Lock()
				w.Emit(line)
				mu.Unlock()
				if !line.Alive {
					return
				}
				ses.peer.ServeFor(s1T4 + 50*time.Millisecond) // let any partial message of this scenario expire
				o := s1OnceScenario(ses, gr)
				mu.Lock()
				w.Emit(o)
				w.Emit(o.trace)
				mu.Unlock()
				if !o.Alive {
					return
				}
				ses.peer.ServeFor(s1T4 + 50*time.Millisecond)
			}
		}(k, rand.New(rand.NewSource(r.Int63())))
	}
	wg.Wait()
	// faulty line on the send side
	sem := make(chan struct{}, 10)
	for _, equip := range []bool{false, true} {
		if !has("line") {
			break
		}
		for retry := 0; retry <= 2; retry++ {
			for faults := 0; faults <= retry+2; faults++ {
				wg.Add(1)
				sem <- struct{}{}
				go func(equip bool, retry, faults int, gr *rand.Rand) {
					defer wg.Done()
					defer func() { <-sem }()
					line := s1LineScenario(equip, equip, retry, faults, gr)
					mu.Lock()
					w.Emit(line)
					if line.trace != nil {
						w.Emit(line.trace)
					}
					mu.Unlock()
				}(equip, retry, faults, rand.New(rand.NewSource(r.Int63())))
			}
		}
	}
	wg.Wait()
	for _, equip := range []bool{false, true} {
		if !has("cont") {
			break
		}
		c := s1ContScenario(equip, equip)
		w.Emit(c)
		if c.trace != nil {
			w.Emit(c.trace)
		}
		w.Emit(s1ContMulti(equip))
	}
	if has("wedge") {
		for _, v := range []string{"none", "wrong-device", "skipped-block"} {
			w.Emit(s1WedgeScenario(v))
		}
	}
	if has("met") {
		for _, cb := range [][2]bool{{false, false}, {true, true}, {false, true}, {true, false}} {
			w.Emit(s1MetScenario(cb[0], cb[1]))
		}
	}
	if has("gen") {
		for _, cb := range [][2]bool{{false, false}, {true, true}, {false, true}, {true, false}} {
			wg.Add(1)
			go func(passive, equip bool) {
				defer wg.Done()
				for _, mode := range []string{"peer-close", "handler-busy", "handler-busy-close"} {
					line := s1GenScenario(passive, equip, mode)
					mu.Lock()
					w.Emit(line)
					mu.Unlock()
				}
			}(cb[0], cb[1])
		}
		wg.Wait()
	}
	if err := w.Close(); err != nil {
		fmt.Fprintln(os.Stderr, err)
		return 2
	}
	b, _ := json.Marshal(map[string]int{"lines": w.N})
	fmt.Println(string(b))
	return 0
}
