package main

import (
	"bytes"
	"flag"
	"fmt"
	"math/rand"
	"os"

	"github.com/arloliu/go-secs/v2/hsms"
	"github.com/arloliu/go-secs/v2/secs2"

	"verif/harness/e5"
	"verif/harness/rec"
)

func init() {
	register("c03", "construct/serialize/decode/re-stamp HSMS messages with the real hsms package, record observations", runC03)
}

type stampStep struct {
	Op    string `json:"op"` // "sid" | "sb" | "id" | "derive"
	Sid   int    `json:"sid"`
	Sb    []int  `json:"sb"`
	S     int    `json:"s"`
	F     int    `json:"f"`
	W     int    `json:"w"`
	OK    bool   `json:"ok"`
	Hdr   []int  `json:"hdr"`
	Frame []int  `json:"frame"`
}

type c03Data struct {
	T       string      `json:"t"` // "c03d"
	Ctor    string      `json:"ctor"`
	S       int         `json:"s"`
	F       int         `json:"f"`
	W       int         `json:"w"`
	Sid     int         `json:"sid"`
	Sb      []int       `json:"sb"`
	HasItem bool        `json:"has_item"`
	Errored bool        `json:"errored"`
	Item    *e5.AItem   `json:"item"`
	Panic   string      `json:"panic"`
	CtorOK  bool        `json:"ctor_ok"`
	Hdr     []int       `json:"hdr"`
	Frame   []int       `json:"frame"`
	AccOK   bool        `json:"acc_ok"`
	DecOK   bool        `json:"dec_ok"`
	DecHdr  []int       `json:"dec_hdr"`
	DecBody []int       `json:"dec_body"`
	DecItem *e5.AItem   `json:"dec_item"`
	Refr    []int       `json:"refr"`
	Equal   bool        `json:"equal"`
	Chain   []stampStep `json:"chain"`
}

type c03Ctl struct {
	T      string      `json:"t"` // "c03c"
	Kind   string      `json:"kind"`
	Sid    int         `json:"sid"`
	Status int         `json:"status"`
	Sb     []int       `json:"sb"`
	Ref    []int       `json:"ref"` // header of the request / rejected message, if any
	Panic  string      `json:"panic"`
	CtorOK bool        `json:"ctor_ok"`
	Hdr    []int       `json:"hdr"`
	Frame  []int       `json:"frame"`
	DecOK  bool        `json:"dec_ok"`
	DecT   int         `json:"dec_type"`
	DecHdr []int       `json:"dec_hdr"`
	Refr   []int       `json:"refr"`
	AccOK  bool        `json:"acc_ok"`
	Chain  []stampStep `json:"chain"`
}

func sb4(v uint32) [4]byte { return [4]byte{byte(v >> 24), byte(v >> 16), byte(v >> 8), byte(v)} }

func observeData(r *rand.Rand, ctor string, s, f, w, sid int, sb [4]byte, a *e5.AItem, errored bool) (line *c03Data) {
	line = &c03Data{T: "c03d", Ctor: ctor, S: s, F: f, W: w, Sid: sid, Sb: rec.Ints(sb[:]), HasItem: a != nil, Errored: errored,
		Item: a, Hdr: []int{}, Frame: []int{}, DecHdr: []int{}, DecBody: []int{}, DecItem: placeholder, Refr: []int{}, Chain: []stampStep{}}
	if a == nil {
		line.Item = placeholder
	}
	defer func() {
		if p := recover(); p != nil {
			line.Panic = fmt.Sprint(p)
		}
	}()
	var item secs2.Item
	if a != nil {
		item, _ = e5.Build(a, "variadic64")
	}
	if errored {
		item = secs2.L(secs2.A("x"), secs2.L(secs2.I1("not-a-number")))
		line.Item = placeholder
	}
	var msg *hsms.DataMessage
	var err error
	switch ctor {
	case "new":
		msg, err = hsms.NewDataMessage(uint8(s), uint8(f), w == 1, uint16(sid), sb, item)
	case "hdr":
		var h [10]byte
		h[0], h[1] = byte(sid>>8), byte(sid)
		h[2] = byte(w<<7 | s&0x7f)
		h[3] = byte(f)
		copy(h[6:], sb[:])
		msg, err = hsms.NewDataMessageFromHeader(h, item)
	case "builder":
		msg, err = hsms.NewEmptyDataMessage().Derive().WithStream(uint8(s)).WithFunction(uint8(f)).WithWaitBit(w == 1).
			WithSessionID(uint16(sid)).WithSystemBytes(sb).WithItem(item).Build()
	}
	line.CtorOK = err == nil && msg != nil
	if !line.CtorOK {
		return line
	}
	h := msg.HeaderBytes()
	line.Hdr = rec.Ints(h[:])
	fr := msg.ToBytes()
	line.Frame = rec.Ints(fr)
	line.AccOK = int(msg.Stream()) == s&0x7f && int(msg.Function()) == f && msg.WaitBit() == (w == 1) && int(msg.SessionID()) == sid &&
		msg.SystemBytes() == sb && msg.ID() == hsms.FromSystemBytes(sb) && msg.Type() == hsms.DataMsgType &&
		bytes.Equal(msg.AppendBodyTo([]byte{9}), append([]byte{9}, fr[14:]...)) && msg.BodyLen() == len(fr)-14 &&
		bytes.Equal(fr, msg.ToBytes())
	dm, derr := hsms.DecodeHSMSMessage(fr)
	if derr == nil {
		if d, ok := dm.ToDataMessage(); ok {
			line.DecOK = true
			dh := d.HeaderBytes()
			line.DecHdr = rec.Ints(dh[:])
			line.DecBody = rec.Ints(d.AppendBodyTo(nil))
			if it, ierr := d.Item(); ierr == nil {
				if a != nil {
					if p, perr := e5.Project(it); perr == nil {
						line.DecItem = p
					}
				} else if !it.IsEmpty() {
					line.DecOK = false
				}
			} else {
				line.DecOK = false
			}
			line.Refr = rec.Ints(d.ToBytes())
			line.Equal = msg.Equal(d) && d.Equal(msg)
			// payload entry point must agree
			if pm, perr := hsms.DecodeHSMSPayload(fr[4:]); perr != nil || !bytes.Equal(pm.ToBytes(), fr) {
				line.Equal = false
			}
		}
	}
	// re-stamp / derive chain
	cur := msg
	for i := 0; i < 3; i++ {
		st := stampStep{Sb: []int{}, Hdr: []int{}, Frame: []int{}}
		switch r.Intn(4) {
		case 0:
			st.Op, st.Sid = "sid", []int{0, 1, 0x7fff, 0x8000, 0xffff, 0x0102}[r.Intn(6)]
			cur = cur.WithSessionID(uint16(st.Sid))
			st.OK = true
		case 1:
			nsb := sb4(r.Uint32())
			st.Op, st.Sb = "sb", rec.Ints(nsb[:])
			cur = cur.WithSystemBytes(nsb)
			st.OK = true
		case 2:
			id := r.Uint32()
			nsb := sb4(id)
			st.Op, st.Sb = "id", rec.Ints(nsb[:])
			cur = cur.WithID(id)
			st.OK = true
		default:
			st.Op = "derive"
			st.S, st.F, st.W = []int{0, 1, 127, 128, 200}[r.Intn(5)], r.Intn(256), r.Intn(2)
			n, derr := cur.Derive().WithStream(uint8(st.S)).WithFunction(uint8(st.F)).WithWaitBit(st.W == 1).Build()
			st.OK = derr == nil
			if derr == nil {
				cur = n
			}
		}
		ch := cur.HeaderBytes()
		st.Hdr = rec.Ints(ch[:])
		st.Frame = rec.Ints(cur.ToBytes())
		line.Chain = append(line.Chain, st)
	}
	// the original must be untouched by the chain
	h2 := msg.HeaderBytes()
	if h2 != h || !bytes.Equal(msg.ToBytes(), fr) {
		line.AccOK = false
	}
	return line
}

var ctlKinds = []string{"SelectReq", "SelectRsp", "DeselectReq", "DeselectRsp", "LinktestReq", "LinktestRsp", "SeparateReq", "RejectReq", "RejectReqRaw"}

func observeCtl(r *rand.Rand, kind string, sid, status int, sb [4]byte, ref hsms.Message, ptype, stype int) (line *c03Ctl) {
	line = &c03Ctl{T: "c03c", Kind: kind, Sid: sid, Status: status, Sb: rec.Ints(sb[:]), Ref: []int{}, Hdr: []int{}, Frame: []int{},
		DecHdr: []int{}, Refr: []int{}, Chain: []stampStep{}}
	defer func() {
		if p := recover(); p != nil {
			line.Panic = fmt.Sprint(p)
		}
	}()
	if ref != nil {
		rh := ref.HeaderBytes()
		line.Ref = rec.Ints(rh[:])
	}
	var msg *hsms.ControlMessage
	var err error
	switch kind {
	case "SelectReq":
		msg = hsms.NewSelectReq(uint16(sid), sb)
	case "SelectRsp":
		msg, err = hsms.NewSelectRsp(ref.(*hsms.ControlMessage), byte(status))
	case "DeselectReq":
		msg = hsms.NewDeselectReq(uint16(sid), sb)
	case "DeselectRsp":
		msg, err = hsms.NewDeselectRsp(ref.(*hsms.ControlMessage), byte(status))
	case "LinktestReq":
		msg = hsms.NewLinktestReq(sb)
	case "LinktestRsp":
		msg, err = hsms.NewLinktestRsp(ref.(*hsms.ControlMessage))
	case "SeparateReq":
		msg = hsms.NewSeparateReq(uint16(sid), sb)
	case "RejectReq":
		msg = hsms.NewRejectReq(ref, byte(status))
	case "RejectReqRaw":
		msg = hsms.NewRejectReqRaw(uint16(sid), byte(ptype), byte(stype), sb, byte(status))
		line.Ref = []int{sid >> 8, sid & 0xff, 0, 0, ptype, stype, int(sb[0]), int(sb[1]), int(sb[2]), int(sb[3])}
	}
	line.CtorOK = err == nil && msg != nil
	if !line.CtorOK {
		return line
	}
	h := msg.HeaderBytes()
	line.Hdr = rec.Ints(h[:])
	fr := msg.ToBytes()
	line.Frame = rec.Ints(fr)
	hsb := msg.SystemBytes()
	line.AccOK = int(msg.SessionID()) == int(h[0])<<8|int(h[1]) && bytes.Equal(hsb[:], h[6:]) && int(msg.Type()) == int(h[5]) &&
		bytes.Equal(fr, msg.ToBytes())
	if _, isData := msg.ToDataMessage(); isData {
		line.AccOK = false
	}
	if kind == "RejectReq" || kind == "RejectReqRaw" {
		rc, rerr := msg.RejectReasonCode()
		want := status >= 1 && status <= 4
		if (rerr == nil) != want || (want && int(rc) != status) {
			line.AccOK = false
		}
	}
	dm, derr := hsms.DecodeHSMSMessage(fr)
	if derr == nil {
		line.DecOK = true
		line.DecT = int(dm.Type())
		dh := dm.HeaderBytes()
		line.DecHdr = rec.Ints(dh[:])
		line.Refr = rec.Ints(dm.ToBytes())
	}
	cur := msg
	for i := 0; i < 2; i++ {
		st := stampStep{Sb: []int{}, Hdr: []int{}, Frame: []int{}, OK: true}
		if r.Intn(2) == 0 {
			st.Op, st.Sid = "sid", []int{0, 1, 0x7fff, 0x8000, 0xffff, 0x0102}[r.Intn(6)]
			cur = cur.WithSessionID(uint16(st.Sid))
		} else {
			nsb := sb4(r.Uint32())
			st.Op, st.Sb = "sb", rec.Ints(nsb[:])
			cur = cur.WithSystemBytes(nsb)
		}
		ch := cur.HeaderBytes()
		st.Hdr = rec.Ints(ch[:])
		st.Frame = rec.Ints(cur.ToBytes())
		line.Chain = append(line.Chain, st)
	}
	if h2 := msg.HeaderBytes(); h2 != h {
		line.AccOK = false
	}
	return line
}

func runC03(args []string) int {
	fs := flag.NewFlagSet("c03", flag.ExitOnError)
	nrand := fs.Int("rand", 500, "random messages on top of the enumerated product")
	full := fs.Bool("full", false, "full enumerated product (thorough)")
	seed := fs.Int64("seed", 1, "PRNG seed")
	out := fs.String("out", "", "observation file")
	wire := fs.Int("wire", 0, "messages sent through a live connection and compared on the socket")
	fs.Parse(args)
	w, err := rec.Create(*out)
	if err != nil {
		fmt.Fprintln(os.Stderr, err)
		return 2
	}
	r := rand.New(rand.NewSource(*seed))
	streams := []int{0, 1, 63, 64, 127, 128, 255}
	funcs := []int{0, 1, 2, 127, 128, 254, 255}
	sids := []int{0, 1, 0x7FFF, 0x8000, 0xFFFE, 0xFFFF, 0x0102}
	sbs := []uint32{0, 1, 0x01020304, 0x80000000, 0xFFFFFFFF}
	bodies := []*e5.AItem{nil,
		{K: "A", Bytes: []byte("Hi")}, {K: "U2", Elems: [][]byte{e5.Image8(258)}}, {K: "L", Kids: []*e5.AItem{}},
		{K: "L", Kids: []*e5.AItem{{K: "B", Bytes: []byte{0, 255}}, {K: "L", Kids: []*e5.AItem{{K: "BOOL", Bytes: []byte{1}}}}}},
		{K: "F8", Elems: [][]byte{e5.Image8(0x400921FB54442D18)}}}
	ctors := []string{"new", "hdr", "builder"}
	n := 0
	for _, s := range streams {
		for _, f := range funcs {
			for wbit := 0; wbit < 2; wbit++ {
				for _, sid := range sids {
					for _, sb := range sbs {
						n++
						if !*full && n%7 != int(*seed%7) && !(sid == 0x0102 && sb == 0x01020304) {
							continue // quick: a seed-dependent 1/7 slice plus the full (s,f,w) grid at one (sid, sb)
						}
						body := bodies[r.Intn(len(bodies))]
						ctor := ctors[r.Intn(len(ctors))]
						if ctor == "hdr" && s > 127 {
							ctor = "new"
						}
						w.Emit(observeData(r, ctor, s, f, wbit, sid, sb4(sb), body, false))
					}
				}
			}
		}
	}
	// errored bodies are refused by every constructor
	for _, ctor := range ctors {
		w.Emit(observeData(r, ctor, 1, 1, 1, 1, sb4(7), nil, true))
		w.Emit(observeData(r, ctor, 6, 11, 0, 0xffff, sb4(0xffffffff), nil, true))
	}
	for i := 0; i < *nrand; i++ {
		var body *e5.AItem
		if r.Intn(5) != 0 {
			body = e5.RandItem(r, 0)
			if body.Leaves() > 40 {
				body = e5.RandLeaf(r, "A")
			}
		}
		s := r.Intn(256)
		ctor := ctors[r.Intn(3)]
		if ctor == "hdr" && s > 127 {
			s &= 0x7f
		}
		w.Emit(observeData(r, ctor, s, r.Intn(256), r.Intn(2), r.Intn(65536), sb4(r.Uint32()), body, false))
	}
	// control messages: all nine kinds x all status/reason bytes of interest x header landmarks
	statuses := []int{0, 1, 2, 3, 4, 5, 255}
	for _, kind := range ctlKinds {
		for _, sid := range sids {
			for _, sb := range sbs {
				for _, st := range statuses {
					sbv := sb4(sb)
					var ref hsms.Message
					switch kind {
					case "SelectRsp":
						ref = hsms.NewSelectReq(uint16(sid), sbv)
					case "DeselectRsp":
						ref = hsms.NewDeselectReq(uint16(sid), sbv)
					case "LinktestRsp":
						ref = hsms.NewLinktestReq(sbv)
					case "RejectReq":
						switch st % 4 {
						case 0:
							ref, _ = hsms.NewDataMessage(5, 7, true, uint16(sid), sbv, secs2.A("x"))
						case 1:
							ref = hsms.NewSelectReq(uint16(sid), sbv)
						case 2:
							ref, _ = hsms.NewSelectRsp(hsms.NewSelectReq(uint16(sid), sbv), 3)
						default:
							ref = hsms.NewSeparateReq(uint16(sid), sbv)
						}
					default:
						if st != 0 && kind != "RejectReqRaw" {
							continue // status is meaningless for these kinds
						}
					}
					w.Emit(observeCtl(r, kind, sid, st, sbv, ref, []int{0, 1, 255}[r.Intn(3)], []int{0, 8, 10, 255, 5}[r.Intn(5)]))
				}
			}
		}
	}
	// wrong request kinds for the three .rsp constructors must be refused
	w.Emit(observeCtl(r, "SelectRsp", 1, 0, sb4(1), hsms.NewDeselectReq(1, sb4(1)), 0, 0))
	w.Emit(observeCtl(r, "DeselectRsp", 1, 0, sb4(1), hsms.NewSelectReq(1, sb4(1)), 0, 0))
	w.Emit(observeCtl(r, "LinktestRsp", 1, 0, sb4(1), hsms.NewSelectReq(1, sb4(1)), 0, 0))
	if *wire > 0 {
		if err := c03Wire(w, r, *wire); err != nil {
			fmt.Fprintln(os.Stderr, "wire:", err)
			return 2
		}
	}
	if err := w.Close(); err != nil {
		fmt.Fprintln(os.Stderr, err)
		return 2
	}
	fmt.Printf("{\"lines\": %d}\n", w.N)
	return 0
}
