package main

import (
	"bytes"
	"encoding/json"
	"flag"
	"fmt"
	"math/rand"
	"os"
	"runtime"
	"sync"
	"time"

	"github.com/arloliu/go-secs/v2/hsms"

	"verif/harness/e5"
	"verif/harness/lab"
	"verif/harness/peerkit"
	"verif/harness/rec"
)

func init() {
	register("c04", "frame decoding of arbitrary bytes + stream framing under every segmentation (C04)", runC04)
}

type c04Frame struct {
	T       string    `json:"t"` // "c04f"
	Src     string    `json:"src"`
	In      []int     `json:"in"`
	OK      bool      `json:"ok"`
	PayOK   bool      `json:"payload_ok"`
	Hdr     []int     `json:"hdr"`
	Type    int       `json:"type"`
	Body    []int     `json:"body"`
	Refr    []int     `json:"refr"`
	BodyOK  bool      `json:"body_ok"`
	Stable  bool      `json:"body_stable"`
	Item    *e5.AItem `json:"item"`
	Panic   string    `json:"panic"`
}

func observeFrame(src string, in []byte) (line *c04Frame) {
	line = &c04Frame{T: "c04f", Src: src, In: rec.Ints(in), Hdr: []int{}, Body: []int{}, Refr: []int{}, Item: placeholder}
	defer func() {
		if p := recover(); p != nil {
			line.Panic = fmt.Sprint(p)
		}
	}()
	msg, err := hsms.DecodeHSMSMessage(bytes.Clone(in))
	line.OK = err == nil
	// the payload entry points (no length prefix) must agree whenever the prefix is consistent
	line.PayOK = line.OK
	if len(in) >= 4 {
		n := int(in[0])<<24 | int(in[1])<<16 | int(in[2])<<8 | int(in[3])
		if n == len(in)-4 {
			m2, e2 := hsms.DecodeHSMSPayload(bytes.Clone(in[4:]))
			m3, e3 := hsms.DecodeOwnedHSMSPayload(bytes.Clone(in[4:]))
			line.PayOK = e2 == nil && e3 == nil
			if (e2 == nil) != (e3 == nil) {
				line.PayOK = !line.OK // force a disagreement
			}
			if e2 == nil && e3 == nil && err == nil && (!bytes.Equal(m2.ToBytes(), msg.ToBytes()) || !bytes.Equal(m3.ToBytes(), msg.ToBytes())) {
				line.PayOK = false
			}
		}
	}
	if err != nil {
		return line
	}
	h := msg.HeaderBytes()
	line.Hdr = rec.Ints(h[:])
	line.Type = int(msg.Type())
	line.Refr = rec.Ints(msg.ToBytes())
	dm, isData := msg.ToDataMessage()
	if !isData {
		return line
	}
	line.Body = rec.Ints(dm.AppendBodyTo(nil))
	// the same body verdict for every holder, on every call, also when first asked concurrently
	copies := []*hsms.DataMessage{dm, dm.WithSessionID(7), dm.WithSystemBytes([4]byte{1, 2, 3, 4}), dm.WithID(99).WithSessionID(3)}
	type verdict struct {
		err  string
		item string
	}
	res := make([]verdict, 12)
	var wg sync.WaitGroup
	gate := make(chan struct{})
	for i := range res {
		wg.Add(1)
		go func(i int) {
			defer wg.Done()
			<-gate
			c := copies[i%len(copies)]
			var v verdict
			if i%2 == 0 {
				if e := c.DecodeErr(); e != nil {
					v.err = e.Error()
				}
			}
			it, e := c.Item()
			if e != nil {
				v.err = e.Error()
			} else if it != nil {
				v.item = string(it.ToBytes())
			}
			res[i] = v
		}(i)
	}
	close(gate)
	wg.Wait()
	line.Stable = true
	for _, v := range res {
		if v != res[0] {
			line.Stable = false
		}
	}
	it, ierr := dm.Item()
	if e2 := dm.DecodeErr(); (e2 == nil) != (ierr == nil) || (e2 != nil && e2.Error() != ierr.Error()) || (ierr != nil && ierr.Error() != res[0].err) {
		line.Stable = false
	}
	line.BodyOK = ierr == nil
	if ierr == nil && it != nil && !it.IsEmpty() {
		if p, perr := e5.Project(it); perr == nil {
			line.Item = p
		} else {
			line.BodyOK = false
		}
	}
	return line
}

type c04Cap struct {
	T        string `json:"t"` // "c04cap"
	LenField int    `json:"len_field"`
	Actual   int    `json:"actual"` // total bytes offered (prefix included)
	OK       bool   `json:"ok"`
	PayOK    bool   `json:"payload_ok"`
	Panic    string `json:"panic"`
}

type c04Stream struct {
	T         string  `json:"t"` // "c04s"
	Kind      string  `json:"kind"` // "cut" | "gap-boundary" | "gap-inframe" | "badlen"
	Frames    int     `json:"frames"`
	Cuts      []int   `json:"cuts"`
	GapMs     int     `json:"gap_ms"`
	T8Ms      int     `json:"t8_ms"`
	GapFrame  int     `json:"gap_frame"`   // 0-based index of the frame inside which the long gap falls (-1: at a boundary)
	Expected  [][]int `json:"expected"`    // system bytes of the frames of the stream, in order
	Delivered [][]int `json:"delivered"`   // system bytes handed to the data handler, in order
	Alive     bool    `json:"alive"`
	BadLen    int     `json:"bad_len"`     // length field used for the malformed frame (-1: none)
	AllocKB   int     `json:"alloc_kb"`    // heap allocated in the process while the malformed length was being handled
	Fault     string  `json:"fault"`
}

const c04T8 = 60 * time.Millisecond

// c04Session: passive connection, selected; returns cut + peer.
func c04Session() (*lab.CUT, *peerkit.PeerConn, error) {
	cut, err := lab.NewCUT(lab.Options{Passive: true, Sid: 0x0102, T8: c04T8, T7: 30 * time.Second, T3: time.Second, BackoffInit: time.Millisecond})
	if err != nil {
		return nil, nil, err
	}
	if err := cut.Open(); err != nil {
		return nil, nil, err
	}
	p, err := cut.ConnectPeer(nil, 3*time.Second)
	if err != nil {
		cut.Conn.Close()
		return nil, nil, err
	}
	p.Send(peerkit.Ctl(peerkit.STSelectReq, 0x0102, 1))
	if _, ok := p.Barrier(2 * time.Second); !ok || cut.State() != "S" {
		p.Close()
		cut.Conn.Close()
		return nil, nil, fmt.Errorf("could not select")
	}
	return cut, p, nil
}

func streamFrames(seq uint32) ([]peerkit.Frame, []byte, []int) {
	fs := []peerkit.Frame{
		peerkit.Data(0x0102, 6, 11, false, seq+1, nil),
		peerkit.Data(0x0102, 6, 13, false, seq+2, []byte{0x21, 0x01, 0x7f}),
		peerkit.Data(0x0102, 6, 15, false, seq+3, []byte{0x41, 0x03, 'a', 'b', 'c'}),
	}
	var buf []byte
	var ends []int
	for _, f := range fs {
		buf = append(buf, f.Bytes()...)
		ends = append(ends, len(buf))
	}
	return fs, buf, ends
}

func runStream(cut *lab.CUT, p *peerkit.PeerConn, kind string, seq uint32, cuts []int, gap time.Duration, gapAt int) *c04Stream {
	fs, buf, ends := streamFrames(seq)
	line := &c04Stream{T: "c04s", Kind: kind, Frames: len(fs), Cuts: cuts, GapMs: int(gap / time.Millisecond), T8Ms: int(c04T8 / time.Millisecond),
		GapFrame: -1, BadLen: -1, Expected: [][]int{}, Delivered: [][]int{}}
	for _, f := range fs {
		line.Expected = append(line.Expected, f.Sb)
	}
	if cuts == nil {
		line.Cuts = []int{}
	}
	cut.TakeDeliveries()
	prev := 0
	for _, c := range append(append([]int{}, cuts...), len(buf)) {
		if c <= prev {
			continue
		}
		_ = p.Write(buf[prev:c])
		prev = c
		if c == gapAt && gap > 0 {
			atBoundary := false
			for i, e := range ends {
				if c == e {
					atBoundary = true
				}
				if c < e && line.GapFrame < 0 && !atBoundary {
					line.GapFrame = i
				}
			}
			if c == 0 || atBoundary {
				line.GapFrame = -1
			}
			time.Sleep(gap)
		} else if c < len(buf) {
			time.Sleep(300 * time.Microsecond)
		}
	}
	_, ok := p.Barrier(time.Second)
	line.Alive = ok
	if !ok {
		p.EOF(300 * time.Millisecond)
	}
	for _, d := range cut.TakeDeliveries() {
		line.Delivered = append(line.Delivered, d.Sb)
	}
	return line
}

func runC04(args []string) int {
	fs := flag.NewFlagSet("c04", flag.ExitOnError)
	out := fs.String("out", "", "observation file")
	seed := fs.Int64("seed", 1, "PRNG seed")
	nrand := fs.Int("rand", 300, "random / mutated frames")
	pairs := fs.Int("pairs", 150, "random cut pairs on top of every single cut")
	big := fs.Bool("big", true, "size-cap boundary frames (16 MiB)")
	fs.Parse(args)
	w, err := rec.Create(*out)
	if err != nil {
		fmt.Fprintln(os.Stderr, err)
		return 2
	}
	r := rand.New(rand.NewSource(*seed))
	// ---------------- decode half: grammar-directed byte strings
	lens := []uint32{0, 9, 10, 11, 12, 13, 14, 0x00FFFFFF, 0x01000000, 0xFFFFFFFF}
	ptypes := []byte{0, 1, 255}
	stypes := []byte{0, 1, 2, 3, 4, 5, 6, 7, 8, 9, 10, 255}
	bodies := [][]byte{{}, {0x41, 0x01, 'x'}, {0x41, 0x05, 'x'}, {0x01}, {0xFD, 0x00}, {0x01, 0x02, 0xA5, 0x01, 0x01, 0x21, 0x00}}
	for _, pt := range ptypes {
		for _, st := range stypes {
			for _, body := range bodies {
				hdr := []byte{0x01, 0x02, 0x81, 0x01, pt, st, 9, 8, 7, 6}
				payload := append(bytes.Clone(hdr), body...)
				for _, lf := range append([]uint32{uint32(len(payload))}, lens...) {
					in := append([]byte{byte(lf >> 24), byte(lf >> 16), byte(lf >> 8), byte(lf)}, payload...)
					w.Emit(observeFrame("grid", in))
				}
			}
		}
	}
	for i := 0; i <= 15; i++ { // every truncation of a valid frame, and short garbage
		f := peerkit.Data(0x0102, 1, 1, true, 42, []byte{0x41, 0x01, 'z'}).Bytes()
		if i < len(f) {
			w.Emit(observeFrame("trunc", f[:i]))
		}
	}
	for i := 0; i < *nrand; i++ {
		var body []byte
		if r.Intn(3) != 0 {
			a := e5.RandItem(r, 0)
			if a.Leaves() > 20 {
				a = e5.RandLeaf(r, "B")
			}
			body = encodeWide(a, 1+r.Intn(2))
		}
		f := peerkit.Data(r.Intn(65536), r.Intn(128), r.Intn(256), r.Intn(2) == 0, r.Uint32(), body).Bytes()
		switch r.Intn(5) {
		case 0: // valid as is
		case 1:
			f[r.Intn(min(len(f), 14))] ^= byte(1 << uint(r.Intn(8)))
		case 2:
			f = f[:r.Intn(len(f))]
		case 3:
			f = append(f, byte(r.Intn(256)))
		case 4:
			if len(f) > 16 {
				f[14+r.Intn(len(f)-14)] = byte(r.Intn(256)) // corrupt the body only: still a well-formed frame
			}
		}
		w.Emit(observeFrame("rand", f))
	}
	if *big {
		const capLen = 1<<24 - 1
		for _, lf := range []int{capLen - 1, capLen, capLen + 1, capLen + 5, capLen + 10, capLen + 11} {
			line := &c04Cap{T: "c04cap", LenField: lf, Actual: 4 + lf}
			func() {
				defer func() {
					if p := recover(); p != nil {
						line.Panic = fmt.Sprint(p)
					}
				}()
				in := make([]byte, 4+lf)
				in[0], in[1], in[2], in[3] = byte(lf>>24), byte(lf>>16), byte(lf>>8), byte(lf)
				copy(in[4:], []byte{0, 1, 0x06, 0x0B, 0, 0, 1, 2, 3, 4})
				in[14], in[15], in[16], in[17] = 0x23, byte((lf-14)>>16), byte((lf-14)>>8), byte(lf-14) // one big binary item
				_, e1 := hsms.DecodeHSMSMessage(in)
				_, e2 := hsms.DecodeHSMSPayload(in[4:])
				_, e3 := hsms.DecodeOwnedHSMSPayload(in[4:])
				line.OK = e1 == nil
				line.PayOK = e2 == nil && e3 == nil
				if (e2 == nil) != (e3 == nil) {
					line.PayOK = !line.OK
				}
			}()
			w.Emit(line)
			runtime.GC()
		}
	}
	// ---------------- stream half: one live session, the stream cut everywhere
	cut, p, err := c04Session()
	if err != nil {
		fmt.Fprintln(os.Stderr, "c04 session:", err)
		return 2
	}
	seq := uint32(0x40000000)
	_, buf, ends := streamFrames(0)
	for c := 1; c < len(buf); c++ { // every single cut point, short pause
		seq += 16
		w.Emit(runStream(cut, p, "cut", seq, []int{c}, 0, -1))
	}
	for i := 0; i < *pairs; i++ { // random cut sets (2..4 cuts)
		n := 2 + r.Intn(3)
		cs := map[int]bool{}
		for len(cs) < n {
			cs[1+r.Intn(len(buf)-1)] = true
		}
		var cuts []int
		for c := 1; c < len(buf); c++ {
			if cs[c] {
				cuts = append(cuts, c)
			}
		}
		seq += 16
		w.Emit(runStream(cut, p, "cut", seq, cuts, 0, -1))
	}
	// an idle gap longer than T8 exactly between frames never times out
	for _, e := range ends[:len(ends)-1] {
		seq += 16
		w.Emit(runStream(cut, p, "gap-boundary", seq, []int{e}, 3*c04T8, e))
	}
	seq += 16
	time.Sleep(3 * c04T8) // idle before the stream starts
	w.Emit(runStream(cut, p, "gap-boundary", seq, nil, 0, -1))
	p.Close()
	cut.Conn.Close()
	// a gap longer than T8 INSIDE a frame drops the link: every in-frame offset (fresh session each)
	var wg sync.WaitGroup
	sem := make(chan struct{}, 12)
	var mu sync.Mutex
	for c := 1; c < len(buf); c++ {
		boundary := false
		for _, e := range ends {
			if c == e {
				boundary = true
			}
		}
		if boundary {
			continue
		}
		wg.Add(1)
		sem <- struct{}{}
		go func(c int) {
			defer wg.Done()
			defer func() { <-sem }()
			cu, pe, err := c04Session()
			if err != nil {
				mu.Lock()
				w.Emit(&c04Stream{T: "c04s", Kind: "gap-inframe", Fault: err.Error(), Cuts: []int{c}, Expected: [][]int{}, Delivered: [][]int{}, BadLen: -1})
				mu.Unlock()
				return
			}
			line := runStream(cu, pe, "gap-inframe", uint32(0x48000000+c*16), []int{c}, 4*c04T8, c)
			pe.Close()
			cu.Conn.Close()
			mu.Lock()
			w.Emit(line)
			mu.Unlock()
		}(c)
	}
	wg.Wait()
	// a length field outside [10, cap] drops the link without allocating the claimed size
	for _, lf := range []uint32{0, 1, 9, 0x01000000, 0x7FFFFFFF, 0xFFFFFFFF} {
		cu, pe, err := c04Session()
		if err != nil {
			w.Emit(&c04Stream{T: "c04s", Kind: "badlen", Fault: err.Error(), Cuts: []int{}, Expected: [][]int{}, Delivered: [][]int{}, BadLen: int(lf & 0x7FFFFFFF)})
			continue
		}
		good := peerkit.Data(0x0102, 6, 11, false, 0x49000001, nil)
		line := &c04Stream{T: "c04s", Kind: "badlen", Frames: 1, Cuts: []int{}, T8Ms: int(c04T8 / time.Millisecond), GapFrame: -1,
			Expected: [][]int{good.Sb}, Delivered: [][]int{}, BadLen: int(lf & 0x7FFFFFFF)}
		cu.TakeDeliveries()
		runtime.GC()
		var m0, m1 runtime.MemStats
		runtime.ReadMemStats(&m0)
		_ = pe.Write(append(good.Bytes(), byte(lf>>24), byte(lf>>16), byte(lf>>8), byte(lf), 0, 1, 0, 0, 0, 0, 0, 0, 0, 9))
		line.Alive = !pe.EOF(time.Second)
		runtime.ReadMemStats(&m1)
		line.AllocKB = int((m1.TotalAlloc - m0.TotalAlloc) / 1024)
		for _, d := range cu.TakeDeliveries() {
			line.Delivered = append(line.Delivered, d.Sb)
		}
		w.Emit(line)
		pe.Close()
		cu.Conn.Close()
	}
	if err := w.Close(); err != nil {
		fmt.Fprintln(os.Stderr, err)
		return 2
	}
	b, _ := json.Marshal(map[string]int{"lines": w.N})
	fmt.Println(string(b))
	return 0
}
