package main

import (
	"encoding/hex"
	"encoding/json"
	"flag"
	"fmt"
	"math"
	"math/rand"
	"os"
	"reflect"
	"strings"
	"sync"
	"unsafe"

	"github.com/arloliu/go-secs/v2/hsms"
	"github.com/arloliu/go-secs/v2/secs2"

	"verif/harness/e5"
	"verif/harness/rec"
)

func init() {
	register("c12", "immutability: observations before/after mutating constructor inputs and accessor outputs; concurrent readers; lazy once (C12)", runC12)
}

// obsItem is everything a caller can read from an item, as one string.
func obsItem(it secs2.Item) string {
	var sb strings.Builder
	p, err := e5.Project(it)
	if err != nil {
		fmt.Fprintf(&sb, "projerr:%v;", err)
	} else {
		b, _ := json.Marshal(p)
		sb.Write(b)
	}
	fmt.Fprintf(&sb, ";type=%s;size=%d;enclen=%d;err=%v;", it.Type(), it.Size(), it.EncodedLen(), it.Error())
	sb.WriteString(hex.EncodeToString(it.ToBytes()))
	sb.WriteString(";")
	sb.WriteString(hex.EncodeToString(it.AppendTo([]byte{0xEE})))
	sb.WriteString(";")
	sb.WriteString(it.ToSML())
	return sb.String()
}

func obsMsg(m *hsms.DataMessage) string {
	var sb strings.Builder
	sys := m.SystemBytes()
	hdr := m.HeaderBytes()
	fmt.Fprintf(&sb, "S%dF%d w=%v sid=%d sys=%x id=%d hdr=%x bodylen=%d decerr=%v;", m.Stream(), m.Function(), m.WaitBit(), m.SessionID(), sys[:], m.ID(), hdr[:], m.BodyLen(), m.DecodeErr())
	sb.WriteString(hex.EncodeToString(m.ToBytes()))
	sb.WriteString(";")
	sb.WriteString(hex.EncodeToString(m.AppendBodyTo([]byte{0xEE})))
	sb.WriteString(";")
	it, err := m.Item()
	if err != nil {
		fmt.Fprintf(&sb, "itemerr=%v", err)
	} else if it != nil {
		sb.WriteString(obsItem(it))
	}
	return sb.String()
}

// obsLight is the observation used inside the race-detector bursts (the full projection is 50x slower there).
func obsLight(it secs2.Item) string {
	var sb strings.Builder
	fmt.Fprintf(&sb, "type=%s;size=%d;enclen=%d;err=%v;", it.Type(), it.Size(), it.EncodedLen(), it.Error())
	sb.WriteString(hex.EncodeToString(it.ToBytes()))
	sb.WriteString(";")
	sb.WriteString(it.ToSML())
	if it.IsList() {
		for i := 0; i < it.Size(); i++ {
			if c, err := it.ItemAt(i); err == nil {
				fmt.Fprintf(&sb, ";%d:%d:%d", i, c.Size(), c.EncodedLen())
			}
		}
	}
	return sb.String()
}

// obsBody is the part of a message observation that re-stamped copies share.
func obsBody(m *hsms.DataMessage) string {
	var sb strings.Builder
	fmt.Fprintf(&sb, "S%dF%d w=%v bodylen=%d decerr=%v;", m.Stream(), m.Function(), m.WaitBit(), m.BodyLen(), m.DecodeErr())
	sb.WriteString(hex.EncodeToString(m.AppendBodyTo(nil)))
	sb.WriteString(";")
	if b := m.ToBytes(); len(b) >= 14 {
		sb.WriteString(hex.EncodeToString(b[:4]) + hex.EncodeToString(b[14:]))
	}
	it, err := m.Item()
	if err != nil {
		fmt.Fprintf(&sb, "itemerr=%v", err)
	} else if it != nil {
		sb.WriteString(obsLight(it))
	}
	return sb.String()
}

type c12Line struct {
	T       string `json:"t"` // "alias"
	Subject string `json:"subject"`
	Step    string `json:"step"` // which caller-side mutation was performed
	Same    bool   `json:"same"` // observation after == observation before
	Before  string `json:"before"`
	After   string `json:"after"`
	Panic   string `json:"panic"`
}

func trunc(s string, n int) string {
	if len(s) > n {
		return s[:n] + "..."
	}
	return s
}

func firstDiff(a, b string) (string, string) {
	i := 0
	for i < len(a) && i < len(b) && a[i] == b[i] {
		i++
	}
	lo := i - 30
	if lo < 0 {
		lo = 0
	}
	return trunc(a[lo:], 120), trunc(b[lo:], 120)
}

// scribble overwrites every element of a slice value (any element type) with something else.
func scribble(v reflect.Value) {
	for i := 0; i < v.Len(); i++ {
		e := v.Index(i)
		switch e.Kind() {
		case reflect.Int, reflect.Int8, reflect.Int16, reflect.Int32, reflect.Int64:
			e.SetInt(e.Int() ^ 0x55)
		case reflect.Uint, reflect.Uint8, reflect.Uint16, reflect.Uint32, reflect.Uint64:
			e.SetUint(e.Uint() ^ 0x55)
		case reflect.Float32, reflect.Float64:
			e.SetFloat(e.Float()*3 + 7)
		case reflect.Bool:
			e.SetBool(!e.Bool())
		case reflect.String:
			e.SetString("99")
		case reflect.Interface, reflect.Ptr:
			if e.Type() == reflect.TypeOf((*secs2.Item)(nil)).Elem() {
				e.Set(reflect.ValueOf(secs2.Item(secs2.A("SCRIBBLED"))))
			}
		}
	}
}

func c12Check(w *rec.Writer, subject, step string, observe func() string, mutate func()) {
	line := &c12Line{T: "alias", Subject: subject, Step: step}
	func() {
		defer func() {
			if r := recover(); r != nil {
				line.Panic = fmt.Sprint(r)
			}
		}()
		before := observe()
		mutate()
		after := observe()
		line.Same = before == after
		if !line.Same {
			line.Before, line.After = firstDiff(before, after)
		}
	}()
	w.Emit(line)
}

// every slice-typed constructor argument shape, with the caller keeping (and later scribbling) the slice
func c12CtorInputs(w *rec.Writer) {
	type mk struct {
		name string
		arg  any // a slice owned by the caller
		f    func(arg any) secs2.Item
	}
	var cases []mk
	for _, width := range []int{1, 2, 4, 8} {
		width := width
		for _, n := range []int{1, 2, 3, 40} {
			ints := func() any { s := make([]int, n); fill(s); return s }
			for _, arg := range []any{ints(), fillT(make([]int8, n)), fillT(make([]int16, n)), fillT(make([]int32, n)), fillT(make([]int64, n)),
				fillT(make([]uint, n)), fillT(make([]uint8, n)), fillT(make([]uint16, n)), fillT(make([]uint32, n)), fillT(make([]uint64, n)), strs(n)} {
				tn := reflect.TypeOf(arg).String()
				cases = append(cases, mk{fmt.Sprintf("NewIntItem(%d,%s x%d)", width, tn, n), arg, func(a any) secs2.Item { return secs2.NewIntItem(width, a) }})
				cases = append(cases, mk{fmt.Sprintf("NewUintItem(%d,%s x%d)", width, tn, n), cloneSlice(arg), func(a any) secs2.Item { return secs2.NewUintItem(width, a) }})
				cases = append(cases, mk{fmt.Sprintf("NewIntItem(%d,1,%s x%d)", width, tn, n), cloneSlice(arg), func(a any) secs2.Item { return secs2.NewIntItem(width, 1, a) }})
			}
		}
	}
	for _, width := range []int{4, 8} {
		width := width
		for _, n := range []int{1, 2, 3, 40} {
			for _, arg := range []any{fillT(make([]float32, n)), fillT(make([]float64, n)), fillT(make([]int, n)), fillT(make([]uint16, n)), strs(n)} {
				tn := reflect.TypeOf(arg).String()
				cases = append(cases, mk{fmt.Sprintf("NewFloatItem(%d,%s x%d)", width, tn, n), arg, func(a any) secs2.Item { return secs2.NewFloatItem(width, a) }})
				cases = append(cases, mk{fmt.Sprintf("NewFloatItem(%d,%s x%d,2.5)", width, tn, n), cloneSlice(arg), func(a any) secs2.Item { return secs2.NewFloatItem(width, a, 2.5) }})
				if width == 8 {
					cases = append(cases, mk{fmt.Sprintf("F8(%s x%d)", tn, n), cloneSlice(arg), func(a any) secs2.Item { return secs2.F8(a) }})
				} else {
					cases = append(cases, mk{fmt.Sprintf("F4(%s x%d)", tn, n), cloneSlice(arg), func(a any) secs2.Item { return secs2.F4(a) }})
				}
			}
		}
	}
	for _, n := range []int{1, 2, 3, 40} {
		cases = append(cases, mk{fmt.Sprintf("NewBinaryItem([]byte x%d)", n), fillT(make([]byte, n)), func(a any) secs2.Item { return secs2.NewBinaryItem(a) }})
		cases = append(cases, mk{fmt.Sprintf("B([]byte x%d, 7)", n), fillT(make([]byte, n)), func(a any) secs2.Item { return secs2.B(a, 7) }})
		bs := make([]bool, n)
		for i := range bs {
			bs[i] = i%2 == 0
		}
		cases = append(cases, mk{fmt.Sprintf("NewBooleanItem([]bool x%d)", n), bs, func(a any) secs2.Item { return secs2.NewBooleanItem(a) }})
		cases = append(cases, mk{fmt.Sprintf("BOOLEAN(true,[]bool x%d)", n), append([]bool{}, bs...), func(a any) secs2.Item { return secs2.BOOLEAN(true, a) }})
		kids := make([]secs2.Item, n)
		for i := range kids {
			kids[i] = secs2.U1(i)
		}
		cases = append(cases, mk{fmt.Sprintf("NewListItem([]Item x%d...)", n), kids, func(a any) secs2.Item { return secs2.NewListItem(a.([]secs2.Item)...) }})
		cases = append(cases, mk{fmt.Sprintf("L([]Item x%d...)", n), append([]secs2.Item{}, kids...), func(a any) secs2.Item { return secs2.L(a.([]secs2.Item)...) }})
	}
	for _, c := range cases {
		it := c.f(c.arg)
		if it.Error() != nil {
			continue
		}
		c12Check(w, c.name, "scribble the slice passed to the constructor", func() string { return obsItem(it) }, func() { scribble(reflect.ValueOf(c.arg)) })
		// and the same item wrapped in a message built before the scribble of a second input
		arg2 := cloneSlice(c.arg)
		it2 := c.f(arg2)
		if it2.Error() == nil {
			if m, err := hsms.NewDataMessage(1, 1, true, 1, [4]byte{1, 2, 3, 4}, it2); err == nil {
				c12Check(w, "NewDataMessage("+c.name+")", "scribble the slice passed to the item constructor", func() string { return obsMsg(m) }, func() { scribble(reflect.ValueOf(arg2)) })
			}
		}
	}
}

func fill(s []int) {
	for i := range s {
		s[i] = i*3 + 1
	}
}

func fillT[T int8 | int16 | int32 | int64 | int | uint | uint8 | uint16 | uint32 | uint64 | float32 | float64](s []T) any {
	for i := range s {
		s[i] = T(i*3 + 1)
	}
	return s
}

func strs(n int) any {
	s := make([]string, n)
	for i := range s {
		s[i] = fmt.Sprint(i*3 + 1)
	}
	return s
}

func cloneSlice(a any) any {
	v := reflect.ValueOf(a)
	c := reflect.MakeSlice(v.Type(), v.Len(), v.Len())
	reflect.Copy(c, v)
	return c.Interface()
}

// every accessor / serializer output that is a slice: scribble it, append to it, then observe again
func c12Outputs(w *rec.Writer, name string, it secs2.Item) {
	o := func() string { return obsItem(it) }
	try := func(step string, get func() any) {
		c12Check(w, name, step, o, func() {
			v := reflect.ValueOf(get())
			if v.Kind() == reflect.Slice && v.Len() > 0 {
				scribble(v)
				if v.Type().Elem().Kind() == reflect.Uint8 { // also write into spare capacity
					b := v.Bytes()
					b = append(b[:len(b):cap(b)], 0xAA)
					_ = b
					full := v.Bytes()[:v.Cap()]
					for i := range full {
						full[i] ^= 0xFF
					}
				}
			}
		})
	}
	try("scribble ToBytes()", func() any { return it.ToBytes() })
	try("scribble AppendTo(nil)", func() any { return it.AppendTo(nil) })
	try("scribble AppendTo(buf with spare capacity)", func() any { return it.AppendTo(make([]byte, 0, 4096)) })
	switch {
	case it.IsList():
		try("scribble ToList()", func() any { l, _ := it.ToList(); return l })
		for i := 0; i < it.Size(); i++ {
			c, _ := it.ItemAt(i)
			c12Outputs(w, fmt.Sprintf("%s.ItemAt(%d)", name, i), c)
			c12Check(w, name, fmt.Sprintf("scribble outputs of ItemAt(%d)", i), o, func() {
				if b := c.ToBytes(); len(b) > 0 {
					b[len(b)-1] ^= 0xFF
				}
			})
		}
	case it.IsBinary():
		try("scribble ToBinary()", func() any { b, _ := it.ToBinary(); return b })
		try("scribble AppendBinaryTo(nil)", func() any { return it.(*secs2.BinaryItem).AppendBinaryTo(nil) })
	case it.IsBoolean():
		try("scribble ToBoolean()", func() any { b, _ := it.ToBoolean(); return b })
	case it.IsInt8(), it.IsInt16(), it.IsInt32(), it.IsInt64():
		try("scribble ToInt()", func() any { b, _ := it.ToInt(); return b })
	case it.IsUint8(), it.IsUint16(), it.IsUint32(), it.IsUint64():
		try("scribble ToUint()", func() any { b, _ := it.ToUint(); return b })
	case it.IsFloat32(), it.IsFloat64():
		try("scribble ToFloat()", func() any { b, _ := it.ToFloat(); return b })
	case it.IsASCII():
		try("scribble []byte(ToASCII())", func() any { s, _ := it.ToASCII(); return []byte(s) })
		c12Check(w, name, "write through unsafe.StringData(ToASCII()) is NOT attempted; read-only view compared", o, func() { s, _ := it.ToASCII(); _ = unsafe.StringData(s) })
	}
}

func c12Messages(w *rec.Writer, r *rand.Rand, n int) {
	for i := 0; i < n; i++ {
		a := e5.RandItem(r, 0)
		it, _ := buildAny(a, r)
		if it == nil {
			continue
		}
		name := fmt.Sprintf("item#%d(%s)", i, a.K)
		c12Outputs(w, "built "+name, it)
		// decode: copying entry point
		wire := it.ToBytes()
		buf := append([]byte{}, wire...)
		dec, err := secs2.Decode(buf)
		if err == nil {
			c12Check(w, "secs2.Decode "+name, "scribble the input buffer after Decode", func() string { return obsItem(dec) }, func() {
				for k := range buf {
					buf[k] ^= 0xFF
				}
			})
			c12Outputs(w, "decoded "+name, dec)
		}
		msg, err := hsms.NewDataMessage(byte(1+r.Intn(100)), byte(1+2*r.Intn(100)), true, 0x0102, [4]byte{9, 8, 7, 6}, it)
		if err != nil {
			continue
		}
		om := func(m *hsms.DataMessage) func() string { return func() string { return obsMsg(m) } }
		c12Check(w, "msg "+name, "scribble ToBytes()", om(msg), func() {
			b := msg.ToBytes()
			for k := range b {
				b[k] ^= 0xFF
			}
		})
		c12Check(w, "msg "+name, "scribble AppendBodyTo(nil) and its spare capacity", om(msg), func() {
			b := msg.AppendBodyTo(make([]byte, 0, 8192))
			b = b[:cap(b)]
			for k := range b {
				b[k] ^= 0xFF
			}
		})
		c12Check(w, "msg "+name, "scribble the arrays returned by SystemBytes()/HeaderBytes()", om(msg), func() {
			s := msg.SystemBytes()
			h := msg.HeaderBytes()
			s[0], h[0], h[9] = 0xFF, 0xFF, 0xFF
		})
		frame := msg.ToBytes()
		for _, ep := range []string{"DecodeHSMSMessage", "DecodeHSMSPayload"} {
			in := append([]byte{}, frame...)
			var m2 hsms.Message
			var err error
			if ep == "DecodeHSMSMessage" {
				m2, err = hsms.DecodeHSMSMessage(in)
			} else {
				in = in[4:]
				m2, err = hsms.DecodeHSMSPayload(in)
			}
			if err != nil {
				continue
			}
			dm, ok := m2.ToDataMessage()
			if !ok {
				continue
			}
			// before AND after the lazy body decode
			c12Check(w, ep+" "+name, "scribble the frame buffer before the first Item() call", func() string { return fmt.Sprintf("%x", dm.ToBytes()) }, func() {
				for k := range in {
					in[k] ^= 0xFF
				}
			})
			c12Check(w, ep+" "+name, "scribble the frame buffer after the lazy decode", om(dm), func() {
				for k := range in {
					in[k] ^= 0x5A
				}
			})
			// re-stamped copies share the body: mutate outputs of one, observe the other
			cp := dm.WithSystemBytes([4]byte{1, 1, 1, 1}).WithSessionID(7)
			c12Check(w, ep+" "+name, "scribble ToBytes()/AppendBodyTo of a re-stamped copy", om(dm), func() {
				b := cp.ToBytes()
				for k := range b {
					b[k] = 0
				}
				b2 := cp.AppendBodyTo(nil)
				for k := range b2 {
					b2[k] = 0
				}
				if it2, err := cp.Item(); err == nil && it2 != nil {
					b3 := it2.ToBytes()
					for k := range b3 {
						b3[k] = 0
					}
				}
			})
			if d2, err := dm.Derive().WithFunction(dm.Function() + 1).Build(); err == nil {
				c12Check(w, ep+" "+name, "scribble outputs of a derived message", om(dm), func() {
					b := d2.ToBytes()
					for k := range b {
						b[k] = 0
					}
				})
			}
		}
	}
}

// ---------------------------------------------------------------- concurrent readers + lazy once
type c12Conc struct {
	T            string `json:"t"` // "conc"
	Subject      string `json:"subject"`
	Readers      int    `json:"readers"`
	Mismatches   int    `json:"mismatches"`
	DistinctItem int    `json:"distinct_item_pointers"` // distinct Item() results across all first callers and copies
	DistinctBuf  int    `json:"distinct_body_buffers"`  // distinct first-byte addresses of the lazily encoded body across callers and copies
	First        string `json:"first"`
	Panic        string `json:"panic"`
}

func c12ConcOne(w *rec.Writer, subject string, mk func() (secs2.Item, *hsms.DataMessage, []*hsms.DataMessage), want func(secs2.Item, *hsms.DataMessage) string) {
	line := &c12Conc{T: "conc", Subject: subject, Readers: 12}
	it, msg, copies := mk()
	tit, tmsg, _ := mk()
	ref := want(tit, tmsg) // sequential observation of an identical twin
	var mu sync.Mutex
	ptrs := map[uintptr]bool{}
	bufs := map[uintptr]bool{}
	start := make(chan struct{})
	var wg sync.WaitGroup
	for g := 0; g < line.Readers; g++ {
		wg.Add(1)
		go func(g int) {
			defer wg.Done()
			defer func() {
				if r := recover(); r != nil {
					mu.Lock()
					line.Panic = fmt.Sprint(r)
					mu.Unlock()
				}
			}()
			<-start
			var got string
			if msg != nil {
				m := msg
				if len(copies) > 0 {
					m = copies[g%len(copies)]
				}
				if body, err := m.Item(); err == nil && body != nil {
					mu.Lock()
					ptrs[reflect.ValueOf(body).Pointer()] = true
					mu.Unlock()
				}
				got = want(nil, m)
			} else {
				got = want(it, nil)
			}
			if got != ref {
				mu.Lock()
				line.Mismatches++
				if line.First == "" {
					a, b := firstDiff(ref, got)
					line.First = "sequential " + a + " concurrent " + b
				}
				mu.Unlock()
			}
		}(g)
	}
	close(start)
	wg.Wait()
	line.DistinctItem = len(ptrs)
	line.DistinctBuf = len(bufs)
	w.Emit(line)
}

func c12Concurrent(w *rec.Writer, r *rand.Rand, n int) {
	for i := 0; i < n; i++ {
		a := e5.RandItem(r, 0)
		if i%3 == 0 { // lists with many children make the first walk long
			kids := []*e5.AItem{}
			for k := 0; k < 60+r.Intn(60); k++ {
				kids = append(kids, e5.RandLeaf(r, []string{"U4", "A", "I2", "B", "F8"}[r.Intn(5)]))
			}
			a = &e5.AItem{K: "L", Kids: []*e5.AItem{{K: "L", Kids: kids}, a}}
		}
		shape := e5.Shapes[r.Intn(len(e5.Shapes))]
		build := func() secs2.Item {
			if it, ok := e5.Build(a, shape); ok && it != nil && it.Error() == nil {
				return it
			}
			it, _ := e5.Build(a, "variadic64")
			return it
		}
		if build() == nil {
			continue
		}
		// a freshly CONSTRUCTED item: the first calls of every accessor race
		c12ConcOne(w, fmt.Sprintf("constructed item#%d", i), func() (secs2.Item, *hsms.DataMessage, []*hsms.DataMessage) { return build(), nil, nil },
			func(it secs2.Item, _ *hsms.DataMessage) string { return obsLight(it) })
		// a freshly constructed message: lazy encode shared with re-stamped copies
		c12ConcOne(w, fmt.Sprintf("constructed message#%d", i), func() (secs2.Item, *hsms.DataMessage, []*hsms.DataMessage) {
			m, _ := hsms.NewDataMessage(3, 5, true, 1, [4]byte{0, 0, 0, 1}, build())
			return nil, m, []*hsms.DataMessage{m, m.WithID(2), m.WithSessionID(9), m.WithID(3).WithSessionID(4)}
		}, func(_ secs2.Item, m *hsms.DataMessage) string { return obsBody(m) })
		// a freshly DECODED message: lazy decode shared with re-stamped copies
		m0, err := hsms.NewDataMessage(3, 5, true, 1, [4]byte{0, 0, 0, 1}, build())
		if err != nil {
			continue
		}
		frame := m0.ToBytes()
		c12ConcOne(w, fmt.Sprintf("decoded message#%d", i), func() (secs2.Item, *hsms.DataMessage, []*hsms.DataMessage) {
			mm, _ := hsms.DecodeHSMSMessage(append([]byte{}, frame...))
			m, _ := mm.ToDataMessage()
			return nil, m, []*hsms.DataMessage{m, m.WithID(2), m.WithSessionID(9), m.WithID(3).WithSessionID(4)}
		}, func(_ secs2.Item, m *hsms.DataMessage) string { return obsBody(m) })
	}
}

func runC12(args []string) int {
	fs := flag.NewFlagSet("c12", flag.ExitOnError)
	out := fs.String("out", "", "observation file")
	seed := fs.Int64("seed", 1, "PRNG seed")
	n := fs.Int("n", 150, "random items")
	parts := fs.String("parts", "alias,conc", "which parts")
	fs.Parse(args)
	w, err := rec.Create(*out)
	if err != nil {
		fmt.Fprintln(os.Stderr, err)
		return 2
	}
	r := rand.New(rand.NewSource(*seed))
	if strings.Contains(*parts, "alias") {
		c12CtorInputs(w)
		c12Messages(w, r, *n)
	}
	if strings.Contains(*parts, "conc") {
		c12Concurrent(w, r, *n)
	}
	_ = math.Pi
	if err := w.Close(); err != nil {
		fmt.Fprintln(os.Stderr, err)
		return 2
	}
	b, _ := json.Marshal(map[string]int{"lines": w.N})
	fmt.Println(string(b))
	return 0
}
