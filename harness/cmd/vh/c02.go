package main

import (
	"bytes"
	"flag"
	"fmt"
	"math/rand"
	"os"
	"runtime"
	"runtime/metrics"

	"github.com/arloliu/go-secs/v2/secs2"

	"verif/harness/e5"
	"verif/harness/rec"
)

func init() {
	register("c02", "decode arbitrary / enumerated / mutated byte strings with the real decoder, record outcomes", runC02)
}

type c02Line struct {
	T      string    `json:"t"`
	Src    string    `json:"src"`
	In     []int     `json:"in"`
	OK     bool      `json:"ok"`
	Item   *e5.AItem `json:"item"`
	Reenc  []int     `json:"reenc"`
	Owned  bool      `json:"owned_same"`
	Panic  string    `json:"panic"`
	Err    string    `json:"err"`
	Alloc  int       `json:"alloc"`
	Trivia string    `json:"-"`
}

var allocSample = []metrics.Sample{{Name: "/gc/heap/allocs:bytes"}}

func heapAllocs() uint64 {
	metrics.Read(allocSample)
	return allocSample[0].Value.Uint64()
}

var placeholder = &e5.AItem{K: "?", Bytes: []byte{}}

func observeDecode(src string, in []byte) (line *c02Line) {
	line = &c02Line{T: "c02", Src: src, In: rec.Ints(in), Item: placeholder, Reenc: []int{}}
	defer func() {
		if p := recover(); p != nil {
			line.Panic = fmt.Sprint(p)
		}
	}()
	owned := bytes.Clone(in)
	a0 := heapAllocs()
	oit, oerr := secs2.DecodeOwned(owned)
	a1 := heapAllocs()
	line.Alloc = int(a1 - a0)
	if line.Alloc > 32*len(in)+4096 {
		// the cheap metric is only updated when a per-P cache is flushed (span granularity);
		// re-measure precisely (ReadMemStats flushes the caches) and keep the smallest of three
		best := -1
		for k := 0; k < 3; k++ {
			o2 := bytes.Clone(in)
			var m0, m1 runtime.MemStats
			runtime.ReadMemStats(&m0)
			_, _ = secs2.DecodeOwned(o2)
			runtime.ReadMemStats(&m1)
			if d := int(m1.TotalAlloc - m0.TotalAlloc); best < 0 || d < best {
				best = d
			}
		}
		line.Alloc = best
	}
	if len(in) == 0 {
		// documented special case: empty input -> EmptyItem (no E5 item); judged as "no item"
		it, err := secs2.Decode(in)
		line.OK = false
		line.Owned = err == nil && oerr == nil && it != nil && oit != nil && it.IsEmpty() && oit.IsEmpty()
		line.Err = "empty-input"
		return line
	}
	it, err := secs2.Decode(in)
	line.OK = err == nil
	if err != nil {
		line.Err = err.Error()
		line.Owned = oerr != nil
		if it != nil {
			line.Err = "non-nil item with error: " + line.Err
			line.Owned = false
		}
		return line
	}
	p, perr := e5.Project(it)
	if perr != nil {
		line.Err = "project: " + perr.Error()
		line.OK = false
		line.Panic = "decoded item not readable through accessors: " + perr.Error()
		return line
	}
	line.Item = p
	re := it.ToBytes()
	line.Reenc = rec.Ints(re)
	line.Owned = oerr == nil && oit != nil && secs2.Equal(it, oit) && bytes.Equal(oit.ToBytes(), re) &&
		it.EncodedLen() == len(re) && bytes.Equal(it.AppendTo(nil), re)
	if line.Owned {
		if po, e := e5.Project(oit); e != nil || !sameAItem(po, p) {
			line.Owned = false
		}
	}
	return line
}

func sameAItem(a, b *e5.AItem) bool {
	if a.K != b.K || a.LSH != b.LSH || len(a.Kids) != len(b.Kids) || !bytes.Equal(a.Bytes, b.Bytes) || len(a.Elems) != len(b.Elems) {
		return false
	}
	for i := range a.Elems {
		if !bytes.Equal(a.Elems[i], b.Elems[i]) {
			return false
		}
	}
	for i := range a.Kids {
		if !sameAItem(a.Kids[i], b.Kids[i]) {
			return false
		}
	}
	return true
}

// c02Alphabet: format bytes for list/ASCII/I2/F4/BOOL/LOC/B/U8/unknown with 0..3 length bytes, and small lengths.
var c02Alphabet = []byte{0x00, 0x01, 0x02, 0x03, 0x04, 0xFF, 0x41, 0x69, 0x91, 0x25, 0x49, 0xFD, 0x21, 0xA1}

func enumAlphabet(maxLen int, emit func([]byte)) {
	buf := make([]byte, 0, maxLen)
	var rec func()
	rec = func() {
		emit(buf)
		if len(buf) == maxLen {
			return
		}
		for _, c := range c02Alphabet {
			buf = append(buf, c)
			rec()
			buf = buf[:len(buf)-1]
		}
	}
	rec()
}

// encodeWide re-encodes an abstract item using nlb length bytes on every header where it fits (non-canonical form).
func encodeWide(a *e5.AItem, nlb int) []byte {
	var out []byte
	fc := map[string]byte{"L": 0, "B": 8, "BOOL": 9, "A": 16, "J": 17, "LOC": 18, "I8": 24, "I1": 25, "I2": 26, "I4": 28,
		"F8": 32, "F4": 36, "U8": 40, "U1": 41, "U2": 42, "U4": 44}[a.K]
	hdr := func(n int) {
		k := nlb
		if n > 0xFFFF && k < 3 {
			k = 3
		} else if n > 0xFF && k < 2 {
			k = 2
		}
		out = append(out, fc<<2|byte(k))
		for i := k - 1; i >= 0; i-- {
			out = append(out, byte(n>>(8*i)))
		}
	}
	switch {
	case a.K == "L":
		hdr(len(a.Kids))
		for _, c := range a.Kids {
			out = append(out, encodeWide(c, nlb)...)
		}
	case a.K == "LOC":
		hdr(2 + len(a.Bytes))
		out = append(out, byte(a.LSH>>8), byte(a.LSH))
		out = append(out, a.Bytes...)
	case a.Bytes != nil || a.K == "B" || a.K == "A" || a.K == "J" || a.K == "BOOL":
		hdr(len(a.Bytes))
		out = append(out, a.Bytes...)
	default:
		w := e5.Width(a.K)
		hdr(len(a.Elems) * w)
		for _, e := range a.Elems {
			switch {
			case len(e) == 0: // NaN
				if w == 4 {
					out = append(out, 0x7f, 0xc0, 0, 0)
				} else {
					out = append(out, 0x7f, 0xf8, 0, 0, 0, 0, 0, 0)
				}
			case e5.IsFloat(a.K):
				out = append(out, e...)
			default:
				out = append(out, e[8-w:]...)
			}
		}
	}
	return out
}

func mutations(r *rand.Rand, valid []byte, emit func(string, []byte)) {
	n := len(valid)
	// every truncation point (bounded), plus the whole thing with trailing garbage
	step := 1
	if n > 64 {
		step = n / 48
	}
	for i := 0; i < n; i += step {
		emit("trunc", valid[:i])
	}
	emit("trail", append(bytes.Clone(valid), 0xFD, 0x00, byte(r.Intn(256))))
	interesting := []byte{0x00, 0x01, 0x02, 0x03, 0x04, 0x7F, 0x80, 0xFF, 0xFD, 0xFC}
	// single- and double-byte substitutions, biased to the first bytes (headers) and to random positions
	for k := 0; k < 24; k++ {
		m := bytes.Clone(valid)
		if n == 0 {
			break
		}
		pos := r.Intn(n)
		if k < 10 && n > 1 {
			pos = r.Intn(min(n, 6))
		}
		switch r.Intn(3) {
		case 0:
			m[pos] = interesting[r.Intn(len(interesting))]
		case 1:
			m[pos] ^= 1 << uint(r.Intn(8))
		default:
			m[pos] = byte(r.Intn(256))
		}
		if k%3 == 0 {
			p2 := r.Intn(n)
			m[p2] = interesting[r.Intn(len(interesting))]
			emit("sub2", m)
		} else {
			emit("sub1", m)
		}
	}
	// length-field rewrites at the top-level header: claim more / less than present
	if n >= 2 && valid[0]&3 == 1 {
		for _, claim := range []byte{0, 1, valid[1] + 1, valid[1] - 1, 0xFF, 0x80} {
			m := bytes.Clone(valid)
			m[1] = claim
			emit("lenrw", m)
		}
		// huge claims with 2 and 3 length bytes
		emit("lenrw", append([]byte{valid[0]&^3 | 2, 0xFF, 0xFF}, valid[2:]...))
		emit("lenrw", append([]byte{valid[0]&^3 | 3, 0xFF, 0xFF, 0xFF}, valid[2:]...))
		emit("lenrw", append([]byte{valid[0]&^3 | 3, 0x7F, 0xFF, 0xFF}, valid[2:]...))
	}
}

func runC02(args []string) int {
	fs := flag.NewFlagSet("c02", flag.ExitOnError)
	maxLen := fs.Int("alpha-len", 4, "enumerate all strings up to this length over the grammar alphabet")
	nrand := fs.Int("rand", 200, "number of random valid trees to mutate")
	seed := fs.Int64("seed", 1, "PRNG seed")
	out := fs.String("out", "", "observation file")
	fs.Parse(args)
	w, err := rec.Create(*out)
	if err != nil {
		fmt.Fprintln(os.Stderr, err)
		return 2
	}
	r := rand.New(rand.NewSource(*seed))
	enumAlphabet(*maxLen, func(b []byte) { w.Emit(observeDecode("alpha", b)) })
	emit := func(src string, b []byte) { w.Emit(observeDecode(src, b)) }
	// depth chains around the limit: d list headers then a leaf / an empty list
	for _, d := range []int{1, 2, 62, 63, 64, 65, 66, 200} {
		chain := bytes.Repeat([]byte{0x01, 0x01}, d)
		emit("depth", append(bytes.Clone(chain), 0xA5, 0x01, 0x07)) // U1 7 at list depth d
		emit("depth", append(bytes.Clone(chain), 0x01, 0x00))       // L[0] at depth d+1
		emit("depth", chain)                                         // truncated chain
	}
	for i := 0; i < *nrand; i++ {
		a := e5.RandItem(r, 0)
		if a.Leaves() > 60 {
			continue
		}
		valid := encodeWide(a, 1)
		emit("valid", valid)
		emit("wide2", encodeWide(a, 2))
		emit("wide3", encodeWide(a, 3))
		mutations(r, valid, emit)
		if i%4 == 0 {
			mutations(r, encodeWide(a, 2), emit)
		}
	}
	// purely random strings, short
	for i := 0; i < *nrand*4; i++ {
		b := make([]byte, r.Intn(24))
		r.Read(b)
		if len(b) > 0 && r.Intn(2) == 0 {
			b[0] = c02Alphabet[r.Intn(len(c02Alphabet))]
		}
		emit("random", b)
	}
	if err := w.Close(); err != nil {
		fmt.Fprintln(os.Stderr, err)
		return 2
	}
	fmt.Printf("{\"lines\": %d}\n", w.N)
	return 0
}
