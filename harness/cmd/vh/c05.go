package main

import (
	"encoding/json"
	"flag"
	"fmt"
	"os"
	"strings"

	"github.com/arloliu/go-secs/v2/hsms"

	"verif/harness/rec"
)

func init() {
	register("c05", "replay TLC-generated supervisor schedules on the real hsms supervisor, record observable steps", runC05)
}

// one step of a model path: the action name and the abstract state the impl-shaped model predicts after it
type c05Step struct {
	A   string         `json:"a"`
	Exp map[string]any `json:"exp"`
}

type c05Path struct {
	ID        int       `json:"id"`
	Src       string    `json:"src"`
	NotifyCap int       `json:"notify_cap"`
	Steps     []c05Step `json:"steps"`
}

type c05Obs struct {
	T       string   `json:"t"` // "c05"
	Path    int      `json:"path"`
	Src     string   `json:"src"`
	I       int      `json:"i"`
	A       string   `json:"a"`
	Epi     bool     `json:"epi"`
	Ev      string   `json:"ev"`      // SupBegin/SupFinish: the event kind dequeued
	Arm     int      `json:"arm"`     // InjectT7n: the arm id
	Pre     string   `json:"pre"`     // State() before the action
	Post    string   `json:"post"`    // State() after it
	CasOK   bool     `json:"cas_ok"`  // CommitBegin*
	Parked  bool     `json:"parked"`  // SupBegin: step() reached its load (false: closed latch, event ignored)
	NOK     bool     `json:"n_ok"`    // NotifierTake: a notification was delivered
	NPrev   string   `json:"n_prev"`
	NNext   string   `json:"n_next"`
	Dropped int      `json:"dropped"` // library-reported coalesced notifications so far
	QLen    int      `json:"qlen"`
	NLen    int      `json:"nlen"`
	Drift   []string `json:"drift"`
}

func stName(s hsms.ConnState) string {
	switch s {
	case hsms.NotConnectedState:
		return "NC"
	case hsms.NotSelectedState:
		return "NS"
	case hsms.SelectedState:
		return "S"
	}
	return fmt.Sprintf("?%d", int(s))
}

func evName(ev int) string {
	switch ev {
	case hsms.VerifEvTCPUp:
		return "tup"
	case hsms.VerifEvSelectAccepted:
		return "sacc"
	case hsms.VerifEvSelectLost:
		return "slost"
	case hsms.VerifEvDisconnect:
		return "disc"
	case hsms.VerifEvClose:
		return "close"
	case hsms.VerifEvT7Timeout:
		return "t7"
	}
	return fmt.Sprintf("?%d", ev)
}

type c05Runner struct {
	v        *hsms.VerifSupervisor
	w        *rec.Writer
	p        *c05Path
	i        int
	lastEv   string
	stopped  bool
	lost     bool // the real object left the model's path (an action the model takes is not executable)
	steps    int
	driftCnt int
}

func (r *c05Runner) do(action string, exp map[string]any, epi bool) {
	v := r.v
	r.i++
	r.steps++
	o := &c05Obs{T: "c05", Path: r.p.ID, Src: r.p.Src, I: r.i, A: action, Epi: epi, Pre: stName(v.State()), Drift: []string{}}
	switch {
	case strings.HasPrefix(action, "CommitBegin") && v.CommitInFlight():
		// the model believes no commit is pending, the real supervisor has one: the schedule no longer applies
		o.A = "Quiesce"
		o.Drift = append(o.Drift, "commit in flight, cannot begin "+action)
		r.lost = true
	case action == "SupBegin" && v.StepInFlight():
		o.A = "Quiesce"
		o.Drift = append(o.Drift, "step in flight, cannot begin another")
		r.lost = true
	case action == "CommitBeginConn":
		o.CasOK = v.BeginCommit(hsms.VerifEvTCPUp)
	case action == "CommitBeginSel":
		o.CasOK = v.BeginCommit(hsms.VerifEvSelectAccepted)
	case action == "CommitBeginLost":
		o.CasOK = v.BeginCommit(hsms.VerifEvSelectLost)
	case action == "CommitFinish":
		if v.CommitInFlight() {
			v.FinishCommit()
		} else {
			o.Drift = append(o.Drift, "no commit in flight")
		}
	case action == "InjectDisc" || action == "InjectStaleDisc":
		v.InjectDisconnect()
	case strings.HasPrefix(action, "InjectT7"):
		fmt.Sscanf(action[len("InjectT7"):], "%d", &o.Arm)
		v.InjectT7()
	case action == "RequestClose":
		v.RequestClose()
	case action == "CloseReturn":
		v.Stop()
		r.stopped = true
	case action == "SupBegin":
		ev, ok, parked := v.BeginStep()
		if ok {
			o.Ev = evName(ev)
			r.lastEv = o.Ev
			o.Parked = parked
		} else {
			o.Drift = append(o.Drift, "queue empty")
		}
	case action == "SupFinish":
		o.Ev = r.lastEv
		if v.StepInFlight() {
			v.FinishStep()
			o.Parked = true
		} else {
			o.Drift = append(o.Drift, "no step in flight")
		}
	case action == "NotifierTake":
		p, n, ok := v.TakeNotify()
		o.NOK = ok
		if ok {
			o.NPrev, o.NNext = stName(p), stName(n)
		} else {
			o.Drift = append(o.Drift, "no notification buffered")
		}
	case action == "Quiesce":
	default:
		o.Drift = append(o.Drift, "unknown action")
	}
	o.Post = stName(v.State())
	o.Dropped = int(v.Dropped())
	o.QLen, o.NLen = v.QueueLen(), v.NotifyLen()
	if exp != nil {
		if s, ok := exp["st"].(string); ok && s != o.Post {
			o.Drift = append(o.Drift, "st model="+s+" real="+o.Post)
		}
		if n, ok := exp["qlen"].(float64); ok && !r.stopped && int(n) != o.QLen {
			o.Drift = append(o.Drift, fmt.Sprintf("qlen model=%d real=%d", int(n), o.QLen))
		}
		if n, ok := exp["nlen"].(float64); ok && int(n) != o.NLen {
			o.Drift = append(o.Drift, fmt.Sprintf("nlen model=%d real=%d", int(n), o.NLen))
		}
		if n, ok := exp["dropped"].(float64); ok && int(n) != o.Dropped {
			o.Drift = append(o.Drift, fmt.Sprintf("dropped model=%d real=%d", int(n), o.Dropped))
		}
		if s, ok := exp["lastReacted"].(string); ok && !v.StepInFlight() && s != stName(v.LastReacted()) {
			o.Drift = append(o.Drift, "lastReacted model="+s+" real="+stName(v.LastReacted()))
		}
		if b, ok := exp["closed"].(bool); ok && !v.StepInFlight() && b != v.Closed() {
			o.Drift = append(o.Drift, fmt.Sprintf("closed model=%v real=%v", b, v.Closed()))
		}
	}
	if len(o.Drift) > 0 {
		r.driftCnt++
	}
	r.w.Emit(o)
}

func runC05(args []string) int {
	fs := flag.NewFlagSet("c05", flag.ExitOnError)
	paths := fs.String("paths", "", "model paths (ndjson)")
	out := fs.String("out", "", "observation file")
	fs.Parse(args)
	w, err := rec.Create(*out)
	if err != nil {
		fmt.Fprintln(os.Stderr, err)
		return 2
	}
	total, drift, npaths := 0, 0, 0
	err = rec.ReadLines(*paths, func(line []byte) error {
		var p c05Path
		if err := json.Unmarshal(line, &p); err != nil {
			return err
		}
		npaths++
		if p.NotifyCap <= 0 {
			p.NotifyCap = 2
		}
		r := &c05Runner{v: hsms.NewVerifSupervisor(16, p.NotifyCap), w: w, p: &p}
		for _, s := range p.Steps {
			if r.lost {
				break
			}
			r.do(s.A, s.Exp, false)
		}
		// epilogue: let everything drain, exactly as the free-running goroutines eventually would
		if r.v.CommitInFlight() {
			r.do("CommitFinish", nil, true)
		}
		if r.v.StepInFlight() {
			r.do("SupFinish", nil, true)
		}
		for !r.stopped && r.v.QueueLen() > 0 {
			r.do("SupBegin", nil, true)
			if r.v.StepInFlight() {
				r.do("SupFinish", nil, true)
			}
		}
		for !r.stopped && r.v.NotifyLen() > 0 {
			r.do("NotifierTake", nil, true)
		}
		r.do("Quiesce", nil, true)
		total += r.steps
		drift += r.driftCnt
		return nil
	})
	if err != nil {
		fmt.Fprintln(os.Stderr, "paths:", err)
		return 2
	}
	if err := w.Close(); err != nil {
		fmt.Fprintln(os.Stderr, err)
		return 2
	}
	fmt.Printf("{\"paths\": %d, \"steps\": %d, \"drift_steps\": %d}\n", npaths, total, drift)
	return 0
}
