package main

import (
	"context"
	"encoding/json"
	"flag"
	"fmt"
	"math/rand"
	"os"
	"strconv"
	"strings"
	"sync"
	"time"

	"github.com/arloliu/go-secs/v2/hsms"
	"github.com/arloliu/go-secs/v2/secs2"

	"verif/harness/lab"
	"verif/harness/peerkit"
	"verif/harness/rec"
)

func init() {
	register("txn", "concurrent reply-expected sends against a scripted peer (C06/C09/C20 histories)", runTxn)
}

const txnT3 = 250 * time.Millisecond

type txnCall struct {
	ID      int    `json:"id"`
	Gen     int    `json:"gen"`    // TCP generation current when the call was made
	Script  string `json:"script"` // what the peer was told to do with this primary
	Sb      []int  `json:"sb"`     // system bytes of the primary as the peer saw it ([] if the peer never saw it)
	S       int    `json:"s"`
	F       int    `json:"f"`
	Nested  bool   `json:"nested"` // issued from inside a data-message handler
	Outcome string `json:"outcome"` // reply | reject:<r> | t3 | closed | ctx | not-selected | nilnil | other:..
	RSb     []int  `json:"rsb"`     // reply header fields (outcome=reply)
	RS      int    `json:"rs"`
	RF      int    `json:"rf"`
	RW      bool   `json:"rw"`
	RTok    string `json:"rtok"`
	DtMs    int    `json:"dt_ms"`    // return time - time the peer received the primary (ms); -1 if never seen
	TotalMs int    `json:"total_ms"` // return time - call time
	EndMs   int    `json:"end_ms"`   // return time - time the generation was ended by the harness (ms); -1 if not ended
	SeenGen int    `json:"seen_gen"` // generation of the socket on which the peer saw the primary (0 = never)
	t1      time.Time
}

type txnPeerTx struct {
	Seq  int    `json:"seq"`
	Gen  int    `json:"gen"`
	Kind string `json:"kind"` // secondary | primary | ctl | reject
	St   int    `json:"st"`
	Sb   []int  `json:"sb"`
	S    int    `json:"s"`
	F    int    `json:"f"`
	W    bool   `json:"w"`
	B3   int    `json:"b3"`
	For  int    `json:"for"` // call id this frame answers (-1 none)
	Tok  string `json:"tok"`
	Sel  bool   `json:"sel"` // the library was Selected (from the peer's point of view) when this was sent
}

type txnMetrics struct {
	Send, Recv, Err, Drop, AsyncErr int
	Inflight, Reconnecting          int
	Reconnects                      int
}

type txnLine struct {
	T         string         `json:"t"` // "txn"
	ID        int            `json:"id"`
	Kind      string         `json:"kind"`
	T3Ms      int            `json:"t3_ms"`
	Calls     []txnCall      `json:"calls"`
	PeerTx    []txnPeerTx    `json:"peer_tx"`
	Delivered []lab.Delivery `json:"delivered"`
	// what the peer saw, per generation: tokens of data frames received from the library
	PeerRx    []txnPeerRx `json:"peer_rx"`
	trace     *txnTrace
	M0        txnMetrics  `json:"m0"`
	M1        txnMetrics  `json:"m1"`
	PeerDataRx int        `json:"peer_data_rx"` // data frames the peer received (all generations) between m0 and m1
	PeerDataTxSel int     `json:"peer_data_tx_sel"` // well-formed data frames the peer sent while Selected, between m0 and m1
	MinInflight int       `json:"min_inflight"` // minimum sampled in-flight gauge
	MinReconn   int       `json:"min_reconnecting"`
	JitterMs    int       `json:"max_jitter_ms"` // worst oversleep of a 1 ms sleeper during the scenario (machine noise)
	AsyncTokens []string  `json:"async_tokens"` // gen-1 fire-and-forget tokens queued behind a stalled writer
	EndState  string      `json:"end_state"`
	Fault     string      `json:"fault"`
	// every transaction the library opened towards the peer (data W primaries and its own Linktest.req),
	// with the interval during which it was open from the peer's point of view (ms since scenario start)
	OpenTxns []txnOpen `json:"open_txns"`
}

type txnOpen struct {
	Kind  string `json:"kind"`
	Sb    []int  `json:"sb"`
	RxMs  int    `json:"rx_ms"`
	AnsMs int    `json:"ans_ms"` // -1: never answered
}

type txnPeerRx struct {
	Gen int    `json:"gen"`
	Tok string `json:"tok"`
	Sb  []int  `json:"sb"`
	W   bool   `json:"w"`
}

func snapMetrics(c hsms.Connection) txnMetrics {
	m := c.Metrics()
	return txnMetrics{Send: int(m.DataMsgSendCount()), Recv: int(m.DataMsgRecvCount()), Err: int(m.DataMsgErrCount()),
		Drop: int(m.DataMsgDropNotSelectedCount()), AsyncErr: int(m.AsyncSendErrCount()), Inflight: int(m.DataMsgInflightCount()),
		Reconnecting: int(m.Reconnecting()), Reconnects: int(m.Reconnects())}
}

func tokenOf(body []int) string {
	// body is an ASCII item: 0x41 len bytes...
	if len(body) >= 2 && body[0] == 0x41 && body[1] == len(body)-2 {
		b := make([]byte, len(body)-2)
		for i := range b {
			b[i] = byte(body[i+2])
		}
		return string(b)
	}
	return ""
}

func asciiBody(s string) []byte { return append([]byte{0x41, byte(len(s))}, s...) }

var txnScripts = []string{"reply", "reply", "reply", "late", "none", "dup", "reject", "collide-primary", "collide-ctl", "unsolicited", "reorder", "reorder"}

// txnEv is one entry of the peer-side event log (one total order: taken under one mutex, sends serialised with their
// log entry) used for trace validation against impl/SendReply.
type txnEv struct {
	D    string `json:"d"` // "rx" the peer received a data primary of a call | "tx" the peer wrote a frame
	Kind string `json:"kind"`
	Sb   []int  `json:"sb"`
	Tok  string `json:"tok"`
	Gen  int    `json:"gen"`
}

type txnTrEv struct {
	D   string `json:"d"` // rx | tx | end | new
	K   string `json:"k"`
	Sbi int    `json:"sbi"`
	Gen int    `json:"gen"`
}

type txnTrace struct {
	T        string   `json:"t"` // "txntrace"
	ID       int      `json:"id"`
	Kind     string   `json:"kind"`
	NCalls   int      `json:"ncalls"`
	NSb      int      `json:"nsb"`
	CallSbi  []int    `json:"call_sbi"`
	Outcomes []string `json:"outcomes"`
	CallGen  []int     `json:"call_gen"`
	Events   []txnTrEv `json:"events"`
	Delivered []int `json:"delivered"`
	JitterMs  int   `json:"max_jitter_ms"`
}

type txnScenario struct {
	id      int
	kind    string // "plain" | "cancel" | "drop" | "close" | "gen"
	scripts []string
}

// txnPeer serves one TCP generation: answers primaries according to the per-token script.
type txnPeer struct {
	mu      sync.Mutex
	p       *peerkit.PeerConn
	gen     int
	scripts map[string]string // token -> script
	ids     map[string]int
	tx      *[]txnPeerTx
	rx      *[]txnPeerRx
	seen    map[string]seenInfo
	held    []peerkit.RxFrame // reorder: primaries waiting
	nReorder int
	stop    chan struct{}
	done    chan struct{}
	sbSeq   uint32
	sel     bool
	t0      time.Time
	open    *[]txnOpen
	ev      *[]txnEv
	evMu    *sync.Mutex
	edgeRand *rand.Rand
}

type seenInfo struct {
	sb  []int
	at  time.Time
	gen int
}

func (tp *txnPeer) send(kind string, f peerkit.Frame, forID int, tok string) {
	// the whole of it -- both log entries and the write -- is one critical section, so that the order of peer_tx and of
	// the event log IS the order on the wire even when several reply goroutines send at the same instant
	if tp.evMu != nil {
		tp.evMu.Lock()
		defer tp.evMu.Unlock()
	}
	tp.mu.Lock()
	*tp.tx = append(*tp.tx, txnPeerTx{Seq: len(*tp.tx) + 1, Gen: tp.gen, Kind: kind, St: f.ST, Sb: f.Sb, S: f.B2 & 0x7f, F: f.B3,
		W: f.B2&0x80 != 0, B3: f.B3, For: forID, Tok: tok, Sel: tp.sel})
	gen := tp.gen
	if tp.open != nil && (kind == "secondary" || kind == "reject") && forID > 0 {
		for i := range *tp.open {
			o := &(*tp.open)[i]
			if o.Kind == "data" && o.AnsMs < 0 && len(o.Sb) == 4 && o.Sb[0] == f.Sb[0] && o.Sb[1] == f.Sb[1] && o.Sb[2] == f.Sb[2] && o.Sb[3] == f.Sb[3] {
				o.AnsMs = int(time.Since(tp.t0) / time.Millisecond)
				break
			}
		}
	}
	tp.mu.Unlock()
	if tp.evMu != nil {
		*tp.ev = append(*tp.ev, txnEv{D: "tx", Kind: kind, Sb: f.Sb, Tok: tok, Gen: gen})
	}
	_ = tp.p.Send(f)
}

func (tp *txnPeer) reply(pf peerkit.RxFrame, id int) {
	tp.send("secondary", peerkit.Data(pf.Sid, pf.B2&0x7f, pf.B3+1, false, pf.SbU32(), asciiBody("r"+strconv.Itoa(id))), id, "r"+strconv.Itoa(id))
}

func (tp *txnPeer) loop() {
	defer close(tp.done)
	for {
		select {
		case <-tp.stop:
			return
		default:
		}
		f, ok := tp.p.Next(5 * time.Millisecond)
		if !ok {
			select {
			case <-tp.stop:
				return
			default:
			}
			if tp.p.EOF(0) {
				return
			}
			continue
		}
		if f.ST == peerkit.STLinktestReq && tp.open != nil {
			tp.mu.Lock()
			*tp.open = append(*tp.open, txnOpen{Kind: "linktest", Sb: f.Sb, RxMs: int(f.At.Sub(tp.t0) / time.Millisecond), AnsMs: -1})
			idx := len(*tp.open) - 1
			tp.mu.Unlock()
			go func(f peerkit.RxFrame, idx int) {
				time.Sleep(45 * time.Millisecond) // a slow-but-alive peer: the probe stays open for a while
				_ = tp.p.Send(peerkit.Ctl(peerkit.STLinktestRsp, 0xFFFF, f.SbU32()))
				tp.mu.Lock()
				(*tp.open)[idx].AnsMs = int(time.Since(tp.t0) / time.Millisecond)
				tp.mu.Unlock()
			}(f, idx)
			continue
		}
		if f.ST != peerkit.STData {
			continue
		}
		if f.B2&0x80 != 0 && tp.open != nil {
			tp.mu.Lock()
			*tp.open = append(*tp.open, txnOpen{Kind: "data", Sb: f.Sb, RxMs: int(f.At.Sub(tp.t0) / time.Millisecond), AnsMs: -1})
			tp.mu.Unlock()
		}
		tok := tokenOf(f.Body)
		if tp.evMu != nil { // lock order: evMu before tp.mu (as in send)
			tp.evMu.Lock()
			*tp.ev = append(*tp.ev, txnEv{D: "rx", Kind: "primary", Sb: f.Sb, Tok: tok, Gen: tp.gen})
			tp.evMu.Unlock()
		}
		tp.mu.Lock()
		*tp.rx = append(*tp.rx, txnPeerRx{Gen: tp.gen, Tok: tok, Sb: f.Sb, W: f.B2&0x80 != 0})
		script, known := tp.scripts[tok]
		id := tp.ids[tok]
		if known {
			tp.seen[tok] = seenInfo{sb: f.Sb, at: f.At, gen: tp.gen}
		}
		tp.mu.Unlock()
		if !known || f.B2&0x80 == 0 {
			continue
		}
		switch script {
		case "reply":
			tp.reply(f, id)
		case "late":
			go func(f peerkit.RxFrame) {
				time.Sleep(txnT3 + 90*time.Millisecond)
				tp.reply(f, id)
			}(f)
		case "edge": // the reply arrives as close to the T3 expiry as the peer can manage
			d := txnT3 - time.Duration(1500-tp.edgeRand.Intn(3000))*time.Microsecond - time.Since(f.At)
			go func(f peerkit.RxFrame) {
				time.Sleep(d)
				tp.reply(f, id)
			}(f)
		case "none", "cancel":
		case "dup":
			tp.reply(f, id)
			tp.reply(f, id)
		case "reject":
			rf := peerkit.CtlStatus(peerkit.STRejectReq, f.Sid, 1+id%4, f.SbU32())
			tp.send("reject", rf, id, "")
		case "collide-primary":
			tp.send("primary", peerkit.Data(f.Sid, 7, 1, true, f.SbU32(), asciiBody("p"+strconv.Itoa(id))), -1, "p"+strconv.Itoa(id))
			go func(f peerkit.RxFrame) {
				time.Sleep(25 * time.Millisecond)
				tp.reply(f, id)
			}(f)
		case "collide-ctl":
			st := []int{peerkit.STLinktestRsp, peerkit.STSelectRsp, peerkit.STDeselectRsp}[id%3]
			tp.send("ctl", peerkit.Ctl(st, 0xFFFF, f.SbU32()), -1, "")
			go func(f peerkit.RxFrame) {
				time.Sleep(25 * time.Millisecond)
				tp.reply(f, id)
			}(f)
		case "unsolicited":
			tp.sbSeq++
			tp.send("secondary", peerkit.Data(f.Sid, 9, 8, false, 0xEE000000+tp.sbSeq, asciiBody("u"+strconv.Itoa(id))), -1, "u"+strconv.Itoa(id))
			tp.reply(f, id)
		case "reorder":
			tp.held = append(tp.held, f)
			if len(tp.held) == tp.nReorder {
				for i := len(tp.held) - 1; i >= 0; i-- {
					h := tp.held[i]
					tp.reply(h, tp.ids[tokenOf(h.Body)])
				}
				tp.held = nil
			}
		}
	}
}

func runTxnScenario(sc txnScenario, r *rand.Rand) *txnLine {
	line := &txnLine{T: "txn", ID: sc.id, Kind: sc.kind, T3Ms: int(txnT3 / time.Millisecond), Calls: []txnCall{}, PeerTx: []txnPeerTx{},
		Delivered: []lab.Delivery{}, PeerRx: []txnPeerRx{}, AsyncTokens: []string{}, MinInflight: 0}
	var ltInterval time.Duration
	if sc.kind == "lt" {
		ltInterval = 20 * time.Millisecond // auto-linktest on: the library's own probes share the system-bytes space
	}
	noSupp := false
	cut, err := lab.NewCUT(lab.Options{Passive: true, Sid: 0x0102, T3: txnT3, T6: 2 * time.Second, T7: 30 * time.Second,
		BackoffInit: time.Millisecond, CloseTimeout: 2 * time.Second, Linktest: ltInterval, LinktestThreshold: 50, Suppression: &noSupp})
	if err != nil {
		line.Fault = err.Error()
		return line
	}
	if err := cut.Open(); err != nil {
		line.Fault = err.Error()
		return line
	}
	closed := false
	defer func() {
		if !closed {
			cut.Conn.Close()
		}
	}()
	var tx []txnPeerTx
	var rx []txnPeerRx
	opens := []txnOpen{}
	var evs []txnEv
	var evMu sync.Mutex
	scenarioStart := time.Now()
	connect := func(gen int) (*txnPeer, error) {
		p, err := cut.ConnectPeer(nil, 5*time.Second)
		if err != nil {
			return nil, err
		}
		p.Send(peerkit.Ctl(peerkit.STSelectReq, 0x0102, uint32(0x70000000+gen)))
		if _, ok := p.Barrier(3 * time.Second); !ok || !cut.WaitState("S", time.Second) {
			p.Close()
			return nil, fmt.Errorf("generation %d could not be selected", gen)
		}
		tp := &txnPeer{p: p, gen: gen, scripts: map[string]string{}, ids: map[string]int{}, tx: &tx, rx: &rx, seen: map[string]seenInfo{},
			stop: make(chan struct{}), done: make(chan struct{}), sel: true, t0: scenarioStart, open: &opens, ev: &evs, evMu: &evMu,
			edgeRand: rand.New(rand.NewSource(int64(sc.id)*7 + int64(gen)))}
		return tp, nil
	}
	tp, err := connect(1)
	if err != nil {
		line.Fault = err.Error()
		return line
	}
	// gauges are sampled throughout
	stopSample := make(chan struct{})
	var sampleWg sync.WaitGroup
	sampleWg.Add(1)
	go func() {
		defer sampleWg.Done()
		m := cut.Conn.Metrics()
		for {
			select {
			case <-stopSample:
				return
			default:
			}
			if v := int(m.DataMsgInflightCount()); v < line.MinInflight {
				line.MinInflight = v
			}
			if v := int(m.Reconnecting()); v < line.MinReconn {
				line.MinReconn = v
			}
			ts := time.Now()
			time.Sleep(time.Millisecond)
			if over := int((time.Since(ts) - time.Millisecond) / time.Millisecond); over > line.JitterMs {
				line.JitterMs = over
			}
		}
	}()
	line.M0 = snapMetrics(cut.Conn)
	nRe := 0
	for i, s := range sc.scripts {
		tok := "c" + strconv.Itoa(i+1)
		tp.scripts[tok] = s
		tp.ids[tok] = i + 1
		if s == "reorder" {
			nRe++
		}
	}
	tp.nReorder = nRe
	go tp.loop()

	var endAt time.Time
	var endMu sync.Mutex
	calls := make([]txnCall, len(sc.scripts))
	var wg sync.WaitGroup
	var nestedCall *txnCall
	nestedDone := make(chan struct{})
	var doCallRef func(i int, gen int, tok string, script string) txnCall
	nestedTok := "c" + strconv.Itoa(len(sc.scripts)+100)
	if sc.kind == "drop" || sc.kind == "gen" || sc.kind == "close" {
		tp.scripts[nestedTok] = "none"
		tp.ids[nestedTok] = len(sc.scripts) + 100
		cut.OnData = func(msg *hsms.DataMessage, _ hsms.SECS2Endpoint) {
			if it, err := msg.Item(); err == nil && it != nil && it.IsASCII() {
				if v, _ := it.ToASCII(); v == "h1" && nestedCall == nil {
					c := doCallRef(len(sc.scripts)+99, 1, nestedTok, "none")
					c.Nested = true
					nestedCall = &c
					close(nestedDone)
				}
			}
		}
	}
	doCall := func(i int, gen int, tok string, script string) txnCall {
		c := txnCall{ID: i + 1, Gen: gen, Script: script, S: 1 + i%5, F: 1 + 2*(i%60), Sb: []int{}, RSb: []int{}, DtMs: -1, EndMs: -1}
		ctx := context.Background()
		var cancel context.CancelFunc = func() {}
		if script == "cancel" {
			ctx, cancel = context.WithTimeout(ctx, 60*time.Millisecond)
		}
		t0 := time.Now()
		reply, err := cut.Conn.SendDataMessage(ctx, byte(c.S), byte(c.F), true, secs2.A(tok))
		t1 := time.Now()
		cancel()
		c.TotalMs = int(t1.Sub(t0) / time.Millisecond)
		c.t1 = t1
		switch {
		case err == nil && reply == nil:
			c.Outcome = "nilnil"
		case err == nil:
			c.Outcome = "reply"
			sb := reply.SystemBytes()
			c.RSb = []int{int(sb[0]), int(sb[1]), int(sb[2]), int(sb[3])}
			c.RS, c.RF, c.RW = int(reply.Stream()), int(reply.Function()), reply.WaitBit()
			if it, ierr := reply.Item(); ierr == nil && it != nil && it.IsASCII() {
				c.RTok, _ = it.ToASCII()
			}
		default:
			c.Outcome = errClass(err)
		}
		return c
	}
	doCallRef = doCall
	if sc.kind == "drop" || sc.kind == "gen" || sc.kind == "close" {
		tp.send("primary", peerkit.Data(0x0102, 5, 1, false, 0xDD000001, asciiBody("h1")), -1, "h1")
	}
	if sc.kind == "b2" {
		// park the first data writer under the write lock, deselect the session, then release: every
		// queued writer must be refused at the write boundary (no bytes, one drop each, gauges balanced)
		parked := make(chan struct{})
		rel := make(chan struct{})
		var once sync.Once
		hsms.VerifSetGate(func(name string) {
			if name == "write.locked" {
				first := false
				once.Do(func() { first = true })
				if first {
					close(parked)
					<-rel
				}
			}
		})
		go func() {
			select {
			case <-parked:
			case <-time.After(time.Second):
			}
			time.Sleep(10 * time.Millisecond) // let the other senders pass the first gate and queue on the lock
			tp.mu.Lock()
			tp.sel = false
			tp.mu.Unlock()
			_ = tp.p.Send(peerkit.Ctl(peerkit.STDeselectReq, 0x0102, 0x70000099))
			cut.WaitState("NS", time.Second)
			close(rel)
			hsms.VerifSetGate(nil)
		}()
	}
	var stallRelease chan struct{}
	if sc.kind == "stall" {
		// park the first data writer under the write lock for a while: the others queue behind it
		parked := make(chan struct{})
		stallRelease = make(chan struct{})
		var once sync.Once
		hsms.VerifSetGate(func(name string) {
			if name == "write.locked" {
				first := false
				once.Do(func() { first = true })
				if first {
					close(parked)
					<-stallRelease
				}
			}
		})
		go func() {
			select {
			case <-parked:
			case <-time.After(time.Second):
			}
			time.Sleep(150 * time.Millisecond)
			close(stallRelease)
			hsms.VerifSetGate(nil)
		}()
	}
	for i, s := range sc.scripts {
		wg.Add(1)
		go func(i int, s string) {
			defer wg.Done()
			if s != "reorder" {
				time.Sleep(time.Duration(r.Intn(3000)) * time.Microsecond)
			}
			calls[i] = doCall(i, 1, "c"+strconv.Itoa(i+1), s)
		}(i, s)
	}
	allSeen := func(d time.Duration) bool {
		deadline := time.Now().Add(d)
		want := len(sc.scripts)
		if sc.kind == "drop" || sc.kind == "gen" || sc.kind == "close" {
			want++ // the handler-nested send
		}
		for time.Now().Before(deadline) {
			tp.mu.Lock()
			n := len(tp.seen)
			tp.mu.Unlock()
			if n >= want {
				return true
			}
			time.Sleep(500 * time.Microsecond)
		}
		return false
	}
	var gen2 *txnPeer
	switch sc.kind {
	case "drop", "gen":
		// end generation 1 while "none" calls are still waiting
		allSeen(time.Second)
		time.Sleep(10 * time.Millisecond)
		if sc.kind == "gen" {
			// stall the async drainer under the write lock, queue fire-and-forget messages, then drop
			parked, release := make(chan struct{}), make(chan struct{})
			var once sync.Once
			hsms.VerifSetGate(func(name string) {
				if name == "write.locked" {
					first := false
					once.Do(func() { first = true })
					if first {
						close(parked)
						<-release
					}
				}
			})
			for k := 0; k < 4; k++ {
				tok := "a" + strconv.Itoa(k+1)
				if err := cut.Conn.SendDataMessageAsync(context.Background(), 6, 11, false, secs2.A(tok)); err == nil {
					line.AsyncTokens = append(line.AsyncTokens, tok)
				}
			}
			select {
			case <-parked:
			case <-time.After(time.Second):
			}
			endMu.Lock()
			endAt = time.Now()
			endMu.Unlock()
			dials := cut.Net.DialCount()
			evMu.Lock()
			evs = append(evs, txnEv{D: "end", Kind: "peer", Gen: 1, Sb: []int{}})
			if r.Intn(2) == 0 {
				tp.p.Reset()
			} else {
				tp.p.Close()
			}
			evMu.Unlock()
			close(tp.stop)
			time.Sleep(15 * time.Millisecond)
			close(release)
			hsms.VerifSetGate(nil)
			cut.WaitDropped(dials, 2*time.Second)
		} else {
			endMu.Lock()
			endAt = time.Now()
			endMu.Unlock()
			evMu.Lock()
			evs = append(evs, txnEv{D: "end", Kind: "peer", Gen: 1, Sb: []int{}})
			if r.Intn(2) == 0 {
				tp.p.Reset()
			} else {
				tp.p.Close()
			}
			evMu.Unlock()
			close(tp.stop)
		}
		wg.Wait()
		<-tp.done
		// generation 2: stale replies for generation-1 transactions must not complete anything
		g2, err := connect(2)
		if err != nil {
			line.Fault = err.Error()
			break
		}
		gen2 = g2
		evMu.Lock()
		evs = append(evs, txnEv{D: "new", Kind: "selected", Gen: 2, Sb: []int{}})
		evMu.Unlock()
		for tok, si := range tp.seen {
			if tp.scripts[tok] == "none" {
				id := tp.ids[tok]
				sb := uint32(si.sb[0])<<24 | uint32(si.sb[1])<<16 | uint32(si.sb[2])<<8 | uint32(si.sb[3])
				gen2.send("secondary", peerkit.Data(0x0102, 1, 2, false, sb, asciiBody("s"+strconv.Itoa(id))), -1, "s"+strconv.Itoa(id))
			}
		}
		// and fresh calls on generation 2 work
		n1 := len(sc.scripts)
		extra := make([]txnCall, 2)
		for k := 0; k < 2; k++ {
			tok := "c" + strconv.Itoa(n1+k+1)
			gen2.scripts[tok] = "reply"
			gen2.ids[tok] = n1 + k + 1
		}
		go gen2.loop()
		var wg2 sync.WaitGroup
		for k := 0; k < 2; k++ {
			wg2.Add(1)
			go func(k int) {
				defer wg2.Done()
				extra[k] = doCall(n1+k, 2, "c"+strconv.Itoa(n1+k+1), "reply")
				extra[k].EndMs = -1
			}(k)
		}
		wg2.Wait()
		calls = append(calls, extra...)
	case "close":
		allSeen(time.Second)
		time.Sleep(10 * time.Millisecond)
		endMu.Lock()
		endAt = time.Now()
		endMu.Unlock()
		evMu.Lock()
		evs = append(evs, txnEv{D: "end", Kind: "close", Gen: 1, Sb: []int{}})
		evMu.Unlock()
		_ = cut.Conn.Close()
		closed = true
		wg.Wait()
		close(tp.stop)
	default:
		wg.Wait()
	}
	// settle: late replies, barrier, deliveries
	hasLate := false
	for _, s := range sc.scripts {
		if s == "late" {
			hasLate = true
		}
	}
	live := tp
	if gen2 != nil {
		live = gen2
	}
	if !closed && line.Fault == "" {
		if hasLate && gen2 == nil {
			time.Sleep(txnT3 + 150*time.Millisecond)
		} else {
			time.Sleep(40 * time.Millisecond)
		}
		if gen2 == nil && sc.kind != "drop" {
			close(tp.stop)
		} else if gen2 != nil {
			close(gen2.stop)
		}
		<-live.done
		if sc.kind != "drop" || gen2 != nil {
			live.p.Barrier(2 * time.Second)
		}
	}
	time.Sleep(5 * time.Millisecond)
	close(stopSample)
	sampleWg.Wait()
	line.M1 = snapMetrics(cut.Conn)
	line.EndState = cut.State()
	line.Delivered = cut.TakeDeliveries()
	if sc.kind == "drop" || sc.kind == "gen" || sc.kind == "close" {
		select {
		case <-nestedDone:
			calls = append(calls, *nestedCall)
		case <-time.After(3 * time.Second):
			calls = append(calls, txnCall{ID: len(sc.scripts) + 100, Gen: 1, Script: "none", Nested: true, Outcome: "hung", Sb: []int{}, RSb: []int{}, DtMs: -1, EndMs: 9999})
		}
	}
	// "promptly" is measured from the moment the LIBRARY knew the generation was over: the first
	// NotConnected notification after the harness ended it (falls back to the harness's own time)
	if !endAt.IsZero() {
		ref := endAt
		for _, n := range cut.TakeNotes() {
			if n.Next == "NC" && !n.At.Before(endAt) {
				ref = n.At
				break
			}
		}
		for i := range calls {
			if !calls[i].t1.IsZero() && calls[i].Gen == 1 {
				calls[i].EndMs = int(calls[i].t1.Sub(ref) / time.Millisecond)
				if calls[i].t1.Before(endAt) {
					calls[i].EndMs = -1
				}
			}
		}
	}
	// finalise the calls with what the peer saw
	for i := range calls {
		tok := "c" + strconv.Itoa(calls[i].ID)
		var si seenInfo
		var ok bool
		if si, ok = tp.seen[tok]; !ok && gen2 != nil {
			si, ok = gen2.seen[tok]
		}
		if ok {
			calls[i].Sb = si.sb
			calls[i].SeenGen = si.gen
			calls[i].DtMs = int(calls[i].t1.Sub(si.at) / time.Millisecond)
		}
	}
	line.Calls = calls
	if tx == nil {
		tx = []txnPeerTx{}
	}
	if rx == nil {
		rx = []txnPeerRx{}
	}
	line.PeerTx = tx
	line.PeerRx = rx
	live.mu.Lock()
	line.OpenTxns = append([]txnOpen{}, opens...)
	live.mu.Unlock()
	line.PeerDataRx = len(rx)
	for _, x := range tx {
		if x.St == peerkit.STData && x.Sel {
			line.PeerDataTxSel++
		}
	}
	live.p.Close()
	if gen2 != nil {
		tp.p.Close()
	}
	evMu.Lock()
	line.trace = txnMakeTrace(sc, line, evs)
	evMu.Unlock()
	return line
}

// txnMakeTrace abstracts one single-generation scenario to the vocabulary of impl/SendReply: system bytes become
// small indices, the peer's log becomes rx / tx events, each call gets its outcome kind.
func txnMakeTrace(sc txnScenario, line *txnLine, evs []txnEv) *txnTrace {
	if line.Fault != "" || sc.kind == "b2" {
		return nil
	}
	idx := map[string]int{}
	sbi := func(sb []int) int {
		k := fmt.Sprint(sb)
		if _, ok := idx[k]; !ok {
			idx[k] = len(idx) + 1
		}
		return idx[k]
	}
	tr := &txnTrace{T: "txntrace", ID: sc.id, Kind: sc.kind, NCalls: len(line.Calls), CallSbi: []int{}, Outcomes: []string{}, CallGen: []int{}, Delivered: []int{}, JitterMs: line.JitterMs}
	callTok := map[string]bool{}
	for _, c := range line.Calls {
		if len(c.Sb) != 4 || c.Outcome == "hung" {
			return nil // a call the peer never saw: outside this trace vocabulary
		}
		tr.CallSbi = append(tr.CallSbi, sbi(c.Sb))
		tr.CallGen = append(tr.CallGen, c.SeenGen)
		o := c.Outcome
		if strings.HasPrefix(o, "reject:") {
			o = "reject"
		}
		tr.Outcomes = append(tr.Outcomes, o)
		callTok["c"+strconv.Itoa(c.ID)] = true
	}
	for _, e := range evs {
		if e.D == "rx" && !callTok[e.Tok] {
			continue // the library's own messages (S9 notices, fire-and-forget sends, ...) are not calls of the model
		}
		k, b := e.Kind, 0
		if e.D == "rx" {
			k = "primary"
		}
		if e.D == "rx" || e.D == "tx" {
			b = sbi(e.Sb)
		}
		tr.Events = append(tr.Events, txnTrEv{e.D, k, b, e.Gen})
	}
	for _, d := range line.Delivered {
		tr.Delivered = append(tr.Delivered, sbi(d.Sb))
	}
	tr.NSb = len(idx)
	return tr
}

func runTxn(args []string) int {
	fs := flag.NewFlagSet("txn", flag.ExitOnError)
	n := fs.Int("n", 60, "number of scenarios")
	seed := fs.Int64("seed", 1, "PRNG seed")
	out := fs.String("out", "", "observation file")
	kinds := fs.String("kinds", "plain,cancel,drop,close,gen,stall,lt,b2", "scenario kinds")
	par := fs.Int("par", 4, "scenarios in flight")
	traces := fs.String("traces", "", "optional file for the peer-side event traces (trace validation against impl/SendReply)")
	fs.Parse(args)
	var tw *rec.Writer
	if *traces != "" {
		var err error
		if tw, err = rec.Create(*traces); err != nil {
			fmt.Fprintln(os.Stderr, err)
			return 2
		}
	}
	w, err := rec.Create(*out)
	if err != nil {
		fmt.Fprintln(os.Stderr, err)
		return 2
	}
	r := rand.New(rand.NewSource(*seed))
	ks := strings.Split(*kinds, ",")
	var scs []txnScenario
	for i := 0; i < *n; i++ {
		kind := ks[i%len(ks)]
		ns := 1 + r.Intn(8)
		sc := txnScenario{id: i + 1, kind: kind}
		for j := 0; j < ns; j++ {
			s := txnScripts[r.Intn(len(txnScripts))]
			switch kind {
			case "edge":
				s = "edge"
			case "cancel":
				if j%2 == 0 {
					s = "cancel"
				}
			case "stall", "b2":
				s = "none"
			case "lt":
				if s == "late" || s == "reorder" || s == "collide-ctl" {
					s = "none"
				}
			case "drop", "close", "gen":
				if j%2 == 0 {
					s = "none"
				} else if s == "late" || s == "reorder" {
					s = "reply"
				}
			}
			sc.scripts = append(sc.scripts, s)
		}
		scs = append(scs, sc)
	}
	faults := 0
	var mu sync.Mutex
	sem := make(chan struct{}, *par)
	var wg sync.WaitGroup
	var gateMu sync.RWMutex // "gen" scenarios install the process-wide write gate: run them alone
	for _, sc := range scs {
		wg.Add(1)
		sem <- struct{}{}
		go func(sc txnScenario) {
			defer wg.Done()
			defer func() { <-sem }()
			if sc.kind == "gen" || sc.kind == "stall" || sc.kind == "b2" {
				gateMu.Lock()
				defer gateMu.Unlock()
			} else {
				gateMu.RLock()
				defer gateMu.RUnlock()
			}
			line := runTxnScenario(sc, rand.New(rand.NewSource(*seed*1000+int64(sc.id))))
			mu.Lock()
			if line.Fault != "" {
				faults++
			}
			if tw != nil && line.trace != nil {
				tw.Emit(line.trace)
			}
			mu.Unlock()
			w.Emit(line)
		}(sc)
	}
	wg.Wait()
	if tw != nil {
		_ = tw.Close()
	}
	if err := w.Close(); err != nil {
		fmt.Fprintln(os.Stderr, err)
		return 2
	}
	b, _ := json.Marshal(map[string]int{"lines": w.N, "faults": faults})
	fmt.Println(string(b))
	return 0
}
