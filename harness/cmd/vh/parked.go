package main

import (
	"context"
	"flag"
	"fmt"
	"os"
	"sync"
	"time"

	"github.com/arloliu/go-secs/v2/secs2"

	"verif/harness/lab"
	"verif/harness/peerkit"
	"verif/harness/rec"
)

func init() {
	register("parked", "fire-and-forget sends parked on a full queue when their generation ends (C09)", runParked)
}

// parkedLine: the socket stops taking bytes (write gate), the send queue (capacity 2) fills, further SendAsync
// calls park; then the generation ends (peer reset / Close). Every parked call must complete promptly with the
// connection-closed error -- none of the callers cancelled anything -- and nothing of it may reach the next generation.
type parkedLine struct {
	T           string   `json:"t"`   // "parked"
	How         string   `json:"how"` // "reset" | "close"
	Calls       int      `json:"calls"`
	Results     []string `json:"results"`       // error class per call
	LateMs      []int    `json:"late_ms"`       // completion time after the generation ended, per call that was still pending then
	Pending     int      `json:"pending"`       // calls still pending when the generation ended
	Unreturned  int      `json:"unreturned"`    // calls that had not returned 2 s later
	NextGenData int      `json:"next_gen_data"` // data frames seen by the peer of the next generation
	Fault       string   `json:"fault"`
}

func parkedScenario(how string) *parkedLine {
	const n = 8
	line := &parkedLine{T: "parked", How: how, Calls: n, Results: make([]string, n), LateMs: []int{}}
	cut, err := lab.NewCUT(lab.Options{Passive: true, Sid: 0x0102, T3: time.Second, T6: time.Second, T7: 5 * time.Second, T8: time.Second,
		CloseTimeout: 500 * time.Millisecond, BackoffInit: 2 * time.Millisecond, SendQueue: 2, WriteTimeout: 3 * time.Second})
	if err != nil {
		line.Fault = err.Error()
		return line
	}
	if err := cut.Open(); err != nil {
		line.Fault = err.Error()
		return line
	}
	defer cut.Conn.Close()
	p, err := cut.ConnectPeer(nil, 3*time.Second)
	if err != nil {
		line.Fault = "connect: " + err.Error()
		return line
	}
	defer p.Close()
	p.Send(peerkit.Ctl(peerkit.STSelectReq, 0x0102, 1))
	if _, ok := p.Barrier(2 * time.Second); !ok || !cut.WaitState("S", time.Second) {
		line.Fault = "the session was not selected"
		return line
	}
	conns := cut.Net.Conns()
	if len(conns) == 0 {
		line.Fault = "no library socket"
		return line
	}
	wc := conns[len(conns)-1]
	stall := make(chan struct{})
	gate := func(int) error { <-stall; return nil }
	wc.WriteGate.Store(&gate)
	var releaseOnce sync.Once
	release := func() { releaseOnce.Do(func() { close(stall) }) }
	defer release()
	type res struct {
		i   int
		err error
		at  time.Time
	}
	out := make(chan res, n)
	for i := 0; i < n; i++ {
		go func(i int) {
			err := cut.Conn.SendDataMessageAsync(context.Background(), 7, 1, false, secs2.A(fmt.Sprintf("parked-%d", i)))
			out <- res{i, err, time.Now()}
		}(i)
		time.Sleep(2 * time.Millisecond)
	}
	time.Sleep(30 * time.Millisecond)
	got := 0
	done := make([]bool, n)
	drain := func(d time.Duration, ended time.Time) {
		deadline := time.After(d)
		for got < n {
			select {
			case r := <-out:
				got++
				done[r.i] = true
				line.Results[r.i] = lifeErr(r.err)
				if !ended.IsZero() {
					line.LateMs = append(line.LateMs, int(r.at.Sub(ended)/time.Millisecond))
				}
			case <-deadline:
				return
			}
		}
	}
	drain(time.Millisecond, time.Time{})
	line.Pending = n - got
	if line.Pending < 3 {
		line.Fault = fmt.Sprintf("only %d calls were pending when the generation was to end", line.Pending)
		return line
	}
	ended := time.Now()
	switch how {
	case "reset":
		p.Reset()
	case "close":
		go cut.Conn.Close()
	}
	drain(2*time.Second, ended)
	line.Unreturned = n - got
	release()
	for i := range line.Results {
		if !done[i] {
			line.Results[i] = "pending"
		}
	}
	if how == "reset" { // the next generation must not see any of the parked messages
		if p2, err := cut.ConnectPeer(nil, 3*time.Second); err == nil {
			p2.Send(peerkit.Ctl(peerkit.STSelectReq, 0x0102, 2))
			end := time.Now().Add(150 * time.Millisecond)
			for time.Now().Before(end) {
				if f, ok := p2.Next(10 * time.Millisecond); ok && f.ST == peerkit.STData {
					line.NextGenData++
				}
			}
			p2.Close()
		}
	}
	return line
}

func runParked(args []string) int {
	fs := flag.NewFlagSet("parked", flag.ExitOnError)
	out := fs.String("out", "", "observation file")
	reps := fs.Int("reps", 2, "repetitions")
	fs.Parse(args)
	w, err := rec.Create(*out)
	if err != nil {
		fmt.Fprintln(os.Stderr, err)
		return 2
	}
	for i := 0; i < *reps; i++ {
		w.Emit(parkedScenario("reset"))
		w.Emit(parkedScenario("close"))
	}
	if err := w.Close(); err != nil {
		fmt.Fprintln(os.Stderr, err)
		return 2
	}
	fmt.Printf("{\"lines\": %d}\n", w.N)
	return 0
}
