package main

import (
	"context"
	"encoding/binary"
	"encoding/json"
	"flag"
	"fmt"
	"math"
	"math/big"
	"math/rand"
	"os"
	"strconv"
	"time"

	"github.com/arloliu/go-secs/v2/hsms"
	"github.com/arloliu/go-secs/v2/secs2"

	"verif/harness/lab"
	"verif/harness/peerkit"
	"verif/harness/rec"
)

func init() {
	register("c16", "constructors: argument lists over Go types x widths x boundary values; the fate of errored items (C16)", runC16)
}

type c16Val struct {
	Neg     bool  `json:"neg"`
	Mag     []int `json:"mag"` // 9-byte big-endian magnitude
	Bad     bool  `json:"bad"` // a string the target family cannot parse
	Inexact bool  `json:"inexact"`
	F64     []int `json:"f64"`
	F32     []int `json:"f32"`
}

type c16Arg struct {
	Gt   string   `json:"gt"`
	Form string   `json:"form"` // "scalar" | "slice"
	Vals []c16Val `json:"vals"`
	Text []string `json:"text"`
}

type c16Line struct {
	T              string   `json:"t"` // "ctor"
	Family         string   `json:"family"`
	Kind           string   `json:"kind"`
	W              int      `json:"w"`
	SizeValid      bool     `json:"size_valid"`
	Via            string   `json:"via"` // "New" | "shortcut"
	Args           []c16Arg `json:"args"`
	Panicked       bool     `json:"panicked"`
	PanicText      string   `json:"panic_text"`
	Err            bool     `json:"err"`
	ErrText        string   `json:"err_text"`
	Got            [][]int  `json:"got"`
	AccessorsAgree bool     `json:"accessors_agree"`
	Wire           []int    `json:"wire"`
}

func mag9(v *big.Int) []int {
	b := new(big.Int).Abs(v).Bytes()
	out := make([]int, 9)
	if len(b) > 9 {
		for i := range out {
			out[i] = 255
		}
		return out
	}
	for i, x := range b {
		out[9-len(b)+i] = int(x)
	}
	return out
}

func bits8(f float64) []int {
	var b [8]byte
	binary.BigEndian.PutUint64(b[:], math.Float64bits(f))
	return rec.Ints(b[:])
}

func bits4(f float32) []int {
	var b [4]byte
	binary.BigEndian.PutUint32(b[:], math.Float32bits(f))
	return rec.Ints(b[:])
}

func intVal(v *big.Int) c16Val {
	f, _ := new(big.Float).SetInt(v).Float64()
	lim := new(big.Int).Lsh(big.NewInt(1), 53)
	return c16Val{Neg: v.Sign() < 0, Mag: mag9(v), Inexact: new(big.Int).Abs(v).Cmp(lim) > 0, F64: bits8(f), F32: bits4(float32(f))}
}

func floatVal(f float64) c16Val {
	return c16Val{Mag: make([]int, 9), F64: bits8(f), F32: bits4(float32(f))}
}

var c16Pool []*big.Int

func init() {
	add := func(s string) {
		v, _ := new(big.Int).SetString(s, 0)
		c16Pool = append(c16Pool, v, new(big.Int).Neg(v))
	}
	for _, s := range []string{"0", "1", "2", "100", "126", "127", "128", "129", "200", "254", "255", "256", "257", "32766", "32767", "32768", "32769",
		"65535", "65536", "2147483646", "2147483647", "2147483648", "2147483649", "4294967295", "4294967296", "9007199254740992", "9007199254740993",
		"9223372036854775806", "9223372036854775807", "9223372036854775808", "9223372036854775809", "18446744073709551615", "18446744073709551616",
		"340282346638528859811704183484516925440", "36893488147419103232"} {
		add(s)
	}
}

type goType struct {
	name   string
	lo, hi *big.Int
	scalar func(v *big.Int) any
	slice  func(vs []*big.Int) any
}

func bi(s string) *big.Int { v, _ := new(big.Int).SetString(s, 0); return v }

var c16GoTypes = []goType{
	{"int", bi("-9223372036854775808"), bi("9223372036854775807"), func(v *big.Int) any { return int(v.Int64()) }, func(vs []*big.Int) any {
		o := make([]int, len(vs))
		for i, v := range vs {
			o[i] = int(v.Int64())
		}
		return o
	}},
	{"int8", bi("-128"), bi("127"), func(v *big.Int) any { return int8(v.Int64()) }, func(vs []*big.Int) any {
		o := make([]int8, len(vs))
		for i, v := range vs {
			o[i] = int8(v.Int64())
		}
		return o
	}},
	{"int16", bi("-32768"), bi("32767"), func(v *big.Int) any { return int16(v.Int64()) }, func(vs []*big.Int) any {
		o := make([]int16, len(vs))
		for i, v := range vs {
			o[i] = int16(v.Int64())
		}
		return o
	}},
	{"int32", bi("-2147483648"), bi("2147483647"), func(v *big.Int) any { return int32(v.Int64()) }, func(vs []*big.Int) any {
		o := make([]int32, len(vs))
		for i, v := range vs {
			o[i] = int32(v.Int64())
		}
		return o
	}},
	{"int64", bi("-9223372036854775808"), bi("9223372036854775807"), func(v *big.Int) any { return v.Int64() }, func(vs []*big.Int) any {
		o := make([]int64, len(vs))
		for i, v := range vs {
			o[i] = v.Int64()
		}
		return o
	}},
	{"uint", bi("0"), bi("18446744073709551615"), func(v *big.Int) any { return uint(v.Uint64()) }, func(vs []*big.Int) any {
		o := make([]uint, len(vs))
		for i, v := range vs {
			o[i] = uint(v.Uint64())
		}
		return o
	}},
	{"uint8", bi("0"), bi("255"), func(v *big.Int) any { return uint8(v.Uint64()) }, func(vs []*big.Int) any {
		o := make([]uint8, len(vs))
		for i, v := range vs {
			o[i] = uint8(v.Uint64())
		}
		return o
	}},
	{"uint16", bi("0"), bi("65535"), func(v *big.Int) any { return uint16(v.Uint64()) }, func(vs []*big.Int) any {
		o := make([]uint16, len(vs))
		for i, v := range vs {
			o[i] = uint16(v.Uint64())
		}
		return o
	}},
	{"uint32", bi("0"), bi("4294967295"), func(v *big.Int) any { return uint32(v.Uint64()) }, func(vs []*big.Int) any {
		o := make([]uint32, len(vs))
		for i, v := range vs {
			o[i] = uint32(v.Uint64())
		}
		return o
	}},
	{"uint64", bi("0"), bi("18446744073709551615"), func(v *big.Int) any { return v.Uint64() }, func(vs []*big.Int) any {
		o := make([]uint64, len(vs))
		for i, v := range vs {
			o[i] = v.Uint64()
		}
		return o
	}},
}

func (g goType) fits(v *big.Int) bool { return v.Cmp(g.lo) >= 0 && v.Cmp(g.hi) <= 0 }

type myInt int

// one constructor call, recorded
func c16Call(w *rec.Writer, family string, width int, via string, args []c16Arg, goArgs []any) {
	line := &c16Line{T: "ctor", Family: family, W: width, Via: via, Args: args, Got: [][]int{}, Wire: []int{}}
	switch family {
	case "I":
		line.SizeValid = width == 1 || width == 2 || width == 4 || width == 8
		line.Kind = "I" + strconv.Itoa(width)
	case "U":
		line.SizeValid = width == 1 || width == 2 || width == 4 || width == 8
		line.Kind = "U" + strconv.Itoa(width)
	case "F":
		line.SizeValid = width == 4 || width == 8
		line.Kind = "F" + strconv.Itoa(width)
	case "B":
		line.SizeValid, line.Kind, line.W = true, "B", 1
	case "BOOL":
		line.SizeValid, line.Kind, line.W = true, "BOOL", 1
	}
	func() {
		defer func() {
			if r := recover(); r != nil {
				line.Panicked, line.PanicText = true, fmt.Sprint(r)
			}
		}()
		var it secs2.Item
		switch {
		case family == "I" && via == "New":
			it = secs2.NewIntItem(width, goArgs...)
		case family == "I":
			it = map[int]func(...any) secs2.Item{1: secs2.I1, 2: secs2.I2, 4: secs2.I4, 8: secs2.I8}[width](goArgs...)
		case family == "U" && via == "New":
			it = secs2.NewUintItem(width, goArgs...)
		case family == "U":
			it = map[int]func(...any) secs2.Item{1: secs2.U1, 2: secs2.U2, 4: secs2.U4, 8: secs2.U8}[width](goArgs...)
		case family == "F" && via == "New":
			it = secs2.NewFloatItem(width, goArgs...)
		case family == "F":
			it = map[int]func(...any) secs2.Item{4: secs2.F4, 8: secs2.F8}[width](goArgs...)
		case family == "B" && via == "New":
			it = secs2.NewBinaryItem(goArgs...)
		case family == "B":
			it = secs2.B(goArgs...)
		case family == "BOOL" && via == "New":
			it = secs2.NewBooleanItem(goArgs...)
		default:
			it = secs2.BOOLEAN(goArgs...)
		}
		if err := it.Error(); err != nil {
			line.Err, line.ErrText = true, err.Error()
			// an errored item must not produce wire bytes either
			if b := it.ToBytes(); len(b) != 0 {
				line.ErrText += " [ToBytes returned data]"
			}
			return
		}
		line.AccessorsAgree = true
		img8 := func(v uint64) []int {
			var b [8]byte
			binary.BigEndian.PutUint64(b[:], v)
			return rec.Ints(b[:])
		}
		switch family {
		case "I":
			vs, err := it.ToInt()
			if err != nil {
				line.AccessorsAgree = false
			}
			for i, v := range vs {
				line.Got = append(line.Got, img8(uint64(v)))
				if x, err := it.(*secs2.IntItem).IntAt(i); err != nil || x != v {
					line.AccessorsAgree = false
				}
			}
			if it.Size() != len(vs) {
				line.AccessorsAgree = false
			}
		case "U":
			vs, err := it.ToUint()
			if err != nil {
				line.AccessorsAgree = false
			}
			for i, v := range vs {
				line.Got = append(line.Got, img8(v))
				if x, err := it.(*secs2.UintItem).UintAt(i); err != nil || x != v {
					line.AccessorsAgree = false
				}
			}
			if it.Size() != len(vs) {
				line.AccessorsAgree = false
			}
		case "F":
			vs, err := it.ToFloat()
			if err != nil {
				line.AccessorsAgree = false
			}
			for _, v := range vs {
				if width == 4 {
					line.Got = append(line.Got, bits4(float32(v)))
					if float64(float32(v)) != v && !math.IsNaN(v) {
						line.AccessorsAgree = false // an F4 element that is not a float32 value
					}
				} else {
					line.Got = append(line.Got, bits8(v))
				}
			}
			if it.Size() != len(vs) {
				line.AccessorsAgree = false
			}
		case "B":
			vs, err := it.ToBinary()
			if err != nil {
				line.AccessorsAgree = false
			}
			for _, v := range vs {
				line.Got = append(line.Got, img8(uint64(v)))
			}
		case "BOOL":
			vs, err := it.ToBoolean()
			if err != nil {
				line.AccessorsAgree = false
			}
			for _, v := range vs {
				x := uint64(0)
				if v {
					x = 1
				}
				line.Got = append(line.Got, img8(x))
			}
		}
		line.Wire = rec.Ints(it.ToBytes())
	}()
	w.Emit(line)
}

func c16Ctors(w *rec.Writer, r *rand.Rand, n int) {
	families := []struct {
		f      string
		widths []int
	}{{"I", []int{1, 2, 4, 8, 0, 3, 5, 16, -1}}, {"U", []int{1, 2, 4, 8, 0, 3, 6, 9}}, {"F", []int{4, 8, 0, 1, 2, 16}}}
	valid := func(f string, w int) bool {
		if f == "F" {
			return w == 4 || w == 8
		}
		return w == 1 || w == 2 || w == 4 || w == 8
	}
	// 1. every pool value x every Go type it fits x every family/width, as scalar, as 1-slice, as decimal string
	for _, fam := range families {
		for _, width := range fam.widths {
			vias := []string{"New"}
			if valid(fam.f, width) {
				vias = append(vias, "shortcut")
			}
			for _, via := range vias {
				for _, v := range c16Pool {
					for _, g := range c16GoTypes {
						if !g.fits(v) {
							continue
						}
						c16Call(w, fam.f, width, via, []c16Arg{{Gt: g.name, Form: "scalar", Vals: []c16Val{intVal(v)}, Text: []string{}}}, []any{g.scalar(v)})
						if via == "New" {
							c16Call(w, fam.f, width, via, []c16Arg{{Gt: g.name, Form: "slice", Vals: []c16Val{intVal(v)}, Text: []string{}}}, []any{g.slice([]*big.Int{v})})
						}
					}
					if via == "New" && !valid(fam.f, width) {
						continue
					}
					sv := intVal(v)
					sv.Bad = fam.f == "U" && v.Sign() < 0
					if fam.f == "F" {
						f, _ := strconv.ParseFloat(v.String(), 64) // correctly rounded value of the literal (language semantics)
						sv.F64, sv.F32, sv.Inexact = bits8(f), bits4(float32(f)), false
					}
					c16Call(w, fam.f, width, via, []c16Arg{{Gt: "string", Form: "scalar", Vals: []c16Val{sv}, Text: []string{v.String()}}}, []any{v.String()})
				}
			}
		}
	}
	// 2. random multi-argument lists mixing scalars, slices, strings
	for i := 0; i < n; i++ {
		fam := families[r.Intn(len(families))]
		width := fam.widths[r.Intn(len(fam.widths))]
		if r.Intn(6) > 0 {
			width = fam.widths[r.Intn(map[string]int{"I": 4, "U": 4, "F": 2}[fam.f])]
		}
		var args []c16Arg
		var goArgs []any
		for k := 0; k < 1+r.Intn(4); k++ {
			g := c16GoTypes[r.Intn(len(c16GoTypes))]
			pick := func() *big.Int {
				for {
					v := c16Pool[r.Intn(len(c16Pool))]
					if r.Intn(3) == 0 {
						v = new(big.Int).Add(v, big.NewInt(int64(r.Intn(7)-3)))
					}
					if g.fits(v) {
						return v
					}
				}
			}
			switch r.Intn(4) {
			case 0:
				v := pick()
				args = append(args, c16Arg{Gt: g.name, Form: "scalar", Vals: []c16Val{intVal(v)}, Text: []string{}})
				goArgs = append(goArgs, g.scalar(v))
			case 1:
				m := r.Intn(4)
				vs := make([]*big.Int, m)
				vals := make([]c16Val, m)
				for j := range vs {
					vs[j] = pick()
					vals[j] = intVal(vs[j])
				}
				args = append(args, c16Arg{Gt: g.name, Form: "slice", Vals: vals, Text: []string{}})
				goArgs = append(goArgs, g.slice(vs))
			case 2:
				v := c16Pool[r.Intn(len(c16Pool))]
				sv := intVal(v)
				sv.Bad = fam.f == "U" && v.Sign() < 0
				if fam.f == "F" {
					f, _ := strconv.ParseFloat(v.String(), 64)
					sv.F64, sv.F32, sv.Inexact = bits8(f), bits4(float32(f)), false
				}
				args = append(args, c16Arg{Gt: "string", Form: "scalar", Vals: []c16Val{sv}, Text: []string{v.String()}})
				goArgs = append(goArgs, v.String())
			case 3:
				m := 1 + r.Intn(3)
				vals := make([]c16Val, m)
				texts := make([]string, m)
				for j := range vals {
					v := c16Pool[r.Intn(len(c16Pool))]
					vals[j] = intVal(v)
					vals[j].Bad = fam.f == "U" && v.Sign() < 0
					if fam.f == "F" {
						f, _ := strconv.ParseFloat(v.String(), 64)
						vals[j].F64, vals[j].F32, vals[j].Inexact = bits8(f), bits4(float32(f)), false
					}
					texts[j] = v.String()
				}
				args = append(args, c16Arg{Gt: "string", Form: "slice", Vals: vals, Text: texts})
				goArgs = append(goArgs, texts)
			}
		}
		c16Call(w, fam.f, width, "New", args, goArgs)
	}
	// 3. float arguments to the float constructors (and to the integer ones, where they are unsupported)
	floats := []float64{0, math.Copysign(0, -1), 1, -1, 0.1, 1e-45, 1.4e-45, 1e-46, math.SmallestNonzeroFloat64, math.MaxFloat32, -math.MaxFloat32,
		math.Nextafter(math.MaxFloat32, math.Inf(1)), 3.4028235677973366e38, 3.5e38, -3.5e38, 1e300, -1e300, math.MaxFloat64, math.Inf(1), math.Inf(-1), math.NaN(),
		16777217, 9007199254740993, 1.0000000596046448}
	for _, width := range []int{4, 8, 2} {
		for _, f := range floats {
			c16Call(w, "F", width, "New", []c16Arg{{Gt: "float64", Form: "scalar", Vals: []c16Val{floatVal(f)}, Text: []string{}}}, []any{f})
			c16Call(w, "F", width, "New", []c16Arg{{Gt: "float64", Form: "slice", Vals: []c16Val{floatVal(f), floatVal(-f)}, Text: []string{}}}, []any{[]float64{f, -f}})
			f32 := float32(f)
			c16Call(w, "F", width, "New", []c16Arg{{Gt: "float32", Form: "scalar", Vals: []c16Val{floatVal(float64(f32))}, Text: []string{}}}, []any{f32})
			c16Call(w, "F", width, "New", []c16Arg{{Gt: "float32", Form: "slice", Vals: []c16Val{floatVal(float64(f32))}, Text: []string{}}}, []any{[]float32{f32}})
			if width != 2 {
				txt := strconv.FormatFloat(f, 'g', -1, 64)
				c16Call(w, "F", width, "shortcut", []c16Arg{{Gt: "string", Form: "scalar", Vals: []c16Val{floatVal(f)}, Text: []string{txt}}}, []any{txt})
			}
		}
	}
	for _, fam := range []string{"I", "U"} {
		c16Call(w, fam, 4, "New", []c16Arg{{Gt: "float64", Form: "scalar", Vals: []c16Val{floatVal(1.5)}, Text: []string{}}}, []any{1.5})
		c16Call(w, fam, 4, "New", []c16Arg{{Gt: "float32", Form: "slice", Vals: []c16Val{floatVal(2)}, Text: []string{}}}, []any{[]float32{2}})
	}
	// 4. unsupported and unparsable arguments, alone and after valid ones
	one := 1
	weird := []struct {
		gt string
		v  any
	}{{"nil", nil}, {"struct", struct{}{}}, {"[]any", []any{1}}, {"bool", true}, {"uintptr", uintptr(7)}, {"myInt", myInt(3)}, {"*int", &one},
		{"map", map[string]int{}}, {"chan", make(chan int)}, {"func", func() {}}, {"complex", complex(1, 1)}, {"[]bool", []bool{true}}, {"[][]int", [][]int{{1}}},
		{"item", secs2.A("x")}, {"error", fmt.Errorf("e")}}
	junk := []string{"", " ", "abc", "12a", "1.5", "1e3", "--1", "0x", "١٢", "1 2", "+", "NaN"}
	for _, fam := range []string{"I", "U", "F", "B", "BOOL"} {
		width := 4
		for _, x := range weird {
			if fam == "BOOL" && (x.gt == "bool" || x.gt == "[]bool") {
				continue
			}
			c16Call(w, fam, width, "New", []c16Arg{{Gt: x.gt, Form: "scalar", Vals: []c16Val{}, Text: []string{}}}, []any{x.v})
			c16Call(w, fam, width, "shortcut", []c16Arg{{Gt: "int", Form: "scalar", Vals: []c16Val{intVal(big.NewInt(1))}, Text: []string{}}, {Gt: x.gt, Form: "scalar", Vals: []c16Val{}, Text: []string{}}},
				[]any{1, x.v})
		}
		for _, s := range junk {
			if fam == "F" && (s == "1.5" || s == "1e3" || s == "NaN") {
				continue
			}
			v := intVal(big.NewInt(0))
			v.Bad = true
			c16Call(w, fam, width, "New", []c16Arg{{Gt: "string", Form: "scalar", Vals: []c16Val{v}, Text: []string{s}}}, []any{s})
			if fam != "B" && fam != "BOOL" {
				c16Call(w, fam, width, "New", []c16Arg{{Gt: "string", Form: "slice", Vals: []c16Val{intVal(big.NewInt(5)), v}, Text: []string{"5", s}}}, []any{[]string{"5", s}})
			}
		}
	}
	// 5. binary and boolean
	for _, v := range []int64{0, 1, 127, 128, 255, 256, -1, 1000} {
		bv := big.NewInt(v)
		c16Call(w, "B", 1, "New", []c16Arg{{Gt: "int", Form: "scalar", Vals: []c16Val{intVal(bv)}, Text: []string{}}}, []any{int(v)})
		c16Call(w, "B", 1, "shortcut", []c16Arg{{Gt: "string", Form: "scalar", Vals: []c16Val{intVal(bv)}, Text: []string{bv.String()}}}, []any{bv.String()})
		if v >= 0 && v <= 255 {
			c16Call(w, "B", 1, "New", []c16Arg{{Gt: "uint8", Form: "scalar", Vals: []c16Val{intVal(bv)}, Text: []string{}}}, []any{byte(v)})
			c16Call(w, "B", 1, "New", []c16Arg{{Gt: "uint8", Form: "slice", Vals: []c16Val{intVal(bv), intVal(big.NewInt(7))}, Text: []string{}}}, []any{[]byte{byte(v), 7}})
		}
	}
	c16Call(w, "BOOL", 1, "New", []c16Arg{{Gt: "bool", Form: "scalar", Vals: []c16Val{intVal(big.NewInt(1))}, Text: []string{}}, {Gt: "bool", Form: "slice", Vals: []c16Val{intVal(big.NewInt(0)), intVal(big.NewInt(1))}, Text: []string{}}},
		[]any{true, []bool{false, true}})
	c16Call(w, "BOOL", 1, "shortcut", []c16Arg{}, []any{})
	for _, fam := range []string{"I", "U", "F", "B"} {
		c16Call(w, fam, 4, "New", []c16Arg{}, []any{})
	}
}

// ---------------------------------------------------------------- errored items never equal, never on the wire
type c16Send struct {
	Op      string `json:"op"`
	Refused bool   `json:"refused"`
	Err     string `json:"err"`
}

type c16Gate struct {
	T               string    `json:"t"` // "errgate"
	Name            string    `json:"name"`
	Where           string    `json:"where"` // "top" | "child" | "grandchild"
	Shared          bool      `json:"shared_pointer"`
	Panicked        bool      `json:"panicked"`
	PanicText       string    `json:"panic_text"`
	HasError        bool      `json:"has_error"`
	EqualSelf       bool      `json:"equal_self"`
	EqualClean      bool      `json:"equal_clean"`
	EqualRebuilt    bool      `json:"equal_rebuilt"`
	NewMsgRefused   bool      `json:"newmsg_refused"`
	DeriveRefused   bool      `json:"derive_refused"`
	Secs2MsgRefused bool      `json:"secs2msg_refused"`
	Sends           []c16Send `json:"sends"`
	FramesOnWire    int       `json:"frames_on_wire"`
}

func c16Gates(w *rec.Writer) error {
	cut, err := lab.NewCUT(lab.Options{Passive: true, Sid: 0x0102, T3: 300 * time.Millisecond, T6: time.Second, T7: 10 * time.Second, T8: time.Second})
	if err != nil {
		return err
	}
	if err := cut.Open(); err != nil {
		return err
	}
	defer cut.Conn.Close()
	p, err := cut.ConnectPeer(nil, 3*time.Second)
	if err != nil {
		return err
	}
	defer p.Close()
	p.Send(peerkit.Ctl(peerkit.STSelectReq, 0x0102, 1))
	if f, ok := p.Next(2 * time.Second); !ok || f.ST != peerkit.STSelectRsp {
		return fmt.Errorf("no Select.rsp")
	}
	if !cut.WaitState("S", 2*time.Second) {
		return fmt.Errorf("not selected")
	}
	type mk struct {
		name       string
		bad, clean func() secs2.Item
	}
	leaves := []mk{
		{"I1(unparsable string)", func() secs2.Item { return secs2.I1("x") }, func() secs2.Item { return secs2.I1("1") }},
		{"NewIntItem(3,1)", func() secs2.Item { return secs2.NewIntItem(3, 1) }, func() secs2.Item { return secs2.NewIntItem(4, 1) }},
		{"B(300)", func() secs2.Item { return secs2.B(300) }, func() secs2.Item { return secs2.B(30) }},
		{"U2(nil)", func() secs2.Item { return secs2.U2(nil) }, func() secs2.Item { return secs2.U2() }},
		{"F4(struct)", func() secs2.Item { return secs2.F4(struct{}{}) }, func() secs2.Item { return secs2.F4() }},
		{"BOOLEAN(1)", func() secs2.Item { return secs2.BOOLEAN(1) }, func() secs2.Item { return secs2.BOOLEAN(true) }},
		{"NewUintItem(0)", func() secs2.Item { return secs2.NewUintItem(0) }, func() secs2.Item { return secs2.NewUintItem(1) }},
	}
	for _, lf := range leaves {
		for _, where := range []string{"top", "child", "grandchild"} {
			for _, shared := range []bool{false, true} {
				if where == "top" && shared {
					continue
				}
				line := &c16Gate{T: "errgate", Name: lf.name, Where: where, Shared: shared, Sends: []c16Send{}}
				func() {
					defer func() {
						if r := recover(); r != nil {
							line.Panicked, line.PanicText = true, fmt.Sprint(r)
						}
					}()
					wrap := func(inner secs2.Item) secs2.Item {
						switch where {
						case "child":
							return secs2.L(secs2.A("ok"), inner, secs2.U1(1))
						case "grandchild":
							return secs2.L(secs2.A("ok"), secs2.L(secs2.L(), inner))
						}
						return inner
					}
					badLeaf := lf.bad()
					x := wrap(badLeaf)
					var rebuilt secs2.Item
					if shared {
						rebuilt = wrap(badLeaf) // a second tree reaching the SAME errored object
					} else {
						rebuilt = wrap(lf.bad())
					}
					line.HasError = x.Error() != nil
					line.EqualSelf = secs2.Equal(x, x)
					line.EqualClean = secs2.Equal(x, wrap(lf.clean())) || secs2.Equal(wrap(lf.clean()), x)
					line.EqualRebuilt = secs2.Equal(x, rebuilt) || secs2.Equal(rebuilt, x)
					if where != "top" {
						if kids, err := x.ToList(); err == nil { // a list rebuilt from another's children
							line.EqualRebuilt = line.EqualRebuilt || secs2.Equal(x, secs2.L(kids...))
						}
					}
					_, err := hsms.NewDataMessage(1, 1, true, 0x0102, [4]byte{1, 2, 3, 4}, x)
					line.NewMsgRefused = err != nil
					base, _ := hsms.NewDataMessage(1, 1, true, 0x0102, [4]byte{1, 2, 3, 4}, secs2.A("base"))
					_, err = base.Derive().WithItem(x).Build()
					line.DeriveRefused = err != nil
					p.Drain()
					ctx, cancel := context.WithTimeout(context.Background(), 250*time.Millisecond)
					_, err = cut.Conn.SendSECS2Message(ctx, secs2.NewMessage(1, 3, false, x))
					line.Secs2MsgRefused = err != nil
					ops := []struct {
						op string
						f  func() error
					}{
						{"SendDataMessage(W)", func() error { _, e := cut.Conn.SendDataMessage(ctx, 1, 1, true, x); return e }},
						{"SendDataMessage(noW)", func() error { _, e := cut.Conn.SendDataMessage(ctx, 6, 11, false, x); return e }},
						{"SendDataMessageAsync", func() error { return cut.Conn.SendDataMessageAsync(ctx, 6, 11, false, x) }},
						{"ReplyDataMessage", func() error { return cut.Conn.ReplyDataMessage(ctx, base, x) }},
					}
					for _, o := range ops {
						e := o.f()
						s := c16Send{Op: o.op, Refused: e != nil}
						if e != nil {
							s.Err = e.Error()
						}
						line.Sends = append(line.Sends, s)
					}
					cancel()
					got, _ := p.Barrier(2 * time.Second)
					line.FramesOnWire = countData(got)
				}()
				w.Emit(line)
			}
		}
	}
	return nil
}

func runC16(args []string) int {
	fs := flag.NewFlagSet("c16", flag.ExitOnError)
	out := fs.String("out", "", "observation file")
	seed := fs.Int64("seed", 1, "PRNG seed")
	n := fs.Int("n", 2000, "random multi-argument calls")
	fs.Parse(args)
	w, err := rec.Create(*out)
	if err != nil {
		fmt.Fprintln(os.Stderr, err)
		return 2
	}
	c16Ctors(w, rand.New(rand.NewSource(*seed)), *n)
	if err := c16Gates(w); err != nil {
		fmt.Fprintln(os.Stderr, "errgate:", err)
		return 2
	}
	if err := w.Close(); err != nil {
		fmt.Fprintln(os.Stderr, err)
		return 2
	}
	b, _ := json.Marshal(map[string]int{"lines": w.N})
	fmt.Println(string(b))
	return 0
}
