// Command vh is the Go half of the /verif machinery: it drives the real
// arloliu/go-secs code (built from /repo's working tree with -tags verif)
// and records observations as ndjson for the TLA+ side to judge, or replays
// TLC-generated tables/schedules against the real code.
package main

import (
	"fmt"
	"os"
)

type command struct {
	name string
	help string
	run  func(args []string) int
}

var commands []command

func register(name, help string, run func(args []string) int) {
	commands = append(commands, command{name, help, run})
}

func main() {
	if len(os.Args) < 2 {
		usage()
		os.Exit(2)
	}
	for _, c := range commands {
		if c.name == os.Args[1] {
			os.Exit(c.run(os.Args[2:]))
		}
	}
	usage()
	os.Exit(2)
}

func usage() {
	fmt.Fprintln(os.Stderr, "usage: vh <command> [flags]")
	for _, c := range commands {
		fmt.Fprintf(os.Stderr, "  %-16s %s\n", c.name, c.help)
	}
}
