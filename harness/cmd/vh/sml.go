package main

import (
	"bufio"
	"encoding/json"
	"errors"
	"flag"
	"fmt"
	"math"
	"math/rand"
	"os"
	"os/exec"
	"runtime"
	"strings"
	"sync"
	"time"
	"unicode"
	"unicode/utf8"

	"github.com/arloliu/go-secs/v2/hsms"
	"github.com/arloliu/go-secs/v2/secs2"
	"github.com/arloliu/go-secs/v2/sml"

	"verif/harness/e5"
	"verif/harness/rec"
)

func init() {
	register("sml", "SML: two renderers (C15), strict encode/parse inverses (C13), parser totality / bounds / positions / instance isolation (C14)", runSML)
	register("smlworker", "(internal) parses the inputs given on stdin, one JSON per line, and reports outcomes", runSMLWorker)
}

var smlPlaceholder = &e5.AItem{K: "L", Kids: []*e5.AItem{}}

// ---------------------------------------------------------------- item populations
func numericOnly(a *e5.AItem) bool {
	if a.K == "L" {
		for _, c := range a.Kids {
			if !numericOnly(c) {
				return false
			}
		}
		return true
	}
	return a.K != "A" && a.K != "J" && a.K != "LOC"
}

func hasKind(a *e5.AItem, pred func(*e5.AItem) bool) bool {
	if pred(a) {
		return true
	}
	for _, c := range a.Kids {
		if hasKind(c, pred) {
			return true
		}
	}
	return false
}

func hasNaN(a *e5.AItem) bool {
	return hasKind(a, func(x *e5.AItem) bool {
		if !e5.IsFloat(x.K) {
			return false
		}
		for _, e := range x.Elems {
			if len(e) == 0 {
				return true
			}
		}
		return false
	})
}

var textSafe = func() []byte {
	var out []byte
	for c := 0x20; c < 0x7f; c++ {
		if c != '"' && c != '\'' && c != '\\' && c != '<' && c != '>' {
			out = append(out, byte(c))
		}
	}
	return out
}()

// sanitize restricts JIS-8 and localized text to what C13 quantifies over; ASCII keeps every byte value.
func sanitize(a *e5.AItem, r *rand.Rand) {
	switch a.K {
	case "L":
		for _, c := range a.Kids {
			sanitize(c, r)
		}
	case "J":
		for i := range a.Bytes {
			a.Bytes[i] = textSafe[r.Intn(len(textSafe))]
		}
	case "LOC":
		runes := []string{"é", "日", "本", "ü", "€"}
		var sb strings.Builder
		for i := 0; i < len(a.Bytes) && sb.Len() < len(a.Bytes); i++ {
			if r.Intn(5) == 0 {
				sb.WriteString(runes[r.Intn(len(runes))])
			} else {
				sb.WriteByte(textSafe[r.Intn(len(textSafe))])
			}
		}
		a.Bytes = []byte(sb.String())
	}
}

func specialItems() []*e5.AItem {
	img := func(v uint64) []byte { return e5.Image8(v) }
	f8 := func(v float64) []byte { return e5.FloatElem("F8", v) }
	f4 := func(v float64) []byte { return e5.FloatElem("F4", float64(float32(v))) }
	L := func(k ...*e5.AItem) *e5.AItem { return &e5.AItem{K: "L", Kids: k} }
	out := []*e5.AItem{
		{K: "U8", Elems: [][]byte{img(0), img(1), img(math.MaxInt64), img(1 << 63), img(math.MaxUint64)}},
		{K: "I8", Elems: [][]byte{img(0), img(uint64(1<<63 - 1)), img(1 << 63), img(math.MaxUint64)}},
		{K: "U4", Elems: [][]byte{img(math.MaxUint32)}}, {K: "I4", Elems: [][]byte{img(uint64(0xFFFFFFFF80000000))}},
		{K: "U1", Elems: [][]byte{img(255)}}, {K: "I1", Elems: [][]byte{img(uint64(0xFFFFFFFFFFFFFF80)), img(127)}},
		{K: "I2", Elems: [][]byte{img(uint64(0xFFFFFFFFFFFF8000)), img(32767)}}, {K: "U2", Elems: [][]byte{img(65535)}},
		{K: "F4", Elems: [][]byte{f4(math.MaxFloat32), f4(-math.MaxFloat32), f4(math.SmallestNonzeroFloat32), f4(1.17549435e-38), f4(math.Copysign(0, -1)), f4(math.Inf(1)), f4(math.Inf(-1)), f4(0.1), f4(16777216), f4(3.4028233e38)}},
		{K: "F8", Elems: [][]byte{f8(math.MaxFloat64), f8(-math.MaxFloat64), f8(math.SmallestNonzeroFloat64), f8(2.2250738585072014e-308), f8(math.Copysign(0, -1)), f8(math.Inf(1)), f8(math.Inf(-1)), f8(0.1), f8(1e23), f8(9007199254740993)}},
		{K: "F4", Elems: [][]byte{{}}}, {K: "F8", Elems: [][]byte{{}, f8(1)}},
		{K: "B", Bytes: []byte{0, 1, 127, 128, 255}}, {K: "BOOL", Bytes: []byte{1, 0, 1}}, {K: "B", Bytes: []byte{}}, {K: "BOOL", Bytes: []byte{}},
		{K: "A", Bytes: []byte{}}, {K: "A", Bytes: []byte("plain")}, {K: "A", Bytes: []byte{0x0a, 'a', 'b', 'c'}}, {K: "A", Bytes: []byte("a\"b'c\\d")},
		{K: "A", Bytes: []byte("a>b<c")}, {K: "A", Bytes: []byte{0, 255, 0x7f, 0x80, ' '}}, {K: "A", Bytes: []byte("\"")}, {K: "A", Bytes: []byte("'")}, {K: "A", Bytes: []byte("\\")},
		{K: "A", Bytes: []byte(" lead and trail ")}, {K: "A", Bytes: []byte("0x41")}, {K: "A", Bytes: []byte("ends with backslash\\")}, {K: "A", Bytes: []byte(">")},
		{K: "J", Bytes: []byte("jis text")}, {K: "J", Bytes: []byte{}}, {K: "LOC", LSH: 10, Bytes: []byte("héllo 日本")}, {K: "LOC", LSH: 10, Bytes: []byte{}},
		L(), L(L()), L(L(), L()), L(L(L())), L(&e5.AItem{K: "A", Bytes: []byte("x")}, L(), &e5.AItem{K: "U1", Elems: [][]byte{img(1)}}),
		L(L(L(L(), &e5.AItem{K: "I1", Elems: [][]byte{}}), L()), L()),
		L(&e5.AItem{K: "U1", Elems: [][]byte{}}, &e5.AItem{K: "F4", Elems: [][]byte{}}, &e5.AItem{K: "A", Bytes: []byte{}}, &e5.AItem{K: "B", Bytes: []byte{}}),
	}
	var a256 []byte
	for c := 0; c < 256; c++ {
		a256 = append(a256, byte(c))
	}
	out = append(out, &e5.AItem{K: "A", Bytes: a256})
	for c := 0; c < 256; c++ { // every byte value alone, and between printable characters
		out = append(out, &e5.AItem{K: "A", Bytes: []byte{byte(c)}}, &e5.AItem{K: "A", Bytes: []byte{'a', byte(c), 'b'}}, &e5.AItem{K: "A", Bytes: []byte{byte(c), 'z'}})
	}
	return out
}

func buildAny(a *e5.AItem, r *rand.Rand) (secs2.Item, string) {
	for try := 0; try < 6; try++ {
		shape := e5.Shapes[r.Intn(len(e5.Shapes))]
		if it, ok := e5.Build(a, shape); ok && it != nil && it.Error() == nil {
			return it, shape
		}
	}
	for _, shape := range e5.Shapes {
		if it, ok := e5.Build(a, shape); ok && it != nil && it.Error() == nil {
			return it, shape
		}
	}
	return nil, ""
}

// ---------------------------------------------------------------- C15: two renderers
type smlRender struct {
	T        string    `json:"t"` // "smlrender"
	Origin   string    `json:"origin"`
	Item     *e5.AItem `json:"item"`
	ToSML    []int     `json:"tosml"`
	Enc      []int     `json:"enc"`
	EncAgain bool      `json:"enc_instances_agree"` // Encode via a fresh Encoder, AppendEncode and the package shortcut all agree
	Numeric  bool      `json:"numeric_only"`
	ParsedOK bool      `json:"parsed_ok"`
	ParseErr string    `json:"parse_err"`
	Parsed   *e5.AItem `json:"parsed"`
	Panic    string    `json:"panic"`
}

func smlRenderOne(w *rec.Writer, a *e5.AItem, it secs2.Item, origin string) {
	line := &smlRender{T: "smlrender", Origin: origin, Item: a, Parsed: smlPlaceholder, ToSML: []int{}, Enc: []int{}, Numeric: numericOnly(a)}
	func() {
		defer func() {
			if r := recover(); r != nil {
				line.Panic = fmt.Sprint(r)
			}
		}()
		ts := it.ToSML()
		enc := sml.Encode(it)
		line.ToSML, line.Enc = rec.Ints([]byte(ts)), rec.Ints([]byte(enc))
		line.EncAgain = sml.NewEncoder().Encode(it) == enc && string(sml.NewEncoder().AppendEncode(nil, it)) == enc
		if line.Numeric {
			for _, parse := range []func(string) ([]*hsms.DataMessage, error){sml.Parse, sml.ParseStrict} {
				msgs, err := parse("S1F1 W\n" + enc + "\n.")
				if err != nil || len(msgs) != 1 {
					line.ParsedOK, line.ParseErr = false, fmt.Sprint(err, " messages=", len(msgs))
					return
				}
				body, err := msgs[0].Item()
				if err != nil {
					line.ParseErr = err.Error()
					return
				}
				p, err := e5.Project(body)
				if err != nil {
					line.ParseErr = err.Error()
					return
				}
				if line.ParsedOK { // second parser: must agree with the first
					b1, _ := json.Marshal(line.Parsed)
					b2, _ := json.Marshal(p)
					if string(b1) != string(b2) {
						line.ParsedOK, line.ParseErr = false, "strict and non-strict parsers read different values"
						return
					}
				}
				line.ParsedOK, line.Parsed = true, p
			}
		}
	}()
	w.Emit(line)
}

func smlRenderPart(w *rec.Writer, r *rand.Rand, n int) {
	pop := specialItems()
	for i := 0; i < n; i++ {
		pop = append(pop, e5.RandItem(r, 0))
	}
	for i := 0; i < n/4; i++ { // numeric-only trees for the read-back clause
		a := e5.RandItem(r, 0)
		var strip func(x *e5.AItem)
		strip = func(x *e5.AItem) {
			for j, c := range x.Kids {
				if c.K == "A" || c.K == "J" || c.K == "LOC" {
					x.Kids[j] = e5.RandLeaf(r, []string{"U8", "I8", "F4", "F8", "B", "BOOL", "U1", "I2"}[r.Intn(8)])
				} else {
					strip(c)
				}
			}
		}
		if a.K == "A" || a.K == "J" || a.K == "LOC" {
			a = e5.RandLeaf(r, "U8")
		}
		strip(a)
		pop = append(pop, a)
	}
	for _, a := range pop {
		it, shape := buildAny(a, r)
		if it == nil {
			continue
		}
		smlRenderOne(w, a, it, "built:"+shape)
		if r.Intn(3) == 0 { // the decoded form of the same item (raw-backed accessors)
			if dec, err := secs2.Decode(it.ToBytes()); err == nil {
				smlRenderOne(w, a, dec, "decoded")
			}
		}
	}
}

// ---------------------------------------------------------------- C13: strict encode / strict parse
type smlOpts struct {
	Strict bool   `json:"strict"`
	Quote  int    `json:"quote"`
	Bin    string `json:"bin"`
	Indent []int  `json:"indent"`
	Sfq    int    `json:"sfq"`
}

type smlMsg struct {
	S    int       `json:"s"`
	F    int       `json:"f"`
	W    bool      `json:"w"`
	Item *e5.AItem `json:"item"`
}

type smlRT struct {
	T        string  `json:"t"` // "smlrt"
	Opts     smlOpts `json:"opts"`
	Msg      smlMsg  `json:"msg"`
	HasNaN   bool    `json:"has_nan"`
	HasLoc   bool    `json:"has_loc"`
	Text     []int   `json:"text"`
	EncErr   string  `json:"enc_err"`
	ParseErr string  `json:"parse_err"`
	NMsgs    int     `json:"nmsgs"`
	Parsed   smlMsg  `json:"parsed"`
	EqualAPI bool    `json:"equal_api"`
	Panic    string  `json:"panic"`
}

func projMsg(m *hsms.DataMessage) (smlMsg, error) {
	out := smlMsg{S: int(m.Stream()), F: int(m.Function()), W: m.WaitBit(), Item: smlPlaceholder}
	body, err := m.Item()
	if err != nil {
		return out, err
	}
	if body == nil || body.IsEmpty() {
		out.Item = &e5.AItem{K: "EMPTY"}
		return out, nil
	}
	p, err := e5.Project(body)
	if err != nil {
		return out, err
	}
	out.Item = p
	return out, nil
}

func smlRTPart(w *rec.Writer, r *rand.Rand, n int) {
	pop := specialItems()
	for i := 0; i < n; i++ {
		pop = append(pop, e5.RandItem(r, 0))
	}
	quotes := []sml.QuoteStyle{sml.QuoteDouble, sml.QuoteSingle}
	sfqs := []sml.QuoteStyle{sml.QuoteNone, sml.QuoteSingle, sml.QuoteDouble}
	indents := []string{"  ", "", " ", "\t", "    "}
	bins := []sml.BinaryStyle{sml.BinaryHex, sml.BinaryLiteral}
	for idx, a := range pop {
		sanitize(a, r)
		it, _ := buildAny(a, r)
		if it == nil {
			continue
		}
		combos := 2
		if idx < 1200 { // the special items see every quote style x binary style
			combos = 4
		}
		for c := 0; c < combos; c++ {
			qi, si, ii, bi := r.Intn(2), r.Intn(3), r.Intn(len(indents)), r.Intn(2)
			if idx < 1200 {
				qi, bi = c%2, c/2
			}
			s, f := r.Intn(128), r.Intn(256)
			wbit := f%2 == 1 && r.Intn(2) == 0
			if r.Intn(10) == 0 {
				s, f = []int{0, 1, 127}[r.Intn(3)], []int{0, 1, 255}[r.Intn(3)]
				wbit = f%2 == 1
			}
			msg, err := hsms.NewDataMessage(byte(s), byte(f), wbit, 0x0102, [4]byte{1, 2, 3, 4}, it)
			if err != nil {
				continue
			}
			line := &smlRT{T: "smlrt", Opts: smlOpts{Strict: true, Quote: []int{34, 39}[qi], Bin: []string{"hex", "bin"}[bi], Indent: rec.Ints([]byte(indents[ii])), Sfq: []int{0, 39, 34}[si]},
				Msg: smlMsg{S: s, F: f, W: wbit, Item: a}, HasNaN: hasNaN(a), HasLoc: hasKind(a, func(x *e5.AItem) bool { return x.K == "LOC" }),
				Parsed: smlMsg{Item: smlPlaceholder}, Text: []int{}}
			func() {
				defer func() {
					if rc := recover(); rc != nil {
						line.Panic = fmt.Sprint(rc)
					}
				}()
				enc := sml.NewEncoder(sml.WithEncoderStrictMode(true), sml.WithASCIIQuote(quotes[qi]), sml.WithSFQuote(sfqs[si]), sml.WithIndent(indents[ii]), sml.WithBinaryStyle(bins[bi]))
				text, err := enc.EncodeMessage(msg)
				if err != nil {
					line.EncErr = err.Error()
					return
				}
				line.Text = rec.Ints([]byte(text))
				msgs, err := sml.ParseStrict(text)
				if err != nil {
					line.ParseErr = err.Error()
					return
				}
				line.NMsgs = len(msgs)
				if len(msgs) != 1 {
					return
				}
				pm, err := projMsg(msgs[0])
				if err != nil {
					line.ParseErr = "project: " + err.Error()
					return
				}
				line.Parsed = pm
				line.EqualAPI = msgs[0].Equal(msg) || bodiesEqual(msgs[0], msg)
			}()
			w.Emit(line)
		}
	}
}

// bodiesEqual: stream/function/W and body equality through the public API (system bytes / session id are not part of SML).
func bodiesEqual(a, b *hsms.DataMessage) bool {
	if a.Stream() != b.Stream() || a.Function() != b.Function() || a.WaitBit() != b.WaitBit() {
		return false
	}
	ia, ea := a.Item()
	ib, eb := b.Item()
	if ea != nil || eb != nil {
		return false
	}
	return secs2.Equal(ia, ib)
}

// accepted texts: whatever ParseStrict accepts must survive encode -> parse unchanged
type smlAcc struct {
	T        string   `json:"t"` // "smlacc"
	Gen      string   `json:"gen"`
	Text     []int    `json:"text"`
	Accepted bool     `json:"accepted"`
	InScope  bool     `json:"in_scope"` // JIS-8 / localized text within C13's restriction
	First    []smlMsg `json:"first"`
	ReErr    string   `json:"re_err"`
	Second   []smlMsg `json:"second"`
	Panic    string   `json:"panic"`
}

func inScope(a *e5.AItem) bool {
	return !hasKind(a, func(x *e5.AItem) bool {
		if x.K != "J" && x.K != "LOC" {
			return false
		}
		for _, c := range x.Bytes {
			if c < 0x20 || c == 0x7f || c == '"' || c == '\'' || c == '\\' || c == '<' || c == '>' {
				return true
			}
		}
		if x.K == "LOC" { // localized TEXT: valid UTF-8 made of printable runes (a lone 0xE2 byte is not text)
			if !utf8.Valid(x.Bytes) {
				return true
			}
			for _, rn := range string(x.Bytes) {
				if !unicode.IsPrint(rn) {
					return true
				}
			}
		}
		return false
	})
}

func smlAccPart(w *rec.Writer, r *rand.Rand, n int) {
	for i := 0; i < n; i++ {
		text, gen := genSML(r, 2048)
		line := &smlAcc{T: "smlacc", Gen: gen, Text: rec.Ints([]byte(text)), First: []smlMsg{}, Second: []smlMsg{}, InScope: true}
		func() {
			defer func() {
				if rc := recover(); rc != nil {
					line.Panic = fmt.Sprint(rc)
				}
			}()
			msgs, err := sml.ParseStrict(text)
			if err != nil || len(msgs) == 0 {
				return
			}
			line.Accepted = true
			var sb strings.Builder
			for _, m := range msgs {
				pm, err := projMsg(m)
				if err != nil {
					line.Accepted = false // the body is not error-free: outside the clause
					return
				}
				if pm.Item.K != "EMPTY" && !inScope(pm.Item) {
					line.InScope = false
				}
				line.First = append(line.First, pm)
				t2, err := sml.NewEncoder(sml.WithEncoderStrictMode(true)).EncodeMessage(m)
				if err != nil {
					line.ReErr = "encode: " + err.Error()
					return
				}
				sb.WriteString(t2)
				sb.WriteByte('\n')
			}
			again, err := sml.ParseStrict(sb.String())
			if err != nil {
				line.ReErr = "parse: " + err.Error()
				return
			}
			for _, m := range again {
				pm, err := projMsg(m)
				if err != nil {
					line.ReErr = "project: " + err.Error()
					return
				}
				line.Second = append(line.Second, pm)
			}
		}()
		if line.Accepted || line.Panic != "" {
			w.Emit(line)
		}
	}
}

// ---------------------------------------------------------------- SML text generators (grammar-directed)
func genItemText(r *rand.Rand, depth int, sb *strings.Builder) {
	ws := func() {
		switch r.Intn(8) {
		case 0:
			sb.WriteString("  ")
		case 1:
			sb.WriteString("\n")
		case 2:
			sb.WriteString("\t")
		case 3:
			sb.WriteString(" /* c */ ")
		case 4:
			sb.WriteString(" // line\n")
		default:
			sb.WriteString(" ")
		}
	}
	size := func(n int) {
		switch r.Intn(6) {
		case 0:
			fmt.Fprintf(sb, "[%d]", n)
		case 1:
			fmt.Fprintf(sb, " [%d]", n)
		case 2:
			fmt.Fprintf(sb, "[%d..%d]", r.Intn(n+1), n+r.Intn(3))
		case 3:
			fmt.Fprintf(sb, "[0..%d]", n)
		}
	}
	kinds := []string{"L", "A", "B", "BOOLEAN", "I1", "I2", "I4", "I8", "U1", "U2", "U4", "U8", "F4", "F8", "J", "W"}
	k := kinds[r.Intn(len(kinds))]
	if depth > 4 && k == "L" {
		k = "U1"
	}
	tag := k
	if r.Intn(6) == 0 {
		tag = strings.ToLower(k)
	}
	sb.WriteString("<" + tag)
	n := r.Intn(4)
	switch k {
	case "L":
		size(n)
		ws()
		for i := 0; i < n; i++ {
			genItemText(r, depth+1, sb)
			ws()
		}
	case "A", "J":
		var toks []string
		total := 0
		for i := 0; i < n; i++ {
			switch r.Intn(4) {
			case 0:
				toks = append(toks, fmt.Sprintf("0x%02X", r.Intn(256)))
				total++
			case 1:
				toks = append(toks, fmt.Sprintf("%d", r.Intn(256)))
				total++
			default:
				q := []string{"\"", "'"}[r.Intn(2)]
				body := []string{"abc", "", "x y", "a\\\\b", "tab\there", "é", "<in>", "q" + "\\" + q}[r.Intn(8)]
				toks = append(toks, q+body+q)
				total += len(body)
			}
		}
		if k == "J" && len(toks) > 1 {
			toks = toks[:1]
		}
		size(total)
		ws()
		sb.WriteString(strings.Join(toks, " "))
	case "W":
		ws()
		sb.WriteString([]string{`"héllo"`, `""`, `"plain"`, `"a\nb"`}[r.Intn(4)])
	case "B":
		size(n)
		for i := 0; i < n; i++ {
			ws()
			sb.WriteString([]string{"0x1F", "0b101", "255", "0", "0xff", "017"}[r.Intn(6)])
		}
	case "BOOLEAN":
		size(n)
		for i := 0; i < n; i++ {
			ws()
			sb.WriteString([]string{"True", "False", "T", "F", "true", "false", "TRUE"}[r.Intn(7)])
		}
	case "F4", "F8":
		size(n)
		for i := 0; i < n; i++ {
			ws()
			sb.WriteString([]string{"1.5", "-0", "1E+10", "NaN", "+Inf", "-Inf", "3.40282347E+38", "1e-45", "0.1", "Inf", "12"}[r.Intn(11)])
		}
	default:
		size(n)
		for i := 0; i < n; i++ {
			ws()
			if k[0] == 'I' {
				sb.WriteString([]string{"0", "-1", "127", "-128", "+5", "0x10", "32767", "-9223372036854775808"}[r.Intn(8)])
			} else {
				sb.WriteString([]string{"0", "1", "255", "0x10", "65535", "18446744073709551615", "0b11"}[r.Intn(7)])
			}
		}
	}
	if r.Intn(5) == 0 {
		ws()
	}
	sb.WriteString(">")
}

func genValidSML(r *rand.Rand) string {
	var sb strings.Builder
	nm := 1 + r.Intn(2)
	for m := 0; m < nm; m++ {
		if r.Intn(6) == 0 {
			sb.WriteString("/* leading */ ")
		}
		hdr := fmt.Sprintf("S%dF%d", r.Intn(128), r.Intn(256))
		switch r.Intn(5) {
		case 0:
			hdr = "'" + hdr + "'"
		case 1:
			hdr = "\"" + hdr + "\""
		case 2:
			hdr = strings.ToLower(hdr)
		}
		sb.WriteString(hdr)
		if r.Intn(2) == 0 {
			sb.WriteString(" W")
		}
		if r.Intn(8) == 0 {
			sb.WriteString(" H->E")
		}
		sb.WriteString("\n")
		if r.Intn(8) != 0 {
			genItemText(r, 0, &sb)
		}
		sb.WriteString("\n.\n")
	}
	return sb.String()
}

// genSML returns a text and the name of its generator: valid, or one grammar-directed mutation of a valid text.
// genSML: a generated text, sometimes behind leading blank lines / white space (positions on later lines must still add up
// when the very first byte of the input is a newline)
func genSML(r *rand.Rand, maxLen int) (string, string) {
	t, class := genSML0(r, maxLen)
	if r.Intn(5) == 0 {
		lead := []string{"\n", "\n\n", " \n", "\r\n", "\t", "\n \n\t"}[r.Intn(6)]
		return lead + t, class + "+lead"
	}
	return t, class
}

func genSML0(r *rand.Rand, maxLen int) (string, string) {
	t := genValidSML(r)
	if len(t) > maxLen {
		t = t[:maxLen]
	}
	if len(t) == 0 {
		return t, "valid"
	}
	switch r.Intn(14) {
	case 0, 1, 2:
		return t, "valid"
	case 3:
		i := r.Intn(len(t))
		return t[:i], "truncate"
	case 4:
		i := strings.IndexByte(t, '>')
		if i >= 0 {
			return t[:i] + t[i+1:], "drop-close"
		}
	case 5:
		i := strings.IndexAny(t, "\"'")
		if i >= 0 {
			return t[:i] + t[i+1:], "drop-quote"
		}
	case 6:
		i := r.Intn(len(t))
		return t[:i] + string(rune(r.Intn(0x3000))) + t[i:], "insert-rune"
	case 7:
		i := r.Intn(len(t))
		return t[:i] + string([]byte{byte(r.Intn(256))}) + t[i+1:], "flip-byte"
	case 8:
		return strings.Replace(t, "[", "[99999999", 1), "huge-hint"
	case 9:
		return strings.Replace(t, ">", "> /* unterminated", 1), "open-comment"
	case 10:
		i := r.Intn(len(t))
		return t[:i] + "<L" + t[i:], "extra-open"
	case 11:
		i := r.Intn(len(t))
		return t[:i] + ">" + t[i:], "extra-close"
	case 12:
		return strings.Replace(t, "\n", "\r\n", -1), "crlf"
	case 13:
		i, j := r.Intn(len(t)), r.Intn(len(t))
		if i > j {
			i, j = j, i
		}
		return t[:i] + t[j:], "cut-middle"
	}
	return t, "valid"
}

// pathological inputs for the resource bounds
func genBig(kind string, n int) string {
	switch kind {
	case "deep-open":
		return "S1F1\n" + strings.Repeat("<L ", n)
	case "deep-balanced":
		return "S1F1\n" + strings.Repeat("<L ", n) + strings.Repeat(">", n) + "\n."
	case "deep-sized":
		return "S1F1\n" + strings.Repeat("<L[1] ", n) + "<U1 1>" + strings.Repeat(">", n) + "\n."
	case "long-string":
		return "S1F1\n<A \"" + strings.Repeat("x", n) + "\">\n."
	case "long-unterminated":
		return "S1F1\n<A \"" + strings.Repeat("x", n)
	case "many-comments":
		return "S1F1\n<L " + strings.Repeat("/* c */ <U1 1> ", n/16) + ">\n."
	case "many-open-comments":
		return "S1F1\n<L " + strings.Repeat("/* ", n/3)
	case "many-tokens":
		return "S1F1\n<U1 " + strings.Repeat("1 ", n/2) + ">\n."
	case "many-hex-tokens":
		return "S1F1\n<A " + strings.Repeat("0x41 ", n/5) + ">\n."
	case "many-messages":
		return strings.Repeat("S1F1 W\n<U1 1>\n.\n", n/16)
	case "huge-hint-A":
		return "S1F1\n<A[2147483647] \"x\">\n."
	case "huge-hint-A-strict":
		return "S1F1\n<A[2000000000] 0x41>\n."
	case "huge-hint-L":
		return "S1F1\n<L[2000000000] <U1 1>>\n."
	case "huge-hint-B":
		return "S1F1\n<B[4294967295] 0x01>\n."
	case "huge-hint-range":
		return "S1F1\n<U4[0..99999999999999999999] 1>\n."
	case "quote-storm":
		return "S1F1\n<A " + strings.Repeat("\"a\" ", n/4) + ">\n."
	case "backslash-storm":
		return "S1F1\n<A \"" + strings.Repeat("\\\\", n/2) + "\">\n."
	case "lt-storm":
		return "S1F1\n" + strings.Repeat("<", n)
	case "multibyte":
		return "S1F1\n<A \"" + strings.Repeat("日", n/3) + "\">\n."
	}
	return ""
}

// ---------------------------------------------------------------- C14 worker protocol
type smlJob struct {
	ID    int    `json:"id"`
	Gen   string `json:"gen"`
	Mode  string `json:"mode"` // Parse | ParseStrict | ParseMessage | ParseMessageStrict | ParseHeader
	Input string `json:"input"`
	Big   string `json:"big"` // generate with genBig(Big, N) inside the worker instead of shipping the text
	N     int    `json:"n"`
}

type smlTotal struct {
	T        string `json:"t"` // "smltotal"
	Gen      string `json:"gen"`
	Mode     string `json:"mode"`
	N        int    `json:"n"`
	Input    []int  `json:"input"` // only when n <= 2048
	Outcome  string `json:"outcome"` // ok | error | panic | crash | hang
	Detail   string `json:"detail"`
	NMsgs    int    `json:"nmsgs"`
	IsPE     bool   `json:"is_parse_error"`
	Offset   int    `json:"offset"`
	Line     int    `json:"line"`
	Col      int    `json:"col"`
	NlBefore int    `json:"nl_before"` // '\n' bytes in input[:offset] (counted by the harness)
	LastNl   int    `json:"last_nl"`   // index of the last '\n' before offset, -1 if none
	DurUs    int    `json:"dur_us"`
	DurMs    int    `json:"dur_ms"`
	Alloc    int    `json:"alloc_bytes"`
	AllocKB  int    `json:"alloc_kb"`
	NKB      int    `json:"n_kb"`
	MsgsOK   bool   `json:"msgs_valid"`
}

func smlRunJob(j *smlJob) *smlTotal {
	input := j.Input
	if j.Big != "" {
		input = genBig(j.Big, j.N)
	}
	line := &smlTotal{T: "smltotal", Gen: j.Gen, Mode: j.Mode, N: len(input), Input: []int{}, LastNl: -1, MsgsOK: true}
	if len(input) <= 2048 {
		line.Input = rec.Ints([]byte(input))
	}
	var msgs []*hsms.DataMessage
	var err error
	var ms0, ms1 runtime.MemStats
	runtime.ReadMemStats(&ms0)
	t0 := time.Now()
	func() {
		defer func() {
			if rc := recover(); rc != nil {
				line.Outcome, line.Detail = "panic", fmt.Sprint(rc)
			}
		}()
		switch j.Mode {
		case "Parse":
			msgs, err = sml.Parse(input)
		case "ParseStrict":
			msgs, err = sml.ParseStrict(input)
		case "ParseMessage", "ParseMessageStrict", "ParseHeader":
			var m *hsms.DataMessage
			p := sml.NewParser(sml.WithParserStrictMode(j.Mode == "ParseMessageStrict"))
			if j.Mode == "ParseHeader" {
				m, err = p.ParseHeader(input)
			} else {
				m, err = p.ParseMessage(input)
			}
			if m != nil {
				msgs = []*hsms.DataMessage{m}
			}
		}
	}()
	line.DurUs = int(time.Since(t0) / time.Microsecond)
	line.DurMs = line.DurUs / 1000
	runtime.ReadMemStats(&ms1)
	line.Alloc = int(ms1.TotalAlloc - ms0.TotalAlloc)
	line.AllocKB = line.Alloc / 1024
	line.NKB = len(input) / 1024
	if line.Alloc > 1<<30 { // keep every recorded integer inside TLC's 32-bit range
		line.Alloc = 1 << 30
	}
	if line.Outcome == "panic" {
		return line
	}
	if err != nil {
		line.Outcome, line.Detail = "error", err.Error()
		var pe *sml.ParseError
		if errors.As(err, &pe) {
			line.IsPE, line.Offset, line.Line, line.Col = true, pe.Offset, pe.Line, pe.Col
			if pe.Offset >= 0 && pe.Offset <= len(input) {
				for i := 0; i < pe.Offset; i++ {
					if input[i] == '\n' {
						line.NlBefore++
						line.LastNl = i
					}
				}
			}
		}
		if len(msgs) != 0 {
			line.MsgsOK = false // an error AND messages
		}
		return line
	}
	line.Outcome, line.NMsgs = "ok", len(msgs)
	for _, m := range msgs { // "valid data messages": the body is obtainable and error-free
		if m == nil {
			line.MsgsOK = false
			continue
		}
		if j.Mode == "ParseHeader" {
			continue
		}
		func() {
			defer func() {
				if rc := recover(); rc != nil {
					line.MsgsOK, line.Detail = false, fmt.Sprint("panic reading the parsed message: ", rc)
				}
			}()
			it, err := m.Item()
			if err != nil || (it != nil && it.Error() != nil) {
				line.MsgsOK = false
			}
			_ = m.ToBytes()
		}()
	}
	return line
}

func runSMLWorker(args []string) int {
	in := bufio.NewReaderSize(os.Stdin, 1<<20)
	out := bufio.NewWriter(os.Stdout)
	defer out.Flush()
	dec := json.NewDecoder(in)
	for {
		var j smlJob
		if err := dec.Decode(&j); err != nil {
			return 0
		}
		fmt.Fprintf(out, "BEGIN %d\n", j.ID)
		out.Flush()
		res := smlRunJob(&j)
		b, _ := json.Marshal(res)
		fmt.Fprintf(out, "END %d %s\n", j.ID, b)
		out.Flush()
		runtime.GC()
	}
}

// runWorkerPool feeds jobs to `vh smlworker` subprocesses; a crash or a hang is charged to the job in flight.
func smlRunJobs(w *rec.Writer, jobs []*smlJob, par int, hangAfter time.Duration) {
	exe, _ := os.Executable()
	var mu sync.Mutex
	next := 0
	hangs := 0
	take := func() *smlJob {
		mu.Lock()
		defer mu.Unlock()
		if next >= len(jobs) || hangs >= 6 { // a non-terminating parser is established after a few cases: do not burn the budget
			return nil
		}
		j := jobs[next]
		next++
		return j
	}
	emit := func(v any) {
		mu.Lock()
		defer mu.Unlock()
		w.Emit(v)
	}
	var wg sync.WaitGroup
	for k := 0; k < par; k++ {
		wg.Add(1)
		go func() {
			defer wg.Done()
			for {
				j := take()
				if j == nil {
					return
				}
				// one worker process serves jobs until it dies
				// the worker's address space is capped so that a runaway allocation kills the worker, not the machine
				cmd := exec.Command("/bin/sh", "-c", "ulimit -v 6291456; exec \"$0\" smlworker", exe)
				cmd.Env = append(os.Environ(), "GOTRACEBACK=none", "GOMAXPROCS=2")
				stdin, _ := cmd.StdinPipe()
				stdout, _ := cmd.StdoutPipe()
				var stderr strings.Builder
				cmd.Stderr = &limitedWriter{w: &stderr, n: 4096}
				if err := cmd.Start(); err != nil {
					emit(&smlTotal{T: "smltotal", Gen: j.Gen, Mode: j.Mode, Outcome: "harness", Detail: err.Error(), Input: []int{}})
					return
				}
				sc := bufio.NewScanner(stdout)
				sc.Buffer(make([]byte, 1<<20), 64<<20)
				enc := json.NewEncoder(stdin)
				alive := true
				for alive && j != nil {
					if err := enc.Encode(j); err != nil {
						alive = false
						break
					}
					done := make(chan string, 1)
					go func() {
						for sc.Scan() {
							t := sc.Text()
							if strings.HasPrefix(t, "END ") {
								done <- t
								return
							}
						}
						done <- ""
					}()
					select {
					case t := <-done:
						if t == "" {
							alive = false
							_ = cmd.Wait()
							n := j.N
							if j.Big == "" {
								n = len(j.Input)
							}
							res := &smlTotal{T: "smltotal", Gen: j.Gen, Mode: j.Mode, N: n, Outcome: "crash", Detail: firstLine(stderr.String()), Input: []int{}, LastNl: -1}
							if j.Big == "" && len(j.Input) <= 2048 {
								res.Input = rec.Ints([]byte(j.Input))
							}
							emit(res)
						} else {
							parts := strings.SplitN(t, " ", 3)
							var res smlTotal
							if json.Unmarshal([]byte(parts[2]), &res) == nil {
								emit(&res)
							}
						}
					case <-time.After(hangAfter):
						alive = false
						_ = cmd.Process.Kill()
						_ = cmd.Wait()
						mu.Lock()
						hangs++
						mu.Unlock()
						n := j.N
						if j.Big == "" {
							n = len(j.Input)
						}
						res := &smlTotal{T: "smltotal", Gen: j.Gen, Mode: j.Mode, N: n, Outcome: "hang", Detail: fmt.Sprintf("no result after %v", hangAfter), Input: []int{}, LastNl: -1,
							DurUs: int(hangAfter / time.Microsecond), DurMs: int(hangAfter / time.Millisecond), NKB: n / 1024}
						if j.Big == "" && len(j.Input) <= 2048 {
							res.Input = rec.Ints([]byte(j.Input))
						}
						emit(res)
					}
					if alive {
						j = take()
					}
				}
				if alive {
					stdin.Close()
					_ = cmd.Wait()
				}
			}
		}()
	}
	wg.Wait()
}

type limitedWriter struct {
	w *strings.Builder
	n int
}

func (l *limitedWriter) Write(p []byte) (int, error) {
	if l.n > 0 {
		k := len(p)
		if k > l.n {
			k = l.n
		}
		l.w.Write(p[:k])
		l.n -= k
	}
	return len(p), nil
}

func firstLine(s string) string {
	for _, l := range strings.Split(s, "\n") {
		if strings.TrimSpace(l) != "" {
			if len(l) > 200 {
				l = l[:200]
			}
			return l
		}
	}
	return ""
}

func smlTotalPart(w *rec.Writer, r *rand.Rand, n int, bigN int) {
	var jobs []*smlJob
	modes := []string{"Parse", "ParseStrict", "ParseMessage", "ParseMessageStrict", "ParseHeader"}
	id := 0
	add := func(gen, mode, input, big string, bn int) {
		id++
		jobs = append(jobs, &smlJob{ID: id, Gen: gen, Mode: mode, Input: input, Big: big, N: bn})
	}
	// fixed regression inputs at the edges of the grammar
	fixed := []string{"", " ", ".", "S", "S1", "S1F", "S1F1", "S1F1 ", "S1F1 W", "S1F1\n<", "S1F1\n<A", "S1F1\n<A \"abc\"  ", "S1F1\n<A \"", "S1F1\n<A '", "S1F1\n<A \"abc", "S1F1\n<A[",
		"S1F1\n<A[1", "S1F1\n<A[1..", "S1F1\n<A[1..2", "S1F1\n<L[", "S1F1\n<L", "S1F1\n<L>", "S1F1\n<L <", "S1F1\n<U1 1", "S1F1\n<U1 1 ", "S1F1\n<B 0x", "S1F1\n<BOOLEAN T",
		"S1F1\n<W \"", "S1F1\n<W \"\\", "S1F1\n<J \"", "S1F1\n/*", "S1F1\n//", "S1F1\n<A \"abc\"> /*", "S1F1\n<A \"abc\">\n. /*", "S999F1", "S1F999", "S1F0 W", "S-1F1", "'S1F1", "\"S1F1",
		"S1F1\n<A \"a\\", "S1F1\n<A \"\\\"", "S1F1\n<F4 1e", "S1F1\n<F4 0x", "S1F1\n<I8 -", "S1F1\n<U8 18446744073709551616>", "S1F1\n<X 1>", "S1F1\n<A[-1] \"\">", "S1F1\n<A[2..1] \"a\">",
		"S1F1\n<A \"\xff\xfe\">", "\xff\xfe", "S1F1\n<A \"日本\" 0x", "S1F1 W\n<L\n  <A \"x\">\n", "S1F1\n<A 0x41 \"b\" 0x4", "S1F1\n<A \"abc\" >>\n.", "\x00", "S1F1\n\x00<A>"}
	for _, f := range fixed {
		for _, m := range modes {
			add("fixed", m, f, "", 0)
		}
	}
	for i := 0; i < n; i++ {
		t, gen := genSML(r, 4096)
		for _, m := range modes {
			if m == "Parse" || m == "ParseStrict" || r.Intn(3) == 0 {
				add(gen, m, t, "", 0)
			}
		}
	}
	for i := 0; i < n/10; i++ { // raw bytes
		b := make([]byte, r.Intn(200))
		r.Read(b)
		add("random-bytes", modes[r.Intn(2)], string(b), "", 0)
		add("random-after-header", modes[r.Intn(2)], "S1F1\n"+string(b), "", 0)
	}
	for _, kind := range []string{"deep-open", "deep-balanced", "deep-sized", "long-string", "long-unterminated", "many-comments", "many-open-comments", "many-tokens",
		"many-hex-tokens", "many-messages", "quote-storm", "backslash-storm", "lt-storm", "multibyte"} {
		for _, sz := range []int{1 << 10, 1 << 14, bigN} {
			for _, m := range []string{"Parse", "ParseStrict"} {
				add(kind, m, "", kind, sz)
			}
		}
	}
	// nesting deep enough to exhaust the 1 GB goroutine stack if the recursion were unbounded
	add("deep-open", "Parse", "", "deep-open", 16<<20)
	add("deep-sized", "ParseStrict", "", "deep-sized", 4<<20)
	for _, kind := range []string{"huge-hint-A", "huge-hint-A-strict", "huge-hint-L", "huge-hint-B", "huge-hint-range"} {
		for _, m := range []string{"Parse", "ParseStrict"} {
			add(kind, m, "", kind, 0)
		}
	}
	smlRunJobs(w, jobs, 8, 8*time.Second)
}

// ---------------------------------------------------------------- C14: instances share nothing
type smlConc struct {
	T          string `json:"t"` // "smlconc"
	Goroutines int    `json:"goroutines"`
	Inputs     int    `json:"inputs"`
	Rounds     int    `json:"rounds"`
	Mismatches int    `json:"mismatches"`
	Panics     int    `json:"panics"`
	Hung       bool   `json:"hung"`
	Crashed    bool   `json:"crashed"`
	First      string `json:"first"`
}

func fingerprint(msgs []*hsms.DataMessage, err error) string {
	if err != nil {
		return "E:" + err.Error()
	}
	var sb strings.Builder
	for _, m := range msgs {
		fmt.Fprintf(&sb, "S%dF%d%v:", m.Stream(), m.Function(), m.WaitBit())
		it, e := m.Item()
		if e != nil {
			sb.WriteString("bodyerr")
		} else if it != nil {
			sb.WriteString(it.ToSML())
		}
		sb.WriteByte('|')
	}
	return sb.String()
}

func smlConcPart(w *rec.Writer, r *rand.Rand, rounds int) {
	var inputs []string
	for i := 0; i < 200; i++ {
		t, _ := genSML(r, 4096)
		inputs = append(inputs, t)
	}
	type fn struct {
		name string
		f    func(string) string
	}
	fns := []fn{
		{"sml.Parse", func(s string) string { return fingerprint(sml.Parse(s)) }},
		{"sml.ParseStrict", func(s string) string { return fingerprint(sml.ParseStrict(s)) }},
		{"NewParser().Parse", func(s string) string { return fingerprint(sml.NewParser().Parse(s)) }},
		{"NewParser(strict).ParseMessage", func(s string) string {
			m, err := sml.NewParser(sml.WithParserStrictMode(true)).ParseMessage(s)
			if m == nil {
				return fingerprint(nil, err)
			}
			return fingerprint([]*hsms.DataMessage{m}, err)
		}},
		{"Encode(Parse)", func(s string) string {
			msgs, err := sml.Parse(s)
			if err != nil {
				return "E"
			}
			out := ""
			for _, m := range msgs {
				t, _ := sml.NewEncoder(sml.WithEncoderStrictMode(true)).EncodeMessage(m)
				t2, _ := sml.EncodeMessage(m, sml.WithASCIIQuote(sml.QuoteSingle))
				out += t + t2
			}
			return out
		}},
	}
	// sequential reference
	want := make([][]string, len(fns))
	for i, f := range fns {
		want[i] = make([]string, len(inputs))
		for k, in := range inputs {
			want[i][k] = safeCall(f.f, in)
		}
	}
	line := &smlConc{T: "smlconc", Goroutines: 16, Inputs: len(inputs), Rounds: rounds}
	var mu sync.Mutex
	var wg sync.WaitGroup
	for g := 0; g < line.Goroutines; g++ {
		wg.Add(1)
		go func(g int, gr *rand.Rand) {
			defer wg.Done()
			for it := 0; it < rounds; it++ {
				i := (g + it) % len(fns)
				k := gr.Intn(len(inputs))
				got := safeCall(fns[i].f, inputs[k])
				if got != want[i][k] {
					mu.Lock()
					line.Mismatches++
					if strings.HasPrefix(got, "PANIC") {
						line.Panics++
					}
					if line.First == "" {
						line.First = fmt.Sprintf("%s on input %d: sequential %.120q concurrent %.120q", fns[i].name, k, want[i][k], got)
					}
					mu.Unlock()
				}
			}
		}(g, rand.New(rand.NewSource(r.Int63())))
	}
	wg.Wait()
	w.Emit(line)
}

func safeCall(f func(string) string, in string) (out string) {
	defer func() {
		if rc := recover(); rc != nil {
			out = fmt.Sprint("PANIC ", rc)
		}
	}()
	return f(in)
}

func runSML(args []string) int {
	fs := flag.NewFlagSet("sml", flag.ExitOnError)
	out := fs.String("out", "", "observation file")
	seed := fs.Int64("seed", 1, "PRNG seed")
	n := fs.Int("n", 1500, "population size")
	parts := fs.String("parts", "render,rt,acc,total,conc", "which parts")
	bigN := fs.Int("big", 1<<20, "size of the largest pathological inputs")
	fs.Parse(args)
	has := func(p string) bool { return strings.Contains(","+*parts+",", ","+p+",") }
	w, err := rec.Create(*out)
	if err != nil {
		fmt.Fprintln(os.Stderr, err)
		return 2
	}
	r := rand.New(rand.NewSource(*seed))
	if has("render") {
		smlRenderPart(w, r, *n)
	}
	if has("rt") {
		smlRTPart(w, r, *n)
	}
	if has("acc") {
		smlAccPart(w, r, *n*4)
	}
	if has("total") {
		smlTotalPart(w, r, *n, *bigN)
	}
	if has("conc") {
		if os.Getenv("VH_SML_CONC_CHILD") == "1" {
			smlConcPart(w, r, *n*4)
		} else {
			// in a child of its own: a parser that does not terminate must not hang the check
			exe, _ := os.Executable()
			tmp := *out + ".conc"
			cmd := exec.Command(exe, "sml", "-out", tmp, "-seed", fmt.Sprint(*seed), "-n", fmt.Sprint(*n), "-parts", "conc")
			cmd.Env = append(os.Environ(), "VH_SML_CONC_CHILD=1")
			done := make(chan error, 1)
			if err := cmd.Start(); err == nil {
				go func() { done <- cmd.Wait() }()
				select {
				case err := <-done:
					if b, rerr := os.ReadFile(tmp); rerr == nil && err == nil && len(b) > 0 {
						var line smlConc
						if json.Unmarshal(b[:strings.IndexByte(string(b), '\n')], &line) == nil {
							w.Emit(&line)
						}
					} else {
						w.Emit(&smlConc{T: "smlconc", Crashed: true, First: fmt.Sprint("child failed: ", err)})
					}
				case <-time.After(90 * time.Second):
					_ = cmd.Process.Kill()
					<-done
					w.Emit(&smlConc{T: "smlconc", Hung: true, First: "no result after 90 s"})
				}
			}
			os.Remove(tmp)
		}
	}
	if err := w.Close(); err != nil {
		fmt.Fprintln(os.Stderr, err)
		return 2
	}
	b, _ := json.Marshal(map[string]int{"lines": w.N})
	fmt.Println(string(b))
	return 0
}
