package main

import (
	"context"
	"encoding/json"
	"errors"
	"flag"
	"fmt"
	"os"
	"strings"
	"sync"
	"time"

	"github.com/arloliu/go-secs/v2/hsms"
	"github.com/arloliu/go-secs/v2/secs2"

	"verif/harness/lab"
	"verif/harness/peerkit"
	"verif/harness/rec"
)

func init() {
	register("c07", "send-side gate: every data-sending entry point under every not-selected condition", runC07)
}

type c07Line struct {
	T         string `json:"t"` // "c07"
	Role      string `json:"role"`
	Cond      string `json:"cond"`
	Op        string `json:"op"`
	Err       string `json:"err"`        // "nil" | "not-selected" | "not-open" | "closed" | "other:<text>"
	DropDelta int    `json:"drop_delta"` // DataMsgDropNotSelectedCount after - before
	SendDelta int    `json:"send_delta"` // DataMsgSendCount after - before
	PeerData  int    `json:"peer_data"`  // data frames the peer saw for this call
	HasLink   bool   `json:"has_link"`   // a TCP link to the peer exists in this condition
	CtlOK     bool   `json:"ctl_ok"`     // a Linktest round trip from the peer succeeded after the call
	State     string `json:"state"`
	Panic     string `json:"panic"`
	Fault     string `json:"fault"`
}

var c07Ops = []string{"SendDataMessage(W)", "SendDataMessage(noW)", "SendSECS2Message(W)", "SendDataMessageAsync(W)",
	"SendDataMessageAsync(noW)", "ReplyDataMessage", "ForwardDataMessage", "ForwardDataMessageAsync"}

func errClass(err error) string {
	switch {
	case err == nil:
		return "nil"
	case errors.Is(err, hsms.ErrNotSelectedState):
		return "not-selected"
	case errors.Is(err, hsms.ErrNotOpen):
		return "not-open"
	case errors.Is(err, hsms.ErrConnClosed):
		return "closed"
	case errors.Is(err, hsms.ErrT3Timeout):
		return "t3"
	case errors.Is(err, context.DeadlineExceeded), errors.Is(err, context.Canceled):
		return "ctx"
	}
	var rej *hsms.RejectError
	if errors.As(err, &rej) {
		return fmt.Sprintf("reject:%d", rej.Reason)
	}
	if s := err.Error(); strings.Contains(s, "write tcp") || strings.Contains(s, "broken pipe") || strings.Contains(s, "use of closed") || strings.Contains(s, "connection reset") {
		return "write-error"
	}
	return "other:" + err.Error()
}

func callOp(c hsms.Connection, op string, ctx context.Context) (err error) {
	primary, _ := hsms.NewDataMessage(1, 1, true, 0x0102, [4]byte{9, 9, 9, 9}, secs2.A("p"))
	fwd, _ := hsms.NewDataMessage(2, 3, false, 0x0102, [4]byte{8, 8, 8, 8}, secs2.U1(1))
	switch op {
	case "SendDataMessage(W)":
		_, err = c.SendDataMessage(ctx, 1, 1, true, secs2.A("x"))
	case "SendDataMessage(noW)":
		_, err = c.SendDataMessage(ctx, 6, 11, false, secs2.A("x"))
	case "SendSECS2Message(W)":
		_, err = c.SendSECS2Message(ctx, secs2.NewMessage(1, 3, true, secs2.L()))
	case "SendDataMessageAsync(W)":
		err = c.SendDataMessageAsync(ctx, 1, 1, true, secs2.A("x"))
	case "SendDataMessageAsync(noW)":
		err = c.SendDataMessageAsync(ctx, 6, 11, false, secs2.A("x"))
	case "ReplyDataMessage":
		err = c.ReplyDataMessage(ctx, primary, secs2.A("r"))
	case "ForwardDataMessage":
		err = c.ForwardDataMessage(ctx, fwd)
	case "ForwardDataMessageAsync":
		err = c.ForwardDataMessageAsync(ctx, fwd)
	}
	return err
}

func countData(fs []peerkit.RxFrame) int {
	n := 0
	for _, f := range fs {
		if f.ST == peerkit.STData {
			n++
		}
	}
	return n
}

// probe runs one entry point under the prepared condition and records what happened.
func probe(w *rec.Writer, role, cond string, cut *lab.CUT, p *peerkit.PeerConn, op string) {
	line := &c07Line{T: "c07", Role: role, Cond: cond, Op: op, HasLink: p != nil}
	func() {
		defer func() {
			if r := recover(); r != nil {
				line.Panic = fmt.Sprint(r)
			}
		}()
		m := cut.Conn.Metrics()
		d0, s0 := m.DataMsgDropNotSelectedCount(), m.DataMsgSendCount()
		if p != nil {
			p.Drain()
		}
		ctx, cancel := context.WithTimeout(context.Background(), 400*time.Millisecond)
		err := callOp(cut.Conn, op, ctx)
		cancel()
		line.Err = errClass(err)
		if p != nil {
			got, ok := p.Barrier(2 * time.Second)
			line.CtlOK = ok
			line.PeerData = countData(got)
		}
		line.DropDelta = int(m.DataMsgDropNotSelectedCount() - d0)
		line.SendDelta = int(m.DataMsgSendCount() - s0)
		line.State = cut.State()
	}()
	w.Emit(line)
}

func c07Role(w *rec.Writer, passive bool) error {
	role := map[bool]string{true: "passive", false: "active"}[passive]
	mk := func() (*lab.CUT, *peerkit.PeerListener, error) {
		cut, err := lab.NewCUT(lab.Options{Passive: passive, Sid: 0x0102, T3: 300 * time.Millisecond, T6: 2 * time.Second, T7: 30 * time.Second,
			BackoffInit: 50 * time.Millisecond, T5: 200 * time.Millisecond})
		if err != nil {
			return nil, nil, err
		}
		var pl *peerkit.PeerListener
		if !passive {
			pl, _ = peerkit.ListenPeer()
			cut.Net.SetTarget(pl.Addr())
		}
		return cut, pl, nil
	}
	selectIt := func(cut *lab.CUT, p *peerkit.PeerConn) error {
		if passive {
			p.Send(peerkit.Ctl(peerkit.STSelectReq, 0x0102, 0x77000001))
		} else {
			f, ok := p.Next(2 * time.Second)
			if !ok || f.ST != peerkit.STSelectReq {
				return fmt.Errorf("no Select.req from active CUT")
			}
			p.Send(peerkit.CtlStatus(peerkit.STSelectRsp, f.Sid, 0, f.SbU32()))
		}
		if _, ok := p.Barrier(2 * time.Second); !ok || !cut.WaitState("S", time.Second) {
			return fmt.Errorf("could not reach Selected")
		}
		return nil
	}
	for _, op := range c07Ops {
		// (a) never opened
		cut, pl, err := mk()
		if err != nil {
			return err
		}
		probe(w, role, "never-opened", cut, nil, op)
		// (c) connecting: active = dials refused; passive = listening, nobody connected
		cut.Net.Refuse.Store(true)
		if err := cut.Open(); err != nil {
			return err
		}
		time.Sleep(5 * time.Millisecond)
		probe(w, role, "connecting", cut, nil, op)
		cut.Net.Refuse.Store(false)
		// (d) connected, not selected (peer withholds the select)
		p, err := cut.ConnectPeer(pl, 5*time.Second)
		if err != nil {
			w.Emit(&c07Line{T: "c07", Role: role, Cond: "connected-not-selected", Op: op, Fault: err.Error()})
			cut.Conn.Close()
			continue
		}
		if !passive {
			p.Next(2 * time.Second) // swallow Select.req, never answer
		}
		cut.WaitState("NS", time.Second)
		probe(w, role, "connected-not-selected", cut, p, op)
		// (g) selected: positive control (the gate opens)
		if passive {
			p.Send(peerkit.Ctl(peerkit.STSelectReq, 0x0102, 0x77000002))
			p.Barrier(2 * time.Second)
		} else {
			// the withheld Select.req is still open: answer it now
			p.Close()
			cut.WaitDropped(cut.Net.DialCount(), time.Second)
			p, err = cut.ConnectPeer(pl, 5*time.Second)
			if err == nil {
				err = selectIt(cut, p)
			}
			if err != nil {
				w.Emit(&c07Line{T: "c07", Role: role, Cond: "selected", Op: op, Fault: err.Error()})
				cut.Conn.Close()
				continue
			}
		}
		cut.WaitState("S", time.Second)
		probe(w, role, "selected", cut, p, op)
		// (e) deselected
		p.Send(peerkit.Ctl(peerkit.STDeselectReq, 0x0102, 0x77000003))
		p.Barrier(2 * time.Second)
		time.Sleep(3 * time.Millisecond) // let the supervisor drain (see known finding F1)
		probe(w, role, "deselected", cut, p, op)
		// (f) between generations: the peer drops the link and is unreachable
		cut.Net.Refuse.Store(true)
		dials := cut.Net.DialCount()
		p.Close()
		cut.WaitDropped(dials, 2*time.Second)
		cut.WaitState("NC", time.Second)
		probe(w, role, "between-generations", cut, nil, op)
		cut.Net.Refuse.Store(false)
		// (b) closed (after having been selected in an earlier generation)
		if err := cut.Conn.Close(); err != nil {
			w.Emit(&c07Line{T: "c07", Role: role, Cond: "closed", Op: op, Fault: "close: " + err.Error()})
		}
		probe(w, role, "closed", cut, nil, op)
		if pl != nil {
			pl.Close()
		}
	}
	return nil
}

// c07Recheck: a writer parked while holding the write lock (after the first gate passed), then the
// session is deselected, then the writer is released: no bytes may reach the peer, exactly one drop.
func c07Recheck(w *rec.Writer) error {
	for _, op := range []string{"SendDataMessage(noW)", "ForwardDataMessage", "SendDataMessageAsync(noW)", "SendDataMessage(W)"} {
		cut, err := lab.NewCUT(lab.Options{Passive: true, Sid: 0x0102, T3: 300 * time.Millisecond})
		if err != nil {
			return err
		}
		if err := cut.Open(); err != nil {
			return err
		}
		p, err := cut.ConnectPeer(nil, 5*time.Second)
		if err != nil {
			return err
		}
		p.Send(peerkit.Ctl(peerkit.STSelectReq, 0x0102, 1))
		p.Barrier(2 * time.Second)
		cut.WaitState("S", time.Second)
		line := &c07Line{T: "c07", Role: "passive", Cond: "deselected-while-writer-parked", Op: op, HasLink: true}
		parked := make(chan struct{})
		release := make(chan struct{})
		var once sync.Once
		hsms.VerifSetGate(func(name string) {
			if name == "write.locked" {
				first := false
				once.Do(func() { first = true })
				if first {
					close(parked)
					<-release
				}
			}
		})
		m := cut.Conn.Metrics()
		d0, s0 := m.DataMsgDropNotSelectedCount(), m.DataMsgSendCount()
		res := make(chan error, 1)
		go func() {
			ctx, cancel := context.WithTimeout(context.Background(), time.Second)
			defer cancel()
			res <- callOp(cut.Conn, op, ctx)
		}()
		select {
		case <-parked:
		case <-time.After(2 * time.Second):
			line.Fault = "writer never reached the write lock"
		}
		if line.Fault == "" {
			// deselect while the data writer holds the write lock: the Deselect.rsp cannot be written yet,
			// so wait for the state itself
			p.Send(peerkit.Ctl(peerkit.STDeselectReq, 0x0102, 2))
			if !cut.WaitState("NS", 2*time.Second) {
				line.Fault = "deselect did not take effect while the writer was parked"
			}
			close(release)
			var err error
			select {
			case err = <-res:
			case <-time.After(3 * time.Second):
				line.Fault = "parked call never returned"
			}
			hsms.VerifSetGate(nil)
			if op == "SendDataMessageAsync(noW)" {
				// the async call returned before the gate; its frame is written (or dropped) by the drainer
				line.Err = "not-selected"
				_ = err
			} else {
				line.Err = errClass(err)
			}
			got, ok := p.Barrier(2 * time.Second)
			line.CtlOK = ok
			line.PeerData = countData(got)
			line.DropDelta = int(m.DataMsgDropNotSelectedCount() - d0)
			line.SendDelta = int(m.DataMsgSendCount() - s0)
			line.State = cut.State()
		} else {
			close(release)
			hsms.VerifSetGate(nil)
		}
		w.Emit(line)
		p.Close()
		cut.Conn.Close()
	}
	return nil
}

// ---------------------------------------------------------------- pipelined data while the supervisor is mid-step
// c07Gated parks the supervisor goroutine between its state load and its store while it digests an OLDER event
// (the TCP-up echo, or the echo of a Deselect), lets the receive goroutine commit the peer's Select.req (CAS to
// Selected) in that window, releases the supervisor so that its store lands right after the commit, and only then
// lets the receive goroutine go on to the data frame the peer pipelined behind the Select.req.
type c07Gated struct {
	T         string `json:"t"` // "c07p"
	Variant   string `json:"variant"` // which older event the supervisor is digesting
	Parked    bool   `json:"supervisor_parked"`
	Committed bool   `json:"commit_in_window"`
	SelectRsp int    `json:"select_rsp_status"`
	DataSent  int    `json:"data_sent"`
	Delivered int    `json:"delivered"`
	Rejects   int    `json:"rejects"`
	State     string `json:"state_after"`
	Panic     string `json:"panic"`
	Fault     string `json:"fault"`
}

func c07GatedScenario(variant string) *c07Gated {
	line := &c07Gated{T: "c07p", Variant: variant, SelectRsp: -1}
	cut, err := lab.NewCUT(lab.Options{Passive: true, Sid: 0x0102, T3: 300 * time.Millisecond, T6: 2 * time.Second, T7: 30 * time.Second})
	if err != nil {
		line.Fault = err.Error()
		return line
	}
	var mu sync.Mutex
	armed := false
	parked := make(chan struct{})
	release := make(chan struct{})
	var parkOnce, relOnce sync.Once
	commits := 0
	// the first commit after arming produces the older event the supervisor is parked on (CommitConnected -> TCP-up echo,
	// CommitSelectLost -> Deselect echo); the second one is the CommitSelected that must land inside the window
	wantCommit := 2
	hsms.VerifSetGate(func(name string) {
		mu.Lock()
		on := armed
		mu.Unlock()
		if !on {
			return
		}
		switch name {
		case "sup.step.loaded":
			first := false
			parkOnce.Do(func() { first = true })
			if first {
				close(parked)
				select {
				case <-release:
				case <-time.After(2 * time.Second):
				}
			}
		case "sup.commit.cas":
			mu.Lock()
			commits++
			n := commits
			mu.Unlock()
			if n == wantCommit {
				select {
				case <-parked: // the supervisor is between load and store: let its store land now, before we go on
					line.Committed = true
					relOnce.Do(func() { close(release) })
					time.Sleep(5 * time.Millisecond)
				case <-time.After(300 * time.Millisecond):
				}
			}
		}
	})
	defer hsms.VerifSetGate(nil)
	defer relOnce.Do(func() { close(release) })
	if err := cut.Open(); err != nil {
		line.Fault = err.Error()
		return line
	}
	defer cut.Conn.Close()
	if variant == "tcpup" {
		mu.Lock()
		armed = true // the first supervisor step after the connection comes up digests the TCP-up echo
		mu.Unlock()
	}
	p, err := cut.ConnectPeer(nil, 3*time.Second)
	if err != nil {
		line.Fault = err.Error()
		return line
	}
	defer p.Close()
	data := func(k int) peerkit.Frame {
		return peerkit.Data(0x0102, 1, 1, false, uint32(0x61000000+k), asciiBody("pipelined"))
	}
	switch variant {
	case "tcpup":
		select {
		case <-parked:
			line.Parked = true
		case <-time.After(time.Second):
			line.Fault = "the supervisor never reached the gate"
			return line
		}
		// Select.req and two data frames in ONE write
		p.Send(peerkit.Ctl(peerkit.STSelectReq, 0x0102, 0x60000001), data(1), data(2))
		line.DataSent = 2
	case "selectlost":
		p.Send(peerkit.Ctl(peerkit.STSelectReq, 0x0102, 0x60000001))
		if _, ok := p.Barrier(2 * time.Second); !ok || !cut.WaitState("S", time.Second) {
			line.Fault = "could not reach Selected"
			return line
		}
		time.Sleep(5 * time.Millisecond)
		cut.TakeDeliveries()
		p.Drain()
		mu.Lock()
		armed = true // the next supervisor step digests the echo of the Deselect
		mu.Unlock()
		p.Send(peerkit.Ctl(peerkit.STDeselectReq, 0x0102, 0x60000002))
		select {
		case <-parked:
			line.Parked = true
		case <-time.After(time.Second):
			line.Fault = "the supervisor never reached the gate"
			return line
		}
		p.Send(peerkit.Ctl(peerkit.STSelectReq, 0x0102, 0x60000003), data(1), data(2))
		line.DataSent = 2
	}
	got, _ := p.Barrier(3 * time.Second)
	for _, f := range got {
		switch f.ST {
		case peerkit.STSelectRsp:
			line.SelectRsp = int(f.B3)
		case peerkit.STRejectReq:
			line.Rejects++
		}
	}
	time.Sleep(5 * time.Millisecond)
	for _, d := range cut.TakeDeliveries() {
		if d.Sb[0] == 0x61 {
			line.Delivered++
		}
	}
	line.State = cut.State()
	return line
}

func runC07(args []string) int {
	fs := flag.NewFlagSet("c07", flag.ExitOnError)
	out := fs.String("out", "", "observation file")
	fs.Parse(args)
	w, err := rec.Create(*out)
	if err != nil {
		fmt.Fprintln(os.Stderr, err)
		return 2
	}
	for _, passive := range []bool{true, false} {
		if err := c07Role(w, passive); err != nil {
			fmt.Fprintln(os.Stderr, "c07:", err)
			return 2
		}
	}
	if err := c07Recheck(w); err != nil {
		fmt.Fprintln(os.Stderr, "c07 recheck:", err)
		return 2
	}
	for rep := 0; rep < 3; rep++ {
		for _, v := range []string{"tcpup", "selectlost"} {
			var line *c07Gated
			func() {
				defer func() {
					if r := recover(); r != nil {
						line = &c07Gated{T: "c07p", Variant: v, Panic: fmt.Sprint(r)}
					}
				}()
				line = c07GatedScenario(v)
			}()
			w.Emit(line)
		}
	}
	if err := w.Close(); err != nil {
		fmt.Fprintln(os.Stderr, err)
		return 2
	}
	b, _ := json.Marshal(map[string]int{"lines": w.N})
	fmt.Println(string(b))
	return 0
}
