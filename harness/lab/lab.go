// Package lab builds real hsmsss connections under test (CUT) wired to peerkit.
package lab

import (
	"context"
	"fmt"
	"sync"
	"time"

	"github.com/arloliu/go-secs/v2/hsms"
	"github.com/arloliu/go-secs/v2/hsmsss"

	"verif/harness/peerkit"
)

// Delivery is one data-handler invocation.
type Delivery struct {
	Sb     []int `json:"sb"`
	Stream int   `json:"s"`
	Func   int   `json:"f"`
	W      bool  `json:"w"`
	Sid    int   `json:"sid"`
	Seq    int   `json:"seq"`
}

// StateNote is one state-change notification.
type StateNote struct {
	Prev string    `json:"prev"`
	Next string    `json:"next"`
	At   time.Time `json:"-"`
}

// CUT is a connection under test plus everything the harness observes about it.
type CUT struct {
	Conn    hsmsss.Connection
	Net     *peerkit.Net
	Passive bool
	Sid     int

	lastListener *peerkit.WListener // the listener the previous generation was accepted on

	mu         sync.Mutex
	deliveries []Delivery
	notes      []StateNote
	OnData     func(msg *hsms.DataMessage, ep hsms.SECS2Endpoint) // optional extra handler behaviour (replies)
}

type Options struct {
	Passive      bool
	Sid          int
	ValidateSid  bool
	T3, T5, T6, T7, T8 time.Duration
	BackoffInit  time.Duration
	BackoffMult  float64
	Linktest     time.Duration
	LinktestThreshold int
	Suppression  *bool
	CloseTimeout time.Duration
	WriteTimeout time.Duration
	SendQueue    int
	HostRole     bool
	Extra        []hsms.ConnOption
}

func d(v, def time.Duration) time.Duration {
	if v == 0 {
		return def
	}
	return v
}

func StName(s hsms.ConnState) string {
	switch s {
	case hsms.NotConnectedState:
		return "NC"
	case hsms.NotSelectedState:
		return "NS"
	case hsms.SelectedState:
		return "S"
	}
	return fmt.Sprintf("?%d", int(s))
}

// NewCUT builds (but does not open) a connection under test.
func NewCUT(o Options) (*CUT, error) {
	c := &CUT{Net: peerkit.NewNet(), Passive: o.Passive, Sid: o.Sid}
	copts := []hsms.ConnOption{
		hsms.WithSessionID(uint16(o.Sid)),
		hsms.WithT3(d(o.T3, 2*time.Second)), hsms.WithT5(d(o.T5, 50*time.Millisecond)), hsms.WithT6(d(o.T6, 2*time.Second)),
		hsms.WithT7(d(o.T7, 20*time.Second)), hsms.WithT8(d(o.T8, 2*time.Second)),
		hsms.WithReconnectBackoff(d(o.BackoffInit, time.Millisecond), func() float64 {
			if o.BackoffMult == 0 {
				return 1
			}
			return o.BackoffMult
		}()),
		hsms.WithLinktestInterval(o.Linktest),
		hsms.WithCloseTimeout(d(o.CloseTimeout, 2*time.Second)),
		hsms.WithSessionIDValidation(o.ValidateSid),
		hsms.WithLogger(&QuietLogger{}),
	}
	if o.LinktestThreshold > 0 {
		copts = append(copts, hsms.WithLinktestFailThreshold(o.LinktestThreshold))
	}
	if o.Suppression != nil {
		copts = append(copts, hsms.WithLinktestSuppression(*o.Suppression))
	}
	if o.WriteTimeout > 0 {
		copts = append(copts, hsms.WithWriteTimeout(o.WriteTimeout))
	}
	if o.SendQueue > 0 {
		copts = append(copts, hsms.WithSenderQueueSize(o.SendQueue))
	}
	copts = append(copts, o.Extra...)
	opts := []hsmsss.Option{hsmsss.WithDialer(c.Net.Dial), hsmsss.WithListener(c.Net.Listen)}
	if o.Passive {
		opts = append(opts, hsmsss.WithPassive())
	} else {
		opts = append(opts, hsmsss.WithActive())
	}
	if o.HostRole {
		opts = append(opts, hsmsss.WithHostRole())
	} else {
		opts = append(opts, hsmsss.WithEquipRole())
	}
	for _, co := range copts {
		opts = append(opts, hsmsss.WithConnectionOption(co))
	}
	cfg, err := hsmsss.NewConfig("127.0.0.1", 5000, opts...)
	if err != nil {
		return nil, err
	}
	conn, err := hsmsss.New(cfg)
	if err != nil {
		return nil, err
	}
	c.Conn = conn
	conn.AddDataMessageHandler(func(msg *hsms.DataMessage, ep hsms.SECS2Endpoint) {
		sb := msg.SystemBytes()
		c.mu.Lock()
		c.deliveries = append(c.deliveries, Delivery{Sb: []int{int(sb[0]), int(sb[1]), int(sb[2]), int(sb[3])},
			Stream: int(msg.Stream()), Func: int(msg.Function()), W: msg.WaitBit(), Sid: int(msg.SessionID()), Seq: len(c.deliveries) + 1})
		h := c.OnData
		c.mu.Unlock()
		if h != nil {
			h(msg, ep)
		}
	})
	conn.AddConnStateChangeHandler(func(prev, next hsms.ConnState) {
		c.mu.Lock()
		c.notes = append(c.notes, StateNote{Prev: StName(prev), Next: StName(next), At: time.Now()})
		c.mu.Unlock()
	})
	return c, nil
}

// TakeDeliveries returns and clears the handler deliveries recorded so far.
func (c *CUT) TakeDeliveries() []Delivery {
	c.mu.Lock()
	defer c.mu.Unlock()
	out := c.deliveries
	c.deliveries = nil
	if out == nil {
		out = []Delivery{}
	}
	return out
}

func (c *CUT) TakeNotes() []StateNote {
	c.mu.Lock()
	defer c.mu.Unlock()
	out := c.notes
	c.notes = nil
	if out == nil {
		out = []StateNote{}
	}
	return out
}

func (c *CUT) State() string { return StName(c.Conn.State()) }

// WaitState polls State() until it equals want or the timeout passes.
func (c *CUT) WaitState(want string, timeout time.Duration) bool {
	deadline := time.Now().Add(timeout)
	for {
		if c.State() == want {
			return true
		}
		if time.Now().After(deadline) {
			return false
		}
		time.Sleep(200 * time.Microsecond)
	}
}

// WaitDropped waits until the CUT has noticed that its current TCP generation ended: State() is
// NotConnected, or (active role, which re-dials at once) a new dial has been made since `dialsBefore`.
func (c *CUT) WaitDropped(dialsBefore int, timeout time.Duration) bool {
	deadline := time.Now().Add(timeout)
	for {
		if c.State() == "NC" || (!c.Passive && c.Net.DialCount() > dialsBefore) {
			return true
		}
		if time.Now().After(deadline) {
			return false
		}
		time.Sleep(200 * time.Microsecond)
	}
}

// Open opens in background mode.
func (c *CUT) Open() error { return c.Conn.Open(context.Background(), hsms.OpenBackground) }

// ConnectPeer establishes one TCP generation between the CUT and a raw peer:
// passive CUT -> the peer dials the CUT's current listener; active CUT -> the peer listener accepts the CUT's dial.
func (c *CUT) ConnectPeer(pl *peerkit.PeerListener, timeout time.Duration) (*peerkit.PeerConn, error) {
	if c.Passive {
		deadline := time.Now().Add(timeout)
		for {
			l := c.Net.WaitListener(time.Until(deadline))
			if l == nil {
				return nil, fmt.Errorf("no listener from the passive CUT within %v", timeout)
			}
			if l == c.lastListener { // the previous generation's listener is still being torn down
				if time.Now().After(deadline) {
					return nil, fmt.Errorf("passive CUT did not re-listen within %v", timeout)
				}
				time.Sleep(200 * time.Microsecond)
				continue
			}
			p, err := peerkit.DialPeer(l.Addr().String(), time.Second)
			if err == nil {
				c.lastListener = l
				return p, nil
			}
			if time.Now().After(deadline) {
				return nil, err
			}
			time.Sleep(time.Millisecond)
		}
	}
	p, ok := pl.Accept(timeout)
	if !ok {
		return nil, fmt.Errorf("active CUT did not dial within %v", timeout)
	}
	return p, nil
}
