package lab

import (
	"context"
	"net"
	"sync"
	"time"

	"github.com/arloliu/go-secs/v2/hsms"
	"github.com/arloliu/go-secs/v2/secs1"

	"verif/harness/peerkit"
)

// S1CUT is a SECS-I connection under test.
type S1CUT struct {
	Conn    secs1.Connection
	Net     *peerkit.Net
	Passive bool
	Equip   bool
	Device  int

	mu         sync.Mutex
	deliveries []S1Delivery
	OnData     func(msg *hsms.DataMessage, ep hsms.SECS2Endpoint)
	lastListener *peerkit.WListener
}

// S1Delivery is one handler invocation with the full body.
type S1Delivery struct {
	S    int   `json:"s"`
	F    int   `json:"f"`
	W    bool  `json:"w"`
	Sb   []int `json:"sb"`
	Sid  int   `json:"sid"`
	Body []int `json:"body"`
}

type S1Options struct {
	Passive, Equip bool
	Device         int
	T1, T2, T3, T4, T5 time.Duration
	Retry          int
	BackoffInit    time.Duration
	CloseTimeout   time.Duration
}

func NewS1CUT(o S1Options) (*S1CUT, error) {
	c := &S1CUT{Net: peerkit.NewNet(), Passive: o.Passive, Equip: o.Equip, Device: o.Device}
	opts := []secs1.Option{secs1.WithDialer(c.Net.Dial), secs1.WithListener(c.Net.Listen), secs1.WithDeviceID(uint16(o.Device)),
		secs1.WithT1(d(o.T1, 100*time.Millisecond)), secs1.WithT2(d(o.T2, 300*time.Millisecond)), secs1.WithT4(d(o.T4, 2*time.Second)),
		secs1.WithT5(d(o.T5, 50*time.Millisecond)), secs1.WithRetryLimit(o.Retry),
		secs1.WithConnectionOption(hsms.WithT3(d(o.T3, 2*time.Second))),
		secs1.WithConnectionOption(hsms.WithReconnectBackoff(d(o.BackoffInit, time.Millisecond), 1)),
		secs1.WithConnectionOption(hsms.WithCloseTimeout(d(o.CloseTimeout, 2*time.Second))),
		secs1.WithConnectionOption(hsms.WithLogger(&QuietLogger{})),
	}
	if o.Passive {
		opts = append(opts, secs1.WithPassive())
	} else {
		opts = append(opts, secs1.WithActive())
	}
	if o.Equip {
		opts = append(opts, secs1.WithEquipment())
	} else {
		opts = append(opts, secs1.WithHost())
	}
	cfg, err := secs1.NewConfig("127.0.0.1", 5000, opts...)
	if err != nil {
		return nil, err
	}
	conn, err := secs1.New(cfg)
	if err != nil {
		return nil, err
	}
	c.Conn = conn
	conn.AddDataMessageHandler(func(msg *hsms.DataMessage, ep hsms.SECS2Endpoint) {
		sb := msg.SystemBytes()
		body := msg.AppendBodyTo(nil)
		ints := make([]int, len(body))
		for i, b := range body {
			ints[i] = int(b)
		}
		c.mu.Lock()
		c.deliveries = append(c.deliveries, S1Delivery{S: int(msg.Stream()), F: int(msg.Function()), W: msg.WaitBit(),
			Sb: []int{int(sb[0]), int(sb[1]), int(sb[2]), int(sb[3])}, Sid: int(msg.SessionID()), Body: ints})
		h := c.OnData
		c.mu.Unlock()
		if h != nil {
			h(msg, ep)
		}
	})
	return c, nil
}

func (c *S1CUT) TakeDeliveries() []S1Delivery {
	c.mu.Lock()
	defer c.mu.Unlock()
	out := c.deliveries
	c.deliveries = nil
	if out == nil {
		out = []S1Delivery{}
	}
	return out
}

// AwaitDeliveries collects handler deliveries until at least want have arrived (or maxWait has passed), then keeps
// collecting until nothing new has arrived for quiet. Handler invocation is asynchronous to the line-level ACK: on a
// loaded machine a fixed short sleep mistakes a late delivery for a lost message.
func (c *S1CUT) AwaitDeliveries(want int, maxWait, quiet time.Duration) []S1Delivery {
	out := []S1Delivery{}
	deadline := time.Now().Add(maxWait)
	for len(out) < want && time.Now().Before(deadline) {
		out = append(out, c.TakeDeliveries()...)
		if len(out) < want {
			time.Sleep(time.Millisecond)
		}
	}
	last := time.Now()
	for time.Since(last) < quiet {
		if d := c.TakeDeliveries(); len(d) > 0 {
			out = append(out, d...)
			last = time.Now()
		}
		time.Sleep(time.Millisecond)
	}
	return out
}

func (c *S1CUT) State() string { return StName(c.Conn.State()) }

func (c *S1CUT) WaitState(want string, timeout time.Duration) bool {
	deadline := time.Now().Add(timeout)
	for {
		if c.State() == want {
			return true
		}
		if time.Now().After(deadline) {
			return false
		}
		time.Sleep(200 * time.Microsecond)
	}
}

func (c *S1CUT) Open() error { return c.Conn.Open(context.Background(), hsms.OpenBackground) }

// ConnectRaw establishes one TCP generation and returns the raw socket of the peer side.
func (c *S1CUT) ConnectRaw(pl net.Listener, timeout time.Duration) (net.Conn, error) {
	if c.Passive {
		deadline := time.Now().Add(timeout)
		for {
			l := c.Net.WaitListener(time.Until(deadline))
			if l == nil || l == c.lastListener {
				if time.Now().After(deadline) {
					return nil, context.DeadlineExceeded
				}
				time.Sleep(300 * time.Microsecond)
				continue
			}
			conn, err := net.DialTimeout("tcp", l.Addr().String(), time.Second)
			if err == nil {
				c.lastListener = l
				return conn, nil
			}
			if time.Now().After(deadline) {
				return nil, err
			}
		}
	}
	type res struct {
		c   net.Conn
		err error
	}
	ch := make(chan res, 1)
	go func() {
		if tl, ok := pl.(*net.TCPListener); ok {
			_ = tl.SetDeadline(time.Now().Add(timeout))
		}
		conn, err := pl.Accept()
		ch <- res{conn, err}
	}()
	r := <-ch
	return r.c, r.err
}
