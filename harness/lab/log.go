package lab

import (
	"strings"
	"sync/atomic"

	"github.com/arloliu/go-secs/v2/logger"
)

// QuietLogger discards everything but counts Warn lines that report coalesced notifications.
type QuietLogger struct{ Coalesced atomic.Int64 }

func (q *QuietLogger) Debug(string, ...any) {}
func (q *QuietLogger) Info(string, ...any)  {}
func (q *QuietLogger) Warn(msg string, _ ...any) {
	if strings.Contains(msg, "coalesced") {
		q.Coalesced.Add(1)
	}
}
func (q *QuietLogger) Error(string, ...any)         {}
func (q *QuietLogger) Fatal(string, ...any)         {}
func (q *QuietLogger) With(...any) logger.Logger    { return q }
func (q *QuietLogger) Level() logger.LogLevel       { return logger.LogLevel(10) }
func (q *QuietLogger) SetLevel(logger.LogLevel)     {}
